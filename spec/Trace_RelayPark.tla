--------------------------- MODULE Trace_RelayPark ---------------------------
(***************************************************************************)
(* White-box leg of C01: every time Mux::ready of the real worker hands a   *)
(* session back to epoll, the cfg(sozu_verif) hook mux_ready_exit takes a   *)
(* snapshot; harness/drive_relay projects it to one record per (stream,     *)
(* direction) that holds sendable bytes inside sozu, in the shape of        *)
(* Relay!ModelParkRec, and writes one `Park` line per distinct projection.  *)
(* Each record must satisfy Relay!ParkRecOK - the part of Quiescent_OK a    *)
(* snapshot can decide: no pending output is parked without somebody who    *)
(* will wake its writer.  This finds a lost wake-up even when timing luck   *)
(* (a timer tick, an unrelated event) lets the transfer finish.             *)
(***************************************************************************)
EXTENDS Relay, Json, IOUtils

ASSUME TLCSet(1, 0)

Rec == ndJsonDeserialize(IOEnv.TRACE)

VARIABLE j
pvars == <<vars, j>>

SnapshotOK(e) == \A k \in DOMAIN e.eps : ParkRecOK(e.eps[k])

P_Next == /\ j <= Len(Rec)
          /\ Rec[j].ev = "Park" => SnapshotOK(Rec[j])
          /\ j' = j + 1
          /\ UNCHANGED vars
ParkSpec == Init /\ j = 1 /\ [][P_Next]_pvars

Track == (j - 1 > TLCGet(1) => TLCSet(1, j - 1)) /\ TRUE
TraceAccepted ==
  /\ IF TLCGet(1) = Len(Rec)
     THEN PrintT(<<"TRACE-ACCEPTED", TLCGet(1)>>)
     ELSE /\ PrintT(<<"TRACE-REJECTED", TLCGet(1), Len(Rec)>>)
          /\ PrintT(<<"STUCK-EVENT", Rec[TLCGet(1) + 1]>>)
  /\ TRUE
=============================================================================
