//! Shared scaffolding of the C15 harness (replay_h2conn, drive_h2storm): a real sozu worker with an
//! HTTPS/H2 listener whose flood knobs are small, a controllable HTTP/1.1 mock backend (requests are
//! held until released), the concretisation of the abstract frames of spec/H2Conn.tla, and a raw H2
//! client that records what sozu sends back between PING markers.

use std::collections::{HashMap, HashSet};
use std::io::{Read, Write};
use std::net::{SocketAddr, TcpListener, TcpStream};
use std::sync::{Arc, Condvar, Mutex};
use std::time::{Duration, Instant};

use serde_json::{Value, json};
use sozu_command_lib::config::ListenerBuilder;
use sozu_command_lib::proto::command::{ActivateListener, AddCertificate, CertificateAndKey, ListenerType, request::RequestType};

use crate::h2::*;
use crate::worker::{LOCAL_CERT, LOCAL_KEY, Worker, free_addr, ok};

pub const PRIORITY_UPDATE: u8 = 0x10;
/// backend inactivity timeout of the test listener (seconds)
pub const BACK_TIMEOUT_S: u32 = 4;
/// frontend inactivity timeout of the test listener (seconds)
pub const FRONT_TIMEOUT_S: u32 = 5;
/// deadline for "everything is released once every client is gone": 3 x the largest timeout + 2 s
pub const RELEASE_DEADLINE_S: u64 = 3 * FRONT_TIMEOUT_S as u64 + 2;
pub const UNKNOWN_TYPE: u8 = 0x20;
/// response body of a "big" answer of the mock backend (BigBody of spec/H2Conn.tla)
pub const BIG_BODY: usize = 100;
/// response body of an "ok" answer (SmallBody of spec/H2Conn.tla)
pub const SMALL_BODY: usize = 2;
/// 2^31-1 and the initial value of every flow-control window (WMax, WDef of spec/H2Conn.tla)
pub const W_MAX: u32 = 0x7fff_ffff;
pub const W_DEF: u32 = 65_535;

// ------------------------------------------------------------------------------------------------
// thresholds

#[derive(Clone, Debug)]
pub struct Knobs {
    pub max_streams: u32,
    pub rst: u32,
    pub ping: u32,
    pub settings: u32,
    pub empty: u32,
    pub wu0: u32,
    pub cont: u32,
    pub glitch: u32,
    pub rst_life: u64,
    pub rst_abusive: u64,
    pub rst_emitted: u64,
    pub hdr_list: u32,
}

impl Knobs {
    pub fn from_json(v: &Value) -> Knobs {
        let g = |k: &str, d: u64| v.get(k).and_then(|x| x.as_u64()).unwrap_or(d);
        Knobs {
            max_streams: g("max_streams", 2) as u32,
            rst: g("rst", 2) as u32,
            ping: g("ping", 100_000) as u32,
            settings: g("settings", 2) as u32,
            empty: g("empty", 2) as u32,
            wu0: g("wu0", 2) as u32,
            cont: g("cont", 2) as u32,
            glitch: g("glitch", 2) as u32,
            rst_life: g("rst_life", 3),
            rst_abusive: g("rst_abusive", 2),
            rst_emitted: g("rst_emitted", 2),
            hdr_list: g("hdr_list", 4096) as u32,
        }
    }
}

/// Start a worker with one HTTPS listener (h2) configured with `k`, cluster "c15" routed to `backend`.
pub fn start_worker(name: &str, k: &Knobs, backend: SocketAddr) -> Result<(Worker, SocketAddr), String> {
    let t = Duration::from_secs(10);
    // a large buffer pool: sessions whose client vanished may linger until `back_timeout` (observed on the
    // unchanged tree), and thousands of short connections per second must not starve the pool meanwhile
    let cfg = crate::worker::server_config(|fc| {
        fc.max_buffers = Some(50_000);
        fc.min_buffers = Some(1);
        fc.max_connections = Some(20_000);
    });
    let mut w = Worker::start(name, cfg, &sozu_command_lib::scm_socket::Listeners::default(), sozu_command_lib::state::ConfigState::new());
    let front = free_addr();
    let mut b = ListenerBuilder::new_https(front.into());
    b.back_timeout = Some(BACK_TIMEOUT_S);
    b.front_timeout = Some(FRONT_TIMEOUT_S);
    b.h2_max_concurrent_streams = Some(k.max_streams);
    b.h2_max_rst_stream_per_window = Some(k.rst);
    b.h2_max_ping_per_window = Some(k.ping);
    b.h2_max_settings_per_window = Some(k.settings);
    b.h2_max_empty_data_per_window = Some(k.empty);
    b.h2_max_window_update_stream0_per_window = Some(k.wu0);
    b.h2_max_continuation_frames = Some(k.cont);
    b.h2_max_glitch_count = Some(k.glitch);
    b.h2_max_rst_stream_lifetime = Some(k.rst_life);
    b.h2_max_rst_stream_abusive_lifetime = Some(k.rst_abusive);
    b.h2_max_rst_stream_emitted_lifetime = Some(k.rst_emitted);
    b.h2_max_header_list_size = Some(k.hdr_list);
    let l = b.to_tls(None).map_err(|e| format!("listener config: {e}"))?;
    let a = w.request(RequestType::AddHttpsListener(l), t);
    let act = w.request(
        RequestType::ActivateListener(ActivateListener { address: front.into(), proxy: ListenerType::Https.into(), from_scm: false }),
        t,
    );
    let c = w.request(
        RequestType::AddCertificate(AddCertificate {
            address: front.into(),
            certificate: CertificateAndKey { certificate: LOCAL_CERT.to_string(), key: LOCAL_KEY.to_string(), certificate_chain: vec![], versions: vec![], names: vec![] },
            expired_at: None,
        }),
        t,
    );
    let cl = w.request(RequestType::AddCluster(Worker::default_cluster("c15")), t);
    let fr = w.request(RequestType::AddHttpsFrontend(Worker::http_frontend("c15", front, "localhost", "/")), t);
    let be = w.request(RequestType::AddBackend(Worker::backend("c15", "b1", backend)), t);
    if !(ok(&a) && ok(&act) && ok(&c) && ok(&cl) && ok(&fr) && ok(&be)) {
        return Err(format!("worker setup failed: {:?}", [ok(&a), ok(&act), ok(&c), ok(&cl), ok(&fr), ok(&be)]));
    }
    Ok((w, front))
}

// ------------------------------------------------------------------------------------------------
// mock backend: HTTP/1.1, holds every request whose path starts with /h/ until released

#[derive(Default)]
pub struct BackendState {
    pub seen: Mutex<HashMap<String, String>>, // key -> request head as received
    pub released: Mutex<HashSet<String>>,
    /// keys whose answer carries a BIG_BODY-byte body instead of "ok"
    pub big: Mutex<HashSet<String>>,
    pub cv: Condvar,
    pub stop: Mutex<bool>,
}

pub struct MockBackend {
    pub addr: SocketAddr,
    pub state: Arc<BackendState>,
}

impl MockBackend {
    pub fn start() -> MockBackend {
        let addr = free_addr();
        let listener = TcpListener::bind(addr).expect("bind backend");
        let state = Arc::new(BackendState::default());
        let st = state.clone();
        std::thread::Builder::new()
            .name("mock-backend".into())
            .spawn(move || {
                for s in listener.incoming() {
                    if *st.stop.lock().unwrap() { break; }
                    if let Ok(s) = s {
                        let st = st.clone();
                        let _ = std::thread::Builder::new().stack_size(128 * 1024).spawn(move || serve(s, st));
                    }
                }
            })
            .expect("spawn backend");
        MockBackend { addr, state }
    }

    /// wait until the backend has received the request for `key`; returns the request head
    pub fn wait_seen(&self, key: &str, timeout: Duration) -> Option<String> {
        let deadline = Instant::now() + timeout;
        let mut g = self.state.seen.lock().unwrap();
        loop {
            if let Some(h) = g.get(key) { return Some(h.clone()); }
            let now = Instant::now();
            if now >= deadline { return None; }
            g = self.state.cv.wait_timeout(g, deadline - now).unwrap().0;
        }
    }
    pub fn was_seen(&self, key: &str) -> bool { self.state.seen.lock().unwrap().contains_key(key) }
    pub fn release(&self, key: &str) {
        self.state.released.lock().unwrap().insert(key.to_string());
    }
    /// release with a BIG_BODY-byte response body
    pub fn release_big(&self, key: &str) {
        self.state.big.lock().unwrap().insert(key.to_string());
        self.state.released.lock().unwrap().insert(key.to_string());
    }
    pub fn forget(&self, prefix: &str) {
        self.state.big.lock().unwrap().retain(|k| !k.starts_with(prefix));
        self.state.seen.lock().unwrap().retain(|k, _| !k.starts_with(prefix));
        self.state.released.lock().unwrap().retain(|k| !k.starts_with(prefix));
    }
}

fn serve(mut s: TcpStream, st: Arc<BackendState>) {
    s.set_read_timeout(Some(Duration::from_millis(20))).ok();
    s.set_nodelay(true).ok();
    let mut buf: Vec<u8> = Vec::new();
    let mut tmp = [0u8; 8192];
    let idle_deadline = Instant::now() + Duration::from_secs(60);
    loop {
        // read a request head
        let head_end = loop {
            if let Some(p) = find(&buf, b"\r\n\r\n") { break p + 4; }
            if Instant::now() > idle_deadline { return; }
            match s.read(&mut tmp) {
                Ok(0) => return,
                Ok(n) => buf.extend_from_slice(&tmp[..n]),
                Err(e) if e.kind() == std::io::ErrorKind::WouldBlock || e.kind() == std::io::ErrorKind::TimedOut => continue,
                Err(_) => return,
            }
        };
        let head = String::from_utf8_lossy(&buf[..head_end]).to_string();
        buf.drain(..head_end);
        let path = head.split_whitespace().nth(1).unwrap_or("").to_string();
        if let Some(key) = path.strip_prefix("/h/") {
            st.seen.lock().unwrap().insert(key.to_string(), head.clone());
            st.cv.notify_all();
            // hold until released; discard body bytes meanwhile; leave when sozu hangs up
            let deadline = Instant::now() + Duration::from_secs(30);
            loop {
                if st.released.lock().unwrap().contains(key) { break; }
                if Instant::now() > deadline { return; }
                match s.read(&mut tmp) {
                    Ok(0) => return,
                    Ok(_) => {}
                    Err(e) if e.kind() == std::io::ErrorKind::WouldBlock || e.kind() == std::io::ErrorKind::TimedOut => {}
                    Err(_) => return,
                }
            }
            // a request without body leaves the connection reusable; after an early answer to a request whose
            // body may still be in flight the connection is closed
            if st.big.lock().unwrap().contains(key) {
                // as below: a request without body leaves the connection reusable, the others announce the close
                // (VH_C15_SILENT_CLOSE: diagnostic switch, the backend hangs up without announcing it)
                let close = if head.starts_with("GET ") || std::env::var("VH_C15_SILENT_CLOSE").is_ok() { "" } else { "Connection: close\r\n" };
                let mut r = format!("HTTP/1.1 200 OK\r\nContent-Length: {BIG_BODY}\r\n{close}\r\n").into_bytes();
                r.extend(std::iter::repeat_n(b'x', BIG_BODY));
                if s.write_all(&r).is_err() { return; }
                if head.starts_with("GET ") { continue; }
                let _ = s.flush();
                return;
            }
            if head.starts_with("GET ") {
                if s.write_all(b"HTTP/1.1 200 OK\r\nContent-Length: 2\r\n\r\nok").is_err() { return; }
                continue;
            }
            let _ = s.write_all(b"HTTP/1.1 200 OK\r\nContent-Length: 2\r\nConnection: close\r\n\r\nok");
            let _ = s.flush();
            return;
        }
        // anything else (probe): immediate answer, keep-alive
        if s.write_all(b"HTTP/1.1 200 OK\r\nContent-Length: 5\r\n\r\nprobe").is_err() { return; }
    }
}

fn find(h: &[u8], n: &[u8]) -> Option<usize> {
    h.windows(n.len()).position(|w| w == n)
}

// ------------------------------------------------------------------------------------------------
// HPACK: literal fields without indexing (stateless, so a block sozu never decodes cannot desynchronise
// the rest of the connection) and with incremental indexing (used to test exactly that)

fn hpack_int(out: &mut Vec<u8>, first: u8, prefix_bits: u8, mut n: usize) {
    let max = (1usize << prefix_bits) - 1;
    if n < max { out.push(first | n as u8); return; }
    out.push(first | max as u8);
    n -= max;
    while n >= 128 { out.push((n % 128) as u8 | 0x80); n /= 128; }
    out.push(n as u8);
}

pub fn hpack_literal(out: &mut Vec<u8>, name: &[u8], value: &[u8]) {
    out.push(0x00);
    hpack_int(out, 0, 7, name.len());
    out.extend_from_slice(name);
    hpack_int(out, 0, 7, value.len());
    out.extend_from_slice(value);
}

pub fn hpack_block(headers: &[(&str, &str)]) -> Vec<u8> {
    let mut out = Vec::new();
    for (k, v) in headers { hpack_literal(&mut out, k.as_bytes(), v.as_bytes()); }
    out
}

pub fn request_block_plain(method: &str, path: &str, extra: &[(&str, &str)]) -> Vec<u8> {
    let mut h: Vec<(&str, &str)> = vec![(":method", method), (":scheme", "https"), (":authority", "localhost"), (":path", path)];
    h.extend_from_slice(extra);
    hpack_block(&h)
}

// ------------------------------------------------------------------------------------------------
// concretisation of an abstract frame of H2Conn.tla

pub struct Concretiser {
    pub conn_key: String,
    /// streams on which a HEADERS frame was already sent (the next HEADERS carries trailers)
    pub headers_sent: HashSet<u32>,
    /// second half of a split header block, per stream
    pub rest: HashMap<u32, Vec<u8>>,
    pub hdr_list: u32,
    /// set by the caller when the specification knows whether the next HEADERS frame carries trailers
    pub trailers: Option<bool>,
}

pub fn stream_key(conn_key: &str, sid: u32) -> String { format!("{conn_key}-{sid}") }

impl Concretiser {
    pub fn new(conn_key: &str, hdr_list: u32) -> Concretiser {
        Concretiser { conn_key: conn_key.to_string(), headers_sent: HashSet::new(), rest: HashMap::new(), hdr_list, trailers: None }
    }

    fn block_for(&mut self, sid: u32, pay: &str, end_stream: bool) -> Vec<u8> {
        let trailers = self.trailers.unwrap_or_else(|| self.headers_sent.contains(&sid));
        let path = format!("/h/{}", stream_key(&self.conn_key, sid));
        let big = "v".repeat(self.hdr_list as usize + 600);
        let mut extra: Vec<(&str, &str)> = Vec::new();
        match pay {
            "malformed" => extra.push(("X-Bad", "1")), // upper-case field name: malformed (RFC 9113 8.2.1)
            "oversize" => extra.push(("x-big", &big)),
            _ => {}
        }
        let mut b = if trailers {
            let mut h = vec![("x-trailer", "1")];
            h.extend_from_slice(&extra);
            hpack_block(&h)
        } else {
            request_block_plain(if end_stream { "GET" } else { "POST" }, &path, &extra)
        };
        match pay {
            // literal with incremental indexing, new name: becomes dynamic entry 62
            "idx_add" => { b.push(0x40); hpack_int(&mut b, 0, 7, 8); b.extend_from_slice(b"x-c15idx"); hpack_int(&mut b, 0, 7, 1); b.push(b'1'); }
            // indexed field 62: the most recent dynamic entry
            "idx_use" => b.push(0x80 | 62),
            _ => {}
        }
        b
    }

    /// bytes on the wire for the abstract frame `f`
    pub fn encode(&mut self, f: &Value) -> Vec<u8> {
        let ty = f["ty"].as_str().unwrap_or("");
        let fl = f["fl"].as_str().unwrap_or("-");
        let sid = f["sid"].as_u64().unwrap_or(0) as u32;
        let len = f["len"].as_str().unwrap_or("ok");
        let pay = f["pay"].as_str().unwrap_or("-");
        let es = fl == "ES" || fl == "EHES";
        let eh = fl == "EH" || fl == "EHES";
        let mut flags: u8 = 0;
        let (t, payload): (u8, Vec<u8>) = match ty {
            "DATA" => {
                if es { flags |= FLAG_END_STREAM; }
                let p = match (len, pay) {
                    ("zero", _) => vec![],
                    (_, "badpad") => { flags |= FLAG_PADDED; vec![5, b'a'] }
                    _ => b"abc".to_vec(),
                };
                (DATA, p)
            }
            "HEADERS" => {
                if es { flags |= FLAG_END_STREAM; }
                if eh { flags |= FLAG_END_HEADERS; }
                let p = if len == "zero" { vec![] } else {
                    match pay {
                        "badhpack" => vec![0xff, 0xff, 0xff, 0xff, 0xff, 0xff, 0xff, 0xff, 0xff, 0xff, 0x7f],
                        "selfdep" => {
                            flags |= FLAG_PRIORITY;
                            let mut p = sid.to_be_bytes().to_vec();
                            p.push(16);
                            p.extend(self.block_for(sid, "req", es));
                            p
                        }
                        "badpad" => {
                            flags |= FLAG_PADDED;
                            let mut p = vec![250u8];
                            p.extend(self.block_for(sid, "req", es));
                            p
                        }
                        "split" => {
                            let b = self.block_for(sid, "req", es);
                            let cut = b.len() - 3; // inside the last literal value
                            self.rest.insert(sid, b[cut..].to_vec());
                            b[..cut].to_vec()
                        }
                        other => self.block_for(sid, other, es),
                    }
                };
                if len != "huge" { self.headers_sent.insert(sid); }
                (HEADERS, p)
            }
            "CONT" => {
                if eh { flags |= FLAG_END_HEADERS; }
                let p = if pay == "rest" { self.rest.remove(&sid).unwrap_or_default() } else { vec![] };
                (CONTINUATION, p)
            }
            "PRIORITY" => {
                let p = match (len, pay) {
                    ("bad", _) => vec![0, 0, 0, 0],
                    (_, "selfdep") => { let mut p = sid.to_be_bytes().to_vec(); p.push(16); p }
                    _ => vec![0, 0, 0, 0, 16],
                };
                (PRIORITY, p)
            }
            "RST" => (RST_STREAM, if len == "bad" { vec![0, 0, 8] } else { 8u32.to_be_bytes().to_vec() }),
            "SETTINGS" => {
                if fl == "ACK" { flags |= FLAG_ACK; }
                let one = |k: u16, v: u32| { let mut p = k.to_be_bytes().to_vec(); p.extend_from_slice(&v.to_be_bytes()); p };
                let p = match (len, pay) {
                    ("zero", _) => vec![],
                    ("bad", _) => vec![0, 3, 0, 0, 0],
                    (_, "push2") => one(S_ENABLE_PUSH, 2),
                    (_, "win_big") => one(S_INITIAL_WINDOW_SIZE, 0x8000_0000),
                    // legal values of SETTINGS_INITIAL_WINDOW_SIZE (IwsVal of the spec): what they do depends on
                    // the windows of the streams that are open
                    (_, "iws_up") => one(S_INITIAL_WINDOW_SIZE, W_DEF + 1),
                    (_, "iws_def") => one(S_INITIAL_WINDOW_SIZE, W_DEF),
                    (_, "iws_0") => one(S_INITIAL_WINDOW_SIZE, 0),
                    (_, "iws_10") => one(S_INITIAL_WINDOW_SIZE, 10),
                    (_, "iws_max") => one(S_INITIAL_WINDOW_SIZE, W_MAX),
                    (_, "frame_small") => one(S_MAX_FRAME_SIZE, 100),
                    (_, "unknown_id") => one(0xff, 1),
                    _ => one(S_MAX_CONCURRENT_STREAMS, 100),
                };
                (SETTINGS, p)
            }
            "PUSH" => {
                flags |= FLAG_END_HEADERS;
                let mut p = 2u32.to_be_bytes().to_vec();
                p.extend(request_block_plain("GET", "/pushed", &[]));
                (PUSH_PROMISE, p)
            }
            "PING" => {
                if fl == "ACK" { flags |= FLAG_ACK; }
                (PING, if len == "bad" { b"TESTPIN".to_vec() } else { b"TESTPING".to_vec() })
            }
            "GOAWAY" => {
                let p = if len == "bad" { vec![0; 7] } else {
                    let last: u32 = if pay == "lastmax" { 0x7fff_ffff } else { 0 };
                    let mut p = last.to_be_bytes().to_vec();
                    p.extend_from_slice(&0u32.to_be_bytes());
                    p
                };
                (GOAWAY, p)
            }
            "WU" => {
                let p = match (len, pay) {
                    ("bad", _) => vec![0, 0, 1],
                    (_, "inc0") => 0u32.to_be_bytes().to_vec(),
                    (_, "incmax") => 0x7fff_ffffu32.to_be_bytes().to_vec(),
                    // legal on a fresh window: 65535 + near = 2^31-2, 65535 + tomax = 2^31-1 (WuInc of the spec)
                    (_, "near") => (W_MAX - W_DEF - 1).to_be_bytes().to_vec(),
                    (_, "tomax") => (W_MAX - W_DEF).to_be_bytes().to_vec(),
                    _ => 1u32.to_be_bytes().to_vec(),
                };
                (WINDOW_UPDATE, p)
            }
            "PU" => {
                let p = if len == "bad" { vec![0, 0, 1] } else {
                    let ps: u32 = match pay { "ps0" => 0, "ps5" => 5, _ => 1 };
                    let mut p = ps.to_be_bytes().to_vec();
                    p.extend_from_slice(b"u=1");
                    p
                };
                (PRIORITY_UPDATE, p)
            }
            _ => (UNKNOWN_TYPE, if len == "zero" { vec![] } else { vec![1, 2, 3] }),
        };
        let fr = Frame::new(t, flags, sid, payload);
        if len == "huge" {
            // declared length one past SETTINGS_MAX_FRAME_SIZE; the receiver must reject on the header alone
            let mut b = fr.encode_with_len(16_385);
            b.extend_from_slice(&[0u8; 16]);
            b
        } else {
            fr.encode()
        }
    }
}

// ------------------------------------------------------------------------------------------------
// client side: what came back between two markers

pub fn code_name(c: u32) -> &'static str {
    match c {
        0 => "NO", 1 => "PE", 2 => "IE", 3 => "FCE", 4 => "ST", 5 => "SC", 6 => "FSE", 7 => "RS",
        8 => "CANCEL", 9 => "CE", 10 => "CONNECT", 11 => "EYC", 12 => "IS", 13 => "H11", _ => "UNKNOWN",
    }
}

#[derive(Default, Debug, Clone)]
pub struct Window {
    pub goaway: Option<String>,
    pub eof: bool,
    pub timed_out: bool,
    pub marker_acked: bool,
    pub rsts: Vec<(u32, String)>,
    pub settings_acks: u32,
    pub ping_acks: u32,
    /// response HEADERS: (sid, status, end_stream)
    pub responses: Vec<(u32, String, bool)>,
    pub data_end: Vec<u32>,
    pub other: Vec<String>,
    /// DATA frames: (sid, flow-controlled length)
    pub data: Vec<(u32, usize)>,
}

impl Window {
    /// append what a later read on the same connection produced
    pub fn merge(&mut self, o: Window) {
        if self.goaway.is_none() { self.goaway = o.goaway; }
        self.eof |= o.eof;
        self.timed_out = o.timed_out;
        self.marker_acked |= o.marker_acked;
        self.data.extend(o.data);
        self.rsts.extend(o.rsts);
        self.settings_acks += o.settings_acks;
        self.ping_acks += o.ping_acks;
        self.responses.extend(o.responses);
        self.data_end.extend(o.data_end);
        self.other.extend(o.other);
    }
    /// flow-controlled bytes received on stream `sid`
    pub fn bytes_on(&self, sid: u32) -> usize { self.data.iter().filter(|d| d.0 == sid).map(|d| d.1).sum() }
    pub fn to_json(&self) -> Value {
        let mut per: std::collections::BTreeMap<u32, usize> = Default::default();
        for (sid, n) in &self.data { *per.entry(*sid).or_insert(0) += n; }
        json!({"goaway": self.goaway, "eof": self.eof, "timed_out": self.timed_out, "rsts": self.rsts,
               "settings_acks": self.settings_acks, "ping_acks": self.ping_acks, "responses": self.responses, "other": self.other,
               "data_bytes": per, "data_end": self.data_end})
    }
}

pub struct Client {
    pub c: H2Conn<TlsStream>,
    pub marker: u32,
    pub tag: [u8; 4],
    pub started: Instant,
}

impl Client {
    pub fn connect(front: SocketAddr, tag: u32) -> Result<Client, String> {
        let started = Instant::now();
        let c = h2_tls_client(front, "localhost", Duration::from_secs(5))?;
        Ok(Client { c, marker: 0, tag: tag.to_be_bytes(), started })
    }

    fn marker_payload(&self, k: u32) -> [u8; 8] {
        let mut p = [0u8; 8];
        p[..4].copy_from_slice(&self.tag);
        p[4..].copy_from_slice(&k.to_be_bytes());
        p
    }

    /// Send `bytes` then a marker PING; collect everything up to the marker's ACK, EOF or the deadline.
    /// With `use_marker` false only the deadline / EOF / `until` end the window.
    pub fn exchange(&mut self, bytes: &[u8], use_marker: bool, deadline: Duration, until: impl Fn(&Window) -> bool) -> Window {
        let mut out = bytes.to_vec();
        let mk = if use_marker {
            self.marker += 1;
            let p = self.marker_payload(self.marker);
            out.extend_from_slice(&Frame::ping(p, false).encode());
            Some(p)
        } else { None };
        let _ = self.c.send_raw(&out); // a failed write shows up as EOF below
        self.collect(mk, deadline, until)
    }

    pub fn collect(&mut self, mk: Option<[u8; 8]>, deadline: Duration, until: impl Fn(&Window) -> bool) -> Window {
        let mut w = Window::default();
        let end = Instant::now() + deadline;
        loop {
            if until(&w) && mk.is_none() { return w; }
            let now = Instant::now();
            if now >= end { w.timed_out = true; return w; }
            // once a GOAWAY was seen only the release of the connection is awaited
            match self.c.read_frame(end - now) {
                None => {
                    if self.c.eof { w.eof = true; return w; }
                    if Instant::now() >= end { w.timed_out = true; return w; }
                }
                Some(f) => match f.ty {
                    GOAWAY => { if w.goaway.is_none() { w.goaway = Some(code_name(f.u32_at(4).unwrap_or(999)).to_string()); } }
                    RST_STREAM => w.rsts.push((f.sid, code_name(f.u32_at(0).unwrap_or(999)).to_string())),
                    SETTINGS => { if f.flags & FLAG_ACK != 0 { w.settings_acks += 1; } }
                    PING => {
                        if f.flags & FLAG_ACK != 0 {
                            if mk.map(|m| m[..] == f.payload[..]).unwrap_or(false) { w.marker_acked = true; return w; }
                            if f.payload.len() == 8 && f.payload[..4] != self.tag { w.ping_acks += 1; }
                        }
                    }
                    HEADERS => {
                        let status = self.c.hp.decode(&f.payload).ok()
                            .and_then(|h| h.iter().find(|(k, _)| k == b":status").map(|(_, v)| String::from_utf8_lossy(v).to_string()))
                            .unwrap_or_else(|| "?".into());
                        let es = f.end_stream();
                        if es { w.data_end.push(f.sid); }
                        w.responses.push((f.sid, status, es));
                    }
                    DATA => { w.data.push((f.sid, f.payload.len())); if f.end_stream() { w.data_end.push(f.sid); } }
                    WINDOW_UPDATE => {}
                    t => w.other.push(format!("type{t}")),
                },
            }
        }
    }
}

// ------------------------------------------------------------------------------------------------
// stdout: sozu's logger prints to fd 1 even when it was never initialised; the harness keeps the real
// stdout for its ndjson results and points fd 1 at /dev/null.

static OUT: Mutex<Option<std::fs::File>> = Mutex::new(None);

pub fn steal_stdout() {
    use std::os::unix::io::FromRawFd;
    if std::env::var("VH_KEEP_SOZU_LOG").is_ok() { return; }
    unsafe {
        let saved = libc::dup(1);
        let devnull = libc::open(c"/dev/null".as_ptr(), libc::O_WRONLY);
        if saved >= 0 && devnull >= 0 {
            libc::dup2(devnull, 1);
            libc::close(devnull);
            *OUT.lock().unwrap() = Some(std::fs::File::from_raw_fd(saved));
        }
    }
}

pub fn emit_out(v: &Value) {
    let mut g = OUT.lock().unwrap();
    match g.as_mut() {
        Some(f) => { let _ = writeln!(f, "{}", v); }
        None => println!("{}", v),
    }
}

// ------------------------------------------------------------------------------------------------
// resource gauge: the `loop_idle` verification hook of sozu (cfg(sozu_verif)) reports, right before every
// poll, the number of client connections and of checked-out buffers of the worker thread.

#[derive(Clone, Copy, Debug, Default, PartialEq, Eq)]
pub struct Idle {
    pub nb: i64,
    pub pool_used: i64,
    pub slab: i64,
    pub backend_connections: i64,
    pub seq: u64,
}

static IDLE: Mutex<Option<HashMap<String, Idle>>> = Mutex::new(None);

pub fn install_idle_sink() {
    *IDLE.lock().unwrap() = Some(HashMap::new());
    sozu_lib::verif::install(Box::new(|e| {
        if e.kind != "loop_idle" { return; }
        let get = |k: &str| e.nums.iter().find(|(n, _)| *n == k).map(|(_, v)| *v).unwrap_or(-1);
        let mut g = IDLE.lock().unwrap();
        if let Some(m) = g.as_mut() {
            let prev = m.get(&e.thread).map(|i| i.seq).unwrap_or(0);
            m.insert(e.thread.clone(), Idle { nb: get("nb"), pool_used: get("pool_used"), slab: get("slab"), backend_connections: get("backend_connections"), seq: prev + 1 });
        }
    }));
}

pub fn idle_snapshot(thread: &str) -> Option<Idle> {
    IDLE.lock().unwrap().as_ref().and_then(|m| m.get(thread).copied())
}

/// wait until the worker's gauges are back at `base` (same connection and buffer counts)
pub fn wait_baseline(thread: &str, base: &Idle, timeout: Duration) -> Result<(), Idle> {
    let end = Instant::now() + timeout;
    loop {
        let cur = idle_snapshot(thread).unwrap_or_default();
        if cur.nb <= base.nb && cur.pool_used <= base.pool_used && cur.slab <= base.slab { return Ok(()); }
        if Instant::now() >= end { return Err(cur); }
        std::thread::sleep(Duration::from_millis(5));
    }
}
