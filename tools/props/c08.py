"""C08 - workers answer each command exactly once and converge on the main process's view
(spec/WorkerCtl.tla, spec/Trace_WorkerCtl.tla).

1. TLC checks P_C08 (exactly one terminal answer per request, convergence of the proxies on the
   configuration after accepted sequences, base_sessions_count == system + listener slab entries)
   exhaustively on small constants with no deviation, and soft-stop completion as a liveness
   property under fairness of the flush / end-of-loop steps.
2. Every open deviation (known finding) is switched on alone: TLC must produce a counterexample.
3. S->I: generator configurations (one TLC state per (spec state, request) transition, open
   deviations on) print the history reaching the transition with the predicted answer of every
   step, the predicted base_sessions_count, the predicted configuration and what a client must
   observe on every listener. harness/replay_workerctl sends each history back-to-back to a REAL
   worker thread over the real command channel and compares (responses per id, hook events,
   ConfigState verdicts, query answers, connect / HTTP / TCP probes, final soft stop, thread exit).
4. I->S: harness/drive_workerctl drives real workers with seeded random batches interleaved with
   client traffic and records ndjson traces; TLC validates them against Trace_WorkerCtl
   (canary: a corrupted copy of the trace must be rejected).

Two classes added when seeds C08-21 / C08-22 showed holes (design_notes/C08.md, "Hole closed"):
 * malformed requests (enum fields outside their enum in every request kind that carries one, a request
   without request type, a kind of the main process): exactly one terminal answer (status "final": Ok or
   Failure), nothing changes, the worker keeps answering (a Status sentinel behind every history);
 * a cluster is a DEFINITION (AddClusterAlt redefines it: https_redirect, PROXY protocol towards tcp and
   udp backends) published on several listeners of one kind (two udp, two tcp, two http listeners), then
   redefined / removed / its backends changed, with a look through EACH listener (udp: one datagram of
   a new flow per listener, what the mock backends got).
Self-test deviations MalformedUnanswered / ClusterOneListenerOnly must be refuted by TLC on every run.
"""
import json
import os
import threading
import concurrent.futures as cf

import vlib
from props import sozu_compose

PID = "C08"

CFG = """SPECIFICATION %(spec)s
CONSTANTS
  Listeners = %(listeners)s
  Clusters = %(clusters)s
  HFronts = %(hfronts)s
  TFronts = %(tfronts)s
  Backends = %(backends)s
  UFronts = %(ufronts)s
  Verbs <- %(verbs)s
  MaxReq = %(maxreq)d
  AfterStop <- %(afterstop)s
  Deviations = %(dev)s
  Deterministic = %(det)s
  Preamble <- %(preamble)s
  Traffic = %(traffic)s
  Faults = %(faults)s
  Emit = %(emit)s
%(tail)s
CHECK_DEADLOCK FALSE
"""

MC_TAIL = "VIEW MCView\nINVARIANTS TypeOK P_C08_ExactlyOnce P_C08_Converged P_C08_BaseCount P_C08_NoStaleAccept"
LIVE_TAIL = "VIEW MCView\nPROPERTY P_C08_SoftStopCompletes"
GEN_TAIL = "VIEW GenView\nINVARIANTS EmitState"
TRACE_TAIL = "CONSTRAINT Track\nINVARIANTS TypeOK P_C08_ExactlyOnce P_C08_BaseCount\nPOSTCONDITION TraceAccepted"


def tla_set(xs):
    return "{" + ", ".join('"%s"' % x for x in xs) + "}"


def write_cfg(wd, name, **kw):
    d = dict(spec="Spec", listeners=["hA", "tC"], clusters=["c1", "c2"], hfronts=["f1", "f3"],
             tfronts=["t1", "t2"], backends=["b1"], ufronts=[], verbs="VerbsCore", maxreq=4, afterstop="AfterStopKinds",
             dev=[], det=False, preamble="NoPreamble", emit=False, traffic=False, faults=False, tail=MC_TAIL)
    d.update(kw)
    for k in ("listeners", "clusters", "hfronts", "tfronts", "backends", "ufronts", "dev"):
        d[k] = tla_set(d[k])
    d["det"] = "TRUE" if d["det"] else "FALSE"
    d["emit"] = "TRUE" if d["emit"] else "FALSE"
    d["traffic"] = "TRUE" if d["traffic"] else "FALSE"
    d["faults"] = "TRUE" if d["faults"] else "FALSE"
    path = os.path.join(wd, name)
    with open(path, "w") as f:
        f.write(CFG % d)
    return path


def generator_families(thorough):
    """(name, cfg keyword arguments, sample size in quick tier; 0 = all)"""
    fam = []
    # listener life-cycle x stop verbs, from an empty worker
    fam.append(("listeners", dict(listeners=["hA", "tC", "sD", "uE"] if not thorough else ["hA", "hB", "tC", "sD", "uE"],
                                  clusters=[], hfronts=[], tfronts=[], backends=[], verbs="VerbsListeners",
                                  maxreq=5 if thorough else 4), 0))
    # routing: clusters, backends, http / tcp frontends on two serving listeners
    fam.append(("routing", dict(listeners=["hA", "tC"], clusters=["c1", "c2"], hfronts=["f1", "f2", "f3"],
                                tfronts=["t1", "t2"], backends=["b1", "b2", "b3"] if thorough else ["b1", "b2"],
                                verbs="VerbsRouting", preamble="ServingPreamble", maxreq=9 if thorough else 7),
                0))
    # every worker-level verb and cluster verb, in a few states, with stops
    fam.append(("worker", dict(listeners=["hA"], clusters=["c1"], hfronts=[], tfronts=[], backends=[],
                               verbs="VerbsWorker", maxreq=4 if thorough else 3), 0))
    # one listener, one frontend, one backend, deep: removal and re-creation of the listener
    fam.append(("relisten", dict(listeners=["hA"], clusters=[], hfronts=["f1"], tfronts=[], backends=["b1"],
                                 verbs="VerbsRelisten", preamble="HaPreamble", maxreq=7 if not thorough else 8), 0))
    # malformed requests of every kind, in a few states, with well-formed requests around them
    fam.append(("malformed", dict(listeners=["hA", "uE"] if not thorough else ["hA", "tC", "uE"], clusters=["c1"], hfronts=["f1"],
                                  tfronts=[], backends=[], verbs="VerbsMalformed", maxreq=3), 0))
    # one cluster published on two listeners of one kind, then redefined / removed / backends and
    # frontends changed; every listener is looked through (udp: a datagram of a new flow each)
    deep = 10 if thorough else 9
    fam.append(("shared-udp", dict(listeners=["uE", "uF"], clusters=["c1"], hfronts=[], tfronts=[], ufronts=["u1", "u2"],
                                   backends=["b1", "b3"] if thorough else ["b1"], verbs="VerbsSharedUdp",
                                   preamble="TwoUdpPreamble", maxreq=deep), 0))
    fam.append(("shared-tcp", dict(listeners=["tC", "tG"], clusters=["c1"], hfronts=[], tfronts=["t1", "t3"],
                                   backends=["b1", "b3"] if thorough else ["b1"], verbs="VerbsSharedTcp",
                                   preamble="TwoTcpPreamble", maxreq=deep), 0))
    fam.append(("shared-http", dict(listeners=["hA", "hB"], clusters=["c1"], hfronts=["f1", "f4"], tfronts=[],
                                    backends=["b1"], verbs="VerbsSharedHttp", preamble="TwoHttpPreamble", maxreq=deep), 0))
    return fam


# self-test deviations: each models a class of defect a seeded change showed the check was blind to;
# TLC must produce a counterexample with the switch on (they are not known findings: the code has no such defect)
SELF_TESTS = [
    ("MalformedUnanswered", "P_C08_ExactlyOnce",
     dict(listeners=["hA"], clusters=["c1"], hfronts=["f1"], tfronts=[], backends=[], verbs="VerbsMalformed", maxreq=3)),
    ("ClusterOneListenerOnly", None,
     dict(listeners=["uE", "uF", "tC"], preamble="SharedPreamble", clusters=["c1"], ufronts=["u1", "u2"], tfronts=["t1"],
          hfronts=[], backends=["b1"], verbs="VerbsShared", maxreq=10)),
]

MALFORMED_KINDS = {"RemoveListenerBadType", "ActivateBadType", "DeactivateBadType", "NoType", "ForeignKind", "ConfigureMetricsBad",
                   "MetricDetailBadEnum", "AddHFrontBadPos", "AddHFrontBadKind", "AddClusterBadEnums"}

TRACE_KW = dict(spec="TraceSpec", listeners=["hA", "hB", "tC", "sD", "uE", "uF", "tG"], hfronts=["f1", "f2", "f3", "f4"],
                tfronts=["t1", "t2", "t3"], ufronts=["u1", "u2", "u3"], backends=["b1", "b2", "b3"], verbs="VerbsAll",
                afterstop="VerbsAll", maxreq=128)


def run(tier, replay=None):
    rep = vlib.Report(PID, tier)
    wd = vlib.workdir(PID)
    # the composed leg (spec/Sozu.tla: main process + real workers): convergence of every worker on the main process's view.
    # It shares nothing with the legs below (own work directory, own binaries): it runs beside them, its results are
    # merged before the report is finished.
    compose_err = []

    def compose():
        try:
            sozu_compose.run_leg(rep, tier, PID, replay)
        except BaseException as e:      # re-raised by join_compose in the main thread
            compose_err.append(e)

    if replay:
        sozu_compose.run_leg(rep, tier, PID, replay)
        compose_thread = None
    else:
        compose_thread = threading.Thread(target=compose, name="compose")
        compose_thread.start()

    def join_compose():
        if compose_thread is not None:
            compose_thread.join()
            if compose_err:
                raise compose_err[0]

    try:
        run_own(rep, wd, tier, replay)
    except BaseException:
        if compose_thread is not None:
            compose_thread.join()
        raise
    join_compose()
    rep.finish()


def run_own(rep, wd, tier, replay):
    bins = vlib.cargo_build(["replay_workerctl", "drive_workerctl"])
    open_findings = [e for e in vlib.load_findings(PID) if e.get("status") == "open" and e.get("deviation")]
    devs = sorted(e["deviation"] for e in open_findings)
    thorough = tier == "thorough"
    workers = 16 if thorough else 8
    seed = vlib.seed()

    if replay:
        # re-run one saved behaviour (a generator line) or one saved trace verbosely
        with open(replay) as f:
            first = f.readline()
        if '"hist"' in first:
            out = vlib.run_harness(bins["replay_workerctl"], ["--threads", "1", "--verbose"], stdin_path=replay)
            for v in out:
                if v.get("kind") == "violation":
                    rep.violation(v["class"], json.dumps(v["detail"])[:250], v)
            rep.cov["traces_validated_against_impl"] = 1
        else:
            tcfg = write_cfg(wd, "trace.cfg", dev=devs, tail=TRACE_TAIL, **TRACE_KW)
            r = vlib.tlc_trace("Trace_WorkerCtl", tcfg, PID, replay)
            if not r["accepted"]:
                rep.violation("trace-rejected", "trace not a behaviour of WorkerCtl: consumed %s of %s" % (
                    r["consumed"], r["total"]), r["out"][-3000:])
            rep.cov["traces_validated_against_impl"] = 1
        rep.cov["rule"] = "single replay"
        rep.finish()

    # ---- 1. design level
    mc_kw = dict(maxreq=5 if thorough else 4, traffic=True,
                 listeners=["hA", "hB", "tC"] if thorough else ["hA", "tC"],
                 backends=["b1", "b2"] if thorough else ["b1"])
    r = vlib.tlc("MC_WorkerCtl", write_cfg(wd, "mc.cfg", **mc_kw), PID, workers=workers,
                 timeout=2400 if thorough else 600)
    rep.add_tlc(r)
    if r["violated"]:
        rep.violation("spec:" + r["violated"], "the specification itself violates %s" % r["violated"], r["out"])
    live = vlib.tlc("MC_WorkerCtl", write_cfg(wd, "live.cfg", spec="FairSpec", tail=LIVE_TAIL,
                                               maxreq=4 if thorough else 3, verbs="VerbsListeners",
                                               clusters=[], hfronts=[], tfronts=[], backends=[]),
                    PID, workers=workers, timeout=2400 if thorough else 600)
    rep.add_tlc(live)
    if live["violated"]:
        rep.violation("spec:liveness", "a soft stop does not complete in the specification", live["out"])

    # the two classes added for seeds C08-21 / C08-22, exhaustively: malformed requests; one cluster on several
    # listeners of a kind (udp x2 + tcp), redefinition / removal / listener removal and re-creation
    shared_tail = MC_TAIL + "\nPROPERTY P_C08_RemovedUnrouted"
    for name, kw in (("mc_malformed.cfg", dict(listeners=["hA", "tC"], clusters=["c1"], hfronts=["f1"], tfronts=[], backends=[],
                                               verbs="VerbsMalformed", maxreq=4 if thorough else 3)),
                     ("mc_shared.cfg", dict(listeners=["uE", "uF", "tC"], preamble="SharedPreamble", clusters=["c1"],
                                            ufronts=["u1", "u2"], tfronts=["t1"], hfronts=[], backends=["b1"],
                                            verbs="VerbsShared", maxreq=12 if thorough else 10))):
        r = vlib.tlc("MC_WorkerCtl", write_cfg(wd, name, tail=shared_tail, **kw), PID, workers=workers,
                     timeout=2400 if thorough else 600)
        rep.add_tlc(r)
        if r["violated"]:
            rep.violation("spec:" + r["violated"], "the specification itself violates %s (%s)" % (r["violated"], name), r["out"])
    for dev, expected, kw in SELF_TESTS:
        rd = vlib.tlc("MC_WorkerCtl", write_cfg(wd, "selftest_%s.cfg" % dev, dev=[dev], tail=shared_tail, **kw), PID,
                      workers=workers, timeout=600)
        rep.add_tlc(rd)
        if not rd["violated"] or (expected and rd["violated"] != expected):
            raise vlib.ToolError("self-test: deviation %s is not refuted by TLC (got %s)" % (dev, rd["violated"]))
        vlib.log("self-test %s: TLC counterexample to %s as expected" % (dev, rd["violated"]))

    # ---- 2. each open deviation still breaks the property in the model
    for e in open_findings:
        rd = vlib.tlc("MC_WorkerCtl", write_cfg(wd, "mc_dev.cfg", dev=[e["deviation"]], maxreq=4), PID,
                      workers=workers, timeout=600)
        rep.add_tlc(rd)
        if not rd["violated"]:
            raise vlib.ToolError("deviation %s no longer violates P_C08 in the model" % e["deviation"])
        vlib.log("deviation %s: TLC counterexample to %s as expected" % (e["deviation"], rd["violated"]))
        rep.known_finding_seen(e["id"])

    # ---- 3. S->I
    total_runs = 0
    total_lines = 0
    exhaustive = True
    families = generator_families(thorough)

    def generate(name, kw):
        beh = os.path.join(wd, "gen_%s.ndjson" % name)
        with open(beh, "w") as f:
            g = vlib.tlc("MC_WorkerCtl", write_cfg(wd, "gen_%s.cfg" % name, spec="GenSpec", det=True, emit=True,
                                                   dev=devs, tail=GEN_TAIL, **kw),
                         PID, workers=workers, timeout=2400, want_replay=True,
                         replay_sink=lambda o: f.write(json.dumps(o) + "\n"))
        return g, beh

    # TLC generates the next family while the current one is replayed
    pool = cf.ThreadPoolExecutor(max_workers=1)
    nxt = pool.submit(generate, families[0][0], families[0][1])
    for idx, (name, kw, sample) in enumerate(families):
        g, beh = nxt.result()
        if idx + 1 < len(families):
            nxt = pool.submit(generate, families[idx + 1][0], families[idx + 1][1])
        rep.add_tlc(g)
        if g["violated"]:
            raise vlib.ToolError("generator %s reported a violation: %s" % (name, g["violated"]))
        if g["n_replays"] == 0:
            raise vlib.ToolError("generator %s produced no behaviour" % name)
        args = ["--threads", "16", "--seed", str(seed), "--index-base", str(idx * 120000)]
        if sample:
            args += ["--sample", str(sample)]
            exhaustive = False
        out = vlib.run_harness(bins["replay_workerctl"], args, stdin_path=beh, timeout=2400)
        summ = [o for o in out if o.get("kind") == "summary"]
        if not summ:
            raise vlib.ToolError("replay_workerctl produced no summary (%s)" % name)
        summ = summ[0]
        if not summ.get("hooked") or (summ["requests"] and not summ["hook_events"]):
            raise vlib.ToolError("the worker_cmd hook produced no event (harness not built with --cfg sozu_verif?)")
        vlib.log("replay %s: %d transitions, %d runs, %d requests, %d probes, %d violations, %.1fs" % (
            name, summ["lines"], summ["runs"], summ["requests"], summ["probes"], summ["violations"], summ["wall_s"]))
        if summ.get("aborted"):
            exhaustive = False
        total_runs += summ["runs"]
        total_lines += summ["lines"]
        rep.cov["evaluations"] += summ["responses"] + summ["probes"] + summ["hook_events"]
        rep.add_samples(["[%s] %s" % (name, s) for s in summ["samples"][-2:]], 2)
        seen_classes = set()
        for v in out:
            if v.get("kind") == "violation" and v["class"] not in seen_classes:
                # one replay file (a single generator line) per family and class
                seen_classes.add(v["class"])
                n_class = summ["classes"].get(v["class"], 1)
                rep.violation(v["class"], "[%s, %d occurrence(s)] %s" % (name, n_class, json.dumps(v["detail"])[:210]),
                              json.dumps(v["line"]) + "\n",
                              name="violation_%s_%s.ndjson" % (name, v["class"].replace(":", "_").replace("/", "_")))

    # ---- 4. I->S
    n_runs = 4000 if thorough else 500
    chunk = 250
    accepted_runs = 0
    trace_events = 0
    tcfg = write_cfg(wd, "trace.cfg", dev=devs, tail=TRACE_TAIL, **TRACE_KW)
    unstable_runs = 0

    def drive(c):
        trace = os.path.join(wd, "trace_%d.ndjson" % c)
        out = vlib.run_harness(bins["drive_workerctl"],
                               ["--seed", str(seed * 7919 + c), "--runs", str(min(chunk, n_runs - c)), "--threads", "12",
                                "--out", trace, "--index-base", str(600000 + c)], timeout=1200)
        summ = [o for o in out if o.get("kind") == "summary"]
        if not summ:
            raise vlib.ToolError("drive_workerctl produced no summary")
        return trace, summ[0]

    # the next chunk is driven while TLC (one worker) validates the current one
    nxt = pool.submit(drive, 0)
    for c in range(0, n_runs, chunk):
        trace, summ = nxt.result()
        if c + chunk < n_runs:
            nxt = pool.submit(drive, c + chunk)
        trace_events += summ["events"]
        # Every wait of the driver is a deadline: a run rejected because the machine stalled a worker thread conforms
        # when it is driven again alone (same seed, same script) with four times the patience. Such a run is cut out
        # of the recording (unstable, never a verdict) and the rest of the chunk is validated again.
        cur, stripped = trace, 0
        while True:
            r = vlib.tlc_trace("Trace_WorkerCtl", tcfg, PID, cur, timeout=2400)
            rep.add_tlc(r)
            if r["accepted"]:
                accepted_runs += summ["runs"] - stripped
                if c == 0 and stripped == 0:
                    # canary: the binding must reject a corrupted recording
                    if not canary_rejected(wd, tcfg, trace):
                        raise vlib.ToolError("trace validation accepted a corrupted trace (binding is vacuous)")
                break
            bad = offending_run(cur, summ, r["consumed"])
            klass = classify_rejection(bad)
            if bad.get("run") and stripped < 3:
                again = os.path.join(wd, "trace_%d_again%d.ndjson" % (c, stripped))
                vlib.run_harness(bins["drive_workerctl"],
                                 ["--seed", str(seed * 7919 + c), "--runs", str(min(chunk, n_runs - c)), "--threads", "1",
                                  "--out", again, "--index-base", str(600000 + c), "--only", str(bad["run"]),
                                  "--wait-ms", "16000"], timeout=1200)
                r2 = vlib.tlc_trace("Trace_WorkerCtl", tcfg, PID, again, timeout=1200)
                if r2["accepted"]:
                    unstable_runs += 1
                    stripped += 1
                    vlib.log("trace run %s of chunk %d rejected (%s) but accepted when driven again alone: unstable, "
                             "cut out, not a violation" % (bad["run"], c, klass))
                    nxt = os.path.join(wd, "trace_%d_cut%d.ndjson" % (c, stripped))
                    with open(cur) as f, open(nxt, "w") as g:
                        for line in f:
                            if json.loads(line).get("run") != bad["run"]:
                                g.write(line)
                    cur = nxt
                    continue
            rep.violation(klass, "recorded behaviour of a real worker is not a behaviour of WorkerCtl "
                                 "(consumed %s of %s events; first unexplained: %s)" % (
                                     r["consumed"], r["total"], json.dumps(bad["event"])[:160]),
                          "".join(json.dumps(e) + "\n" for e in bad["events"]),
                          name="trace_%s_%d.ndjson" % (klass.replace(":", "_"), c))
            break
        rep.cov["evaluations"] += summ["events"]
    pool.shutdown(wait=True)
    vlib.log("trace validation: %d runs accepted of %d, %d events" % (accepted_runs, n_runs, trace_events))

    rep.cov["traces_validated_against_impl"] = total_runs + accepted_runs
    rep.cov["distinct_nontrivial"] = total_lines
    rep.cov["exhaustive"] = exhaustive
    rep.extra["replayed_transitions"] = total_lines
    rep.extra["trace_runs_accepted"] = accepted_runs
    rep.extra["trace_events"] = trace_events
    rep.extra["trace_runs_unstable"] = unstable_runs
    if unstable_runs > 3:
        raise vlib.ToolError("%d trace chunks were rejected and accepted when re-driven: machine too loaded for a verdict" % unstable_runs)
    rep.cov["rule"] = (
        "S->I: every (reachable spec state, request) transition of four generator configurations of WorkerCtl.tla "
        "(listener life-cycle x stops over http/tcp/https/udp listeners; clusters/backends/http+tcp frontends on "
        "serving listeners; every worker-level verb; listener removal and re-creation), each replayed as the whole "
        "history on a fresh real worker: per step the terminal-response count and status, the worker_cmd hook event "
        "(responses pushed, base_sessions_count, slab length), the ConfigState verdict; then query answers vs the "
        "main-process ConfigState vs the spec, client probes on every listener, final SoftStop and thread exit. "
        "distinct_nontrivial = distinct transitions replayed. I->S: seeded random batches with client traffic, "
        "ndjson traces accepted by TLC against Trace_WorkerCtl (canary rejected). Added generator configurations: "
        "malformed requests (ListenerType / MetricsConfiguration / MetricDetail / RulePosition / PathRuleKind / cluster "
        "enums outside their enum, no request type, a main-process kind) in every state of a small universe - one "
        "terminal answer each, a Status sentinel behind every history; one cluster published on two udp / two tcp / two "
        "http listeners, then redefined (AddClusterAlt), removed, backends and frontends changed - one datagram of a new "
        "flow through EACH udp listener (delivered to which backend, behind a PROXY header or not, or dropped), PROXY "
        "header seen by tcp backends, 301 on http listeners. The random driver has the same request kinds and a "
        "scripted-random 'shared' scenario (28 % of the runs).")
    rep.assumptions += [
        "malformed requests: one value outside each enum (4 / -1 / i32::MAX for ListenerType, 99 elsewhere), one main-process kind (ListWorkers), the request without type; unknown protobuf fields never reach sozu (prost drops them while decoding); ports above 65535 are not sent (a debug assertion of the protocol crate)",
        "small universe: <=7 listeners (2 http, 2 tcp, https, 2 udp) on private loopback addresses, 2 clusters each in two definitions (plain / alternative), 4 http frontends (two with the same route key), 3 tcp and 3 udp frontends (one cluster on two listeners, two clusters on one listener), 3 backends; one concrete value per model value",
        "udp datagram probes: a delivery the specification predicts is waited for (8 s); 'dropped' is concluded 150-200 ms after a Status round trip on the command channel that follows the datagram (a late look can only hide a wrong delivery, never raise an alarm); existing flows keep their captured configuration by design and are not probed",
        "convergence (b) is demanded after sequences in which every request was accepted by ConfigState and answered Ok by the worker; a worker Failure on an accepted request is C07/C09 territory",
        "client sessions are not modelled in the exhaustive model (soft stop under traffic is C10); in traces the slab may exceed base_sessions_count by the session entries of the connections the harness holds",
        "requests written behind a SoftStop may stay unanswered if the worker exits before reading them (they were not received)",
    ]


def canary_rejected(wd, tcfg, trace):
    """Corrupt one response status in a copy of the trace; TLC must reject it."""
    with open(trace) as f:
        lines = f.readlines()
    # (not the answer of a malformed request: Ok and Failure are both admissible there)
    kinds = {}
    for l in lines:
        if '"ev":"send"' in l:
            e = json.loads(l)
            kinds[(e["run"], e["id"])] = e["k"]
    def strict(l):
        e = json.loads(l)
        k = kinds.get((e["run"], e["id"]), "")
        return k != "" and k not in MALFORMED_KINDS
    idx = [i for i, l in enumerate(lines) if '"ev":"resp"' in l and '"st":"ok"' in l and strict(l)]
    if not idx:
        return True
    i = idx[len(idx) // 2]
    lines[i] = lines[i].replace('"st":"ok"', '"st":"failure"')
    bad = os.path.join(wd, "canary.ndjson")
    with open(bad, "w") as f:
        f.writelines(lines)
    r = vlib.tlc_trace("Trace_WorkerCtl", tcfg, PID, bad, timeout=1200)
    ok = (not r["accepted"]) and r["consumed"] is not None and r["consumed"] <= i
    vlib.log("canary: corrupted event %d, TLC consumed %s -> %s" % (i + 1, r["consumed"], "rejected" if ok else "NOT rejected"))
    return ok


def offending_run(trace, summ, consumed):
    with open(trace) as f:
        events = [json.loads(l) for l in f if l.strip()]
    consumed = consumed or 0
    ev = events[consumed] if consumed < len(events) else {"ev": "end-of-trace"}
    run = ev.get("run")
    if ev.get("ev") == "reset" and consumed > 0:
        # the previous run ended with predicted responses never observed
        run = events[consumed - 1].get("run")
    evs = [e for e in events if e.get("run") == run]
    evs.append({"ev": "reset", "run": 0})
    return {"event": ev, "events": evs, "run": run}


def classify_rejection(bad):
    ev = bad["event"]
    kind = ev.get("ev")
    if kind == "exit":
        return "trace:exit:%s" % ev.get("how")
    if kind == "cmd":
        return "trace:cmd:%s" % ev.get("k")
    if kind == "resp":
        return "trace:resp:%s" % ev.get("st")
    if kind == "probe":
        return "trace:probe:%s" % ev.get("out")
    if kind == "reset":
        return "trace:missing-response"
    return "trace:%s" % kind
