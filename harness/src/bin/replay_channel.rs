//! S->I replayer for spec/Channel.tla (property C11).
//!
//! stdin: ndjson, one behaviour of the specification per line, as printed by TLC (`EmitHist`):
//!   {"d":8,"init":16,"max":64,"steps":[{"op":..,<args>,"res":..,"st":{"tx":[data,space,cap,I,R],
//!     "rx":[data,space,cap,I,R],"wire":n,"sock":n}}, ...]}
//! Every behaviour is executed on two REAL `Channel` ends (sender, receiver) created with
//! `Channel::new(sock, init, max)`; the harness is the wire between two socket pairs (it forwards
//! exactly k bytes for WireMove(k), injects the peer's own frames) and controls how many bytes each
//! `write()` of the sender is allowed to put on its socket (send() shim, see c11_common.rs).
//! After EVERY step the result of the call and the public projection of both ends are compared with
//! what the specification predicts; decoded messages must be the expected ones, byte for byte.
//!
//! stdout: {"kind":"violation",...} lines and one {"kind":"summary",...} line.

#[path = "../c11_common.rs"]
mod common;

use std::collections::{HashMap, HashSet};
use std::io::{BufRead, BufReader};
use std::panic::{AssertUnwindSafe, catch_unwind};
use std::sync::atomic::{AtomicBool, AtomicI32, AtomicU64, AtomicUsize, Ordering};
use std::sync::{Arc, Mutex};
use std::time::{Duration, Instant};

use common::*;
use serde_json::{Value, json};
use sozu_command_lib::ready::Ready;

struct Outcome {
    steps: u64,
    violation: Option<Value>,
}

/// What a worker thread is doing, for the watchdog (a hang of the code under test is a verdict about the
/// step being executed; a hang of the harness itself is a tool error; neither may strand the process).
#[derive(Default)]
struct Slot {
    tid: AtomicI32,
    busy: AtomicBool,
    /// bumped before every step / table row
    progress: AtomicU64,
    /// the thread is inside a call into sozu
    in_sozu: AtomicBool,
    /// behaviours: index of the step; tables: index of the row inside `table`
    step: AtomicUsize,
    /// 0 behaviour, 1 write, 2 writable, 3 readable, 4 readmsg
    table: AtomicUsize,
    item: Mutex<Option<(usize, Arc<Value>)>>,
}

const TABLES: [&str; 5] = ["", "write", "writable", "readable", "readmsg"];

impl Slot {
    fn at(&self, table: usize, step: usize) {
        self.table.store(table, Ordering::SeqCst);
        self.step.store(step, Ordering::SeqCst);
        self.in_sozu.store(false, Ordering::SeqCst);
        self.progress.fetch_add(1, Ordering::SeqCst);
    }
    /// run a call into the code under test, marked for the watchdog
    fn sozu<T>(&self, f: impl FnOnce() -> T) -> T {
        self.in_sozu.store(true, Ordering::SeqCst);
        let r = f();
        self.in_sozu.store(false, Ordering::SeqCst);
        r
    }
}

/// The projection of the rig; a panic while reading the state of the code under test (position/end beyond
/// the capacity: `available_space()` underflows, `data()` slices out of range) is data about the last step.
fn project_guarded(rig: &Rig) -> Result<Value, String> {
    catch_unwind(AssertUnwindSafe(|| {
        let v = rig.project();
        // the slices the next call of the owner would take
        let _ = rig.rx.front_buf.data().len();
        let _ = rig.tx.back_buf.data().len();
        v
    }))
    .map_err(vh::util::panic_message)
}

fn u(v: &Value) -> usize {
    v.as_u64().unwrap_or(0) as usize
}

fn run_behaviour(b: &Value, classes: &mut HashSet<String>, transitions: &mut HashSet<u64>, slot: &Slot) -> Outcome {
    let d = u(&b["d"]);
    let init = b["init"].as_u64().unwrap_or(0);
    let max = b["max"].as_u64().unwrap_or(0);
    let steps = b["steps"].as_array().cloned().unwrap_or_default();
    let mut out = Outcome { steps: 0, violation: None };
    if d != D {
        out.violation = Some(json!({"class": "setup", "detail": format!("spec D={d} but size_of::<usize>()={D}")}));
        return out;
    }
    let mut rig = match Rig::new(init, max) {
        Ok(r) => r,
        Err(e) => {
            out.violation = Some(json!({"class": "setup", "detail": e.to_string()}));
            return out;
        }
    };
    // frames accepted into the stream, by id
    let mut sent: HashMap<u64, (usize, String)> = HashMap::new();
    let mut prev = rig.project();
    for (i, st) in steps.iter().enumerate() {
        slot.at(0, i);
        let op = st["op"].as_str().unwrap_or("");
        let want_res = st["res"].as_str().unwrap_or("").to_string();
        let mut got_res = String::new();
        let mut extra: Vec<String> = Vec::new();
        let r = catch_unwind(AssertUnwindSafe(|| -> Result<(), String> {
            match op {
                "Write" => {
                    let id = st["id"].as_u64().unwrap_or(0);
                    let len = u(&st["len"]);
                    let msg = make_msg(id, len - D).ok_or_else(|| format!("no message with a {len}-byte frame"))?;
                    match slot.sozu(|| rig.tx.write_message(&msg)) {
                        Ok(()) => {
                            got_res = "ok".into();
                            rig.tx_expect.extend(len.to_le_bytes());
                            rig.tx_expect.extend(encode_msg(&msg));
                            sent.insert(id, (len, "good".into()));
                        }
                        Err(e) => got_res = error_name(&e),
                    }
                }
                "TxEvents" => slot.sozu(|| rig.tx.handle_events(Ready::WRITABLE)),
                "Writable" => {
                    let chunks: Vec<usize> = st["chunks"].as_array().map(|a| a.iter().map(u).collect()).unwrap_or_default();
                    let data0 = rig.tx.back_buf.available_data();
                    shim_arm(rig.tx_fd, Some(chunks.clone()));
                    let r = slot.sozu(|| rig.tx.writable());
                    let calls = shim_disarm();
                    match r {
                        Ok(n) => {
                            got_res = "ok".into();
                            if n != u(&st["n"]) {
                                extra.push(format!("writable() returned Ok({n}), spec says {}", st["n"]));
                            }
                            // the sequence of write() calls the code made on its socket
                            let mut left = data0;
                            let mut want_calls: Vec<(usize, isize)> = Vec::new();
                            for &c in &chunks {
                                want_calls.push((left, c as isize));
                                left -= c;
                            }
                            if left > 0 {
                                want_calls.push((left, -1));
                            }
                            if calls != want_calls {
                                extra.push(format!("write() calls on the socket {calls:?}, spec says {want_calls:?}"));
                            }
                        }
                        Err(e) => got_res = error_name(&e),
                    }
                    rig.drain_sender().map_err(|e| format!("stream: {e}"))?;
                }
                "WireMove" => {
                    let k = u(&st["k"]);
                    let moved = rig.wire_move(k)?;
                    if moved != k {
                        return Err(format!("harness could only forward {moved} of {k} bytes"));
                    }
                }
                "Inject" => {
                    let id = st["id"].as_u64().unwrap_or(0);
                    let kind = st["kind"].as_str().unwrap_or("");
                    let bytes = frame_bytes(id, u(&st["len"]), u(&st["decl"]), kind)?;
                    rig.wire.extend(bytes);
                    sent.insert(id, (u(&st["len"]), kind.to_string()));
                }
                "RxEvents" => slot.sozu(|| rig.rx.handle_events(Ready::READABLE)),
                "Readable" => match slot.sozu(|| rig.rx.readable()) {
                    Ok(n) => {
                        got_res = "ok".into();
                        rig.sock -= n.min(rig.sock);
                        if n != u(&st["n"]) {
                            extra.push(format!("readable() returned Ok({n}), spec says {}", st["n"]));
                        }
                    }
                    Err(e) => got_res = error_name(&e),
                },
                "ReadMessage" => match slot.sozu(|| rig.rx.read_message()) {
                    Ok(m) => {
                        got_res = "ok".into();
                        let id = st["id"].as_u64().unwrap_or(0);
                        let len = u(&st["len"]);
                        if want_res == "ok" {
                            let want = make_msg(id, len - D);
                            if want.as_ref() != Some(&m) {
                                extra.push(format!(
                                    "content: delivered message is not frame #{id} ({len} bytes) intact: got domain {:?} fingerprint {:?}",
                                    m.domain.as_ref().map(|s| s.chars().take(24).collect::<String>()),
                                    m.fingerprint
                                ));
                            }
                        }
                    }
                    Err(e) => got_res = error_name(&e),
                },
                other => return Err(format!("unknown op {other}")),
            }
            Ok(())
        }));
        slot.in_sozu.store(false, Ordering::SeqCst);
        out.steps += 1;
        let mut problems: Vec<(String, String)> = Vec::new();
        match r {
            Err(p) => {
                shim_disarm();
                problems.push((format!("panic:{op}"), format!("{op} panicked: {}", vh::util::panic_message(p))));
            }
            Ok(Err(e)) => {
                let class = if e.starts_with("stream:") { "stream" } else { "harness" };
                problems.push((class.into(), e));
            }
            Ok(Ok(())) => {
                if got_res != want_res {
                    problems.push(("result".into(), format!("{op} returned {got_res:?}, spec says {want_res:?}")));
                }
                for e in extra {
                    let class = if e.starts_with("content:") { "content" } else { "result" };
                    problems.push((class.into(), e));
                }
            }
        }
        let now = if problems.iter().any(|(c, _)| c.starts_with("panic")) {
            Value::Null
        } else {
            match project_guarded(&rig) {
                Ok(v) => v,
                Err(m) => {
                    // the call returned, but it left a state that cannot even be read
                    problems.insert(0, (format!("panic:{op}"), format!("after {op} the buffers cannot be read any more (spec says {}): {m}", st["st"])));
                    Value::Null
                }
            }
        };
        if !now.is_null() && now != st["st"] {
            problems.push(("projection".into(), format!("after {op}: real {now} spec {}", st["st"])));
        }
        classes.insert(format!("{op}/{want_res}"));
        {
            use std::hash::{Hash, Hasher};
            let mut h = std::collections::hash_map::DefaultHasher::new();
            prev.to_string().hash(&mut h);
            op.hash(&mut h);
            st.get("len").map(|v| v.to_string()).hash(&mut h);
            st.get("chunks").map(|v| v.to_string()).hash(&mut h);
            st.get("k").map(|v| v.to_string()).hash(&mut h);
            st.get("kind").map(|v| v.to_string()).hash(&mut h);
            st["st"].to_string().hash(&mut h);
            want_res.hash(&mut h);
            transitions.insert(h.finish());
        }
        if !problems.is_empty() {
            let (class, _) = problems[0].clone();
            out.violation = Some(json!({
                "class": class,
                "step": i + 1,
                "op": st,
                "before": prev,
                "problems": problems.iter().map(|(c, m)| format!("[{c}] {m}")).collect::<Vec<_>>(),
            }));
            return out;
        }
        prev = now;
    }
    out
}

// ---------------------------------------------------------------------------------------------------
// Transition tables (EmitTables): one line per buffer state, every row executed on a real Channel put
// in that state through its public fields.

use sozu_command_lib::buffer::growable::Buffer;

/// A real Buffer in state (pos, end, cap) whose data() is `content` (len = end - pos).
fn make_buffer(pos: usize, end: usize, cap: usize, content: &[u8]) -> Result<Buffer, String> {
    let mut b = Buffer::with_capacity(cap);
    let mut mem = vec![0xEEu8; pos];
    mem.extend_from_slice(content);
    b.space()[..end].copy_from_slice(&mem);
    b.fill(end);
    b.consume(pos);
    if b.available_data() != end - pos || b.available_space() != cap - end || b.capacity() != cap {
        return Err(format!("cannot build buffer ({pos},{end},{cap}) through the public API"));
    }
    Ok(b)
}

fn pattern(n: usize, salt: u8) -> Vec<u8> {
    (0..n).map(|i| ((i * 7 + 3) as u8) ^ salt).collect()
}

fn drain_fd(fd: i32) -> Vec<u8> {
    let mut out = Vec::new();
    let mut buf = [0u8; 4096];
    loop {
        let n = unsafe { libc::recv(fd, buf.as_mut_ptr() as *mut libc::c_void, buf.len(), libc::MSG_DONTWAIT) };
        if n <= 0 {
            break;
        }
        out.extend_from_slice(&buf[..n as usize]);
    }
    out
}

fn run_table(t: &Value, transitions: &mut u64, slot: &Slot) -> Option<Value> {
    let init = t["init"].as_u64().unwrap_or(0);
    let max = t["max"].as_u64().unwrap_or(0);
    let (pos, end, cap) = (u(&t["buf"][0]), u(&t["buf"][1]), u(&t["buf"][2]));
    let data = end - pos;
    let fail = |table: &str, row: &Value, class: &str, msg: String| {
        Some(json!({"class": class, "table": table, "buf": t["buf"], "init": init, "max": max, "row": row,
                    "problems": [format!("[{class}] buffer (pos {pos}, end {end}, cap {cap}) {table} row {row}: {msg}")]}))
    };
    let mut rig = match Rig::new(init, max) {
        Ok(r) => r,
        Err(e) => return Some(json!({"class": "setup", "problems": [e.to_string()]})),
    };
    let proj = |b: &Buffer| (b.available_data(), b.available_space(), b.capacity());
    // ---- write_message
    for (ri, row) in t["write"].as_array().into_iter().flatten().enumerate() {
        slot.at(1, ri);
        *transitions += 1;
        let len = u(&row[0]);
        let content = pattern(data, 0x11);
        let r = catch_unwind(AssertUnwindSafe(|| -> Result<(), (String, String)> {
            rig.tx.back_buf = make_buffer(pos, end, cap, &content).map_err(|e| ("harness".to_string(), e))?;
            rig.tx.interest = Ready::READABLE;
            rig.tx.readiness = Ready::EMPTY;
            let msg = make_msg(5, len - D).ok_or(("harness".to_string(), format!("no message of {len} bytes")))?;
            let ok = slot.sozu(|| rig.tx.write_message(&msg)).is_ok();
            let got = (ok as usize, proj(&rig.tx.back_buf));
            let want = (u(&row[1]), (u(&row[2]), u(&row[3]), u(&row[4])));
            if got != want {
                return Err(("result".into(), format!("write_message({len}) gave (ok, data, space, cap) = {got:?}, spec says {want:?}")));
            }
            if rig.tx.interest.is_writable() != ok {
                return Err(("result".into(), format!("write_message({len}) ok={ok} but WRITABLE interest is {}", rig.tx.interest.is_writable())));
            }
            let mut expect = content.clone();
            if ok {
                expect.extend_from_slice(&len.to_le_bytes());
                expect.extend_from_slice(&encode_msg(&msg));
            }
            if rig.tx.back_buf.data() != &expect[..] {
                return Err(("content".into(), format!("back buffer does not hold the pending bytes followed by the new frame after write_message({len})")));
            }
            Ok(())
        }));
        match r {
            Err(p) => return fail("write", row, "panic:write", vh::util::panic_message(p)),
            Ok(Err((c, m))) => return fail("write", row, &c, m),
            Ok(Ok(())) => {}
        }
    }
    // ---- writable() with one partial write of k bytes
    for (ri, row) in t["writable"].as_array().into_iter().flatten().enumerate() {
        slot.at(2, ri);
        *transitions += 1;
        let k = u(&row[0]);
        let content = pattern(data, 0x22);
        let r = catch_unwind(AssertUnwindSafe(|| -> Result<(), (String, String)> {
            rig.tx.back_buf = make_buffer(pos, end, cap, &content).map_err(|e| ("harness".to_string(), e))?;
            rig.tx.interest = Ready::READABLE | Ready::WRITABLE;
            rig.tx.readiness = Ready::WRITABLE;
            shim_arm(rig.tx_fd, Some(if k == 0 { vec![] } else { vec![k] }));
            let res = slot.sozu(|| rig.tx.writable());
            shim_disarm();
            let n = res.map_err(|e| ("result".to_string(), format!("writable() failed: {e}")))?;
            let b = |x: bool| x as usize;
            let got = (proj(&rig.tx.back_buf), b(rig.tx.interest.is_writable()), b(rig.tx.readiness.is_writable()), n);
            let want = ((u(&row[1]), u(&row[2]), u(&row[3])), u(&row[4]), u(&row[5]), u(&row[6]));
            if got != want {
                return Err(("result".into(), format!("writable() with {k} bytes accepted gave ((data, space, cap), I, R, n) = {got:?}, spec says {want:?}")));
            }
            rig.tx_expect.clear();
            rig.tx_expect.extend(content[..k].iter().copied());
            rig.drain_sender().map_err(|e| ("stream".to_string(), e))?;
            rig.wire.clear();
            if !rig.tx_expect.is_empty() || rig.tx.back_buf.data() != &content[k..] {
                return Err(("stream".into(), format!("after writing {k} bytes the socket/back buffer do not hold the right bytes")));
            }
            Ok(())
        }));
        match r {
            Err(p) => {
                shim_disarm();
                return fail("writable", row, "panic:writable", vh::util::panic_message(p));
            }
            Ok(Err((c, m))) => return fail("writable", row, &c, m),
            Ok(Ok(())) => {}
        }
    }
    // ---- readable() with n bytes in the socket
    for (ri, row) in t["readable"].as_array().into_iter().flatten().enumerate() {
        slot.at(3, ri);
        *transitions += 1;
        let n = u(&row[0]);
        let content = pattern(data, 0x33);
        let incoming = pattern(n, 0x44);
        let r = catch_unwind(AssertUnwindSafe(|| -> Result<(), (String, String)> {
            rig.rx.front_buf = make_buffer(pos, end, cap, &content).map_err(|e| ("harness".to_string(), e))?;
            rig.rx.interest = Ready::READABLE;
            rig.rx.readiness = Ready::READABLE;
            rig.wire.extend(incoming.iter().copied());
            rig.sock = 0;
            let moved = rig.wire_move(n).map_err(|e| ("harness".to_string(), e))?;
            if moved != n {
                return Err(("harness".into(), format!("could only put {moved} of {n} bytes in the socket")));
            }
            let res = slot.sozu(|| rig.rx.readable()).map_err(|e| ("result".to_string(), format!("readable() failed: {e}")))?;
            let b = |x: bool| x as usize;
            let left = rig.sock_inq();
            let got = (proj(&rig.rx.front_buf), left, b(rig.rx.interest.is_readable()), b(rig.rx.readiness.is_readable()), res);
            let want = ((u(&row[1]), u(&row[2]), u(&row[3])), u(&row[4]), u(&row[5]), u(&row[6]), u(&row[7]));
            let mut expect = content.clone();
            expect.extend_from_slice(&incoming[..n - left.min(n)]);
            let rest = drain_fd(rig.rx_fd);
            if got != want {
                return Err(("result".into(), format!("readable() with {n} bytes in the socket gave ((data, space, cap), left, I, R, n) = {got:?}, spec says {want:?}")));
            }
            if rig.rx.front_buf.data() != &expect[..] || rest != incoming[n - left.min(n)..] {
                return Err(("content".into(), format!("after readable() with {n} bytes the front buffer/socket do not hold the right bytes")));
            }
            Ok(())
        }));
        match r {
            Err(p) => return fail("readable", row, "panic:readable", vh::util::panic_message(p)),
            Ok(Err((c, m))) => {
                drain_fd(rig.rx_fd);
                return fail("readable", row, &c, m);
            }
            Ok(Ok(())) => {}
        }
    }
    // ---- read_message() with the given frame at the head of the stream
    for (ri, row) in t["readmsg"].as_array().into_iter().flatten().enumerate() {
        slot.at(4, ri);
        *transitions += 1;
        let (len, decl, kind) = (u(&row[0]), u(&row[1]), row[2].as_str().unwrap_or(""));
        let want_res = row[3].as_str().unwrap_or("");
        let r = catch_unwind(AssertUnwindSafe(|| -> Result<(), (String, String)> {
            // the stream: this frame, then well-formed frames
            let mut stream = frame_bytes(9, len, decl, kind).map_err(|e| ("harness".to_string(), e))?;
            let mut id = 10;
            while stream.len() < data {
                stream.extend(frame_bytes(id, 13, 13, "good").map_err(|e| ("harness".to_string(), e))?);
                id += 1;
            }
            let content = &stream[..data];
            rig.rx.front_buf = make_buffer(pos, end, cap, content).map_err(|e| ("harness".to_string(), e))?;
            rig.rx.interest = Ready::EMPTY;
            rig.rx.readiness = Ready::EMPTY;
            let res = slot.sozu(|| rig.rx.read_message());
            let got_res = match &res {
                Ok(_) => "ok".to_string(),
                Err(e) => error_name(e),
            };
            let got = (got_res.as_str(), proj(&rig.rx.front_buf), rig.rx.interest.is_readable() as usize);
            let want = (want_res, (u(&row[4]), u(&row[5]), u(&row[6])), u(&row[7]));
            if got != want {
                return Err(("result".into(), format!("read_message() on a {kind} frame (len {len}, declared {decl}) with {data} bytes buffered gave (res, (data, space, cap), I) = {got:?}, spec says {want:?}")));
            }
            if let Ok(m) = res {
                if Some(&m) != make_msg(9, len - D).as_ref() {
                    return Err(("content".into(), format!("delivered message is not the {len}-byte frame at the head of the buffer")));
                }
            }
            let consumed = data - rig.rx.front_buf.available_data();
            if rig.rx.front_buf.data() != &content[consumed..] {
                return Err(("content".into(), "the bytes left in the front buffer are not the rest of the stream".to_string()));
            }
            Ok(())
        }));
        match r {
            Err(p) => return fail("readmsg", row, "panic:readmsg", vh::util::panic_message(p)),
            Ok(Err((c, m))) => return fail("readmsg", row, &c, m),
            Ok(Ok(())) => {}
        }
    }
    None
}

/// (utime + stime in clock ticks, state letter) of a thread of this process
fn thread_stat(tid: i32) -> Option<(u64, char)> {
    let s = std::fs::read_to_string(format!("/proc/self/task/{tid}/stat")).ok()?;
    let rest = &s[s.rfind(')')? + 2..];
    let f: Vec<&str> = rest.split_whitespace().collect();
    // rest starts at field 3 (state); utime = field 14, stime = field 15
    let state = f.first()?.chars().next()?;
    let ut: u64 = f.get(11)?.parse().ok()?;
    let st: u64 = f.get(12)?.parse().ok()?;
    Some((ut + st, state))
}

fn env_secs(name: &str, default: f64) -> f64 {
    std::env::var(name).ok().and_then(|v| v.parse().ok()).unwrap_or(default)
}

struct Shared {
    total_steps: AtomicU64,
    behaviours: AtomicU64,
    tables: AtomicU64,
    table_rows: AtomicU64,
    violations: Mutex<Vec<Value>>,
    classes: Mutex<HashSet<String>>,
    transitions: Mutex<HashSet<u64>>,
    first_sample: Mutex<Option<Value>>,
    printed: AtomicBool,
}

impl Shared {
    /// Print the violations and the summary exactly once (normal end, or the watchdog's early end).
    fn print(&self, verbose: bool, aborted: Option<&str>) {
        if self.printed.swap(true, Ordering::SeqCst) {
            return;
        }
        let vs = self.violations.lock().unwrap_or_else(|e| e.into_inner());
        for v in vs.iter() {
            vh::util::emit(v);
            if verbose {
                eprintln!("{}", serde_json::to_string_pretty(&v["problems"]).unwrap_or_default());
            }
        }
        let mut cl: Vec<String> = self.classes.lock().unwrap_or_else(|e| e.into_inner()).iter().cloned().collect();
        cl.sort();
        vh::util::emit(&json!({
            "kind": "summary",
            "behaviours": self.behaviours.load(Ordering::SeqCst),
            "steps": self.total_steps.load(Ordering::SeqCst),
            "violations": vs.len(),
            "step_classes": cl,
            "distinct_transitions": self.transitions.lock().unwrap_or_else(|e| e.into_inner()).len(),
            "tables": self.tables.load(Ordering::SeqCst),
            "table_rows": self.table_rows.load(Ordering::SeqCst),
            "first_behaviour": self.first_sample.lock().unwrap_or_else(|e| e.into_inner()).clone(),
            "aborted": aborted,
        }));
        use std::io::Write;
        let _ = std::io::stdout().flush();
    }
    fn push(&self, v: Value) {
        let mut g = self.violations.lock().unwrap_or_else(|e| e.into_inner());
        if g.len() < 200 {
            g.push(v);
        }
    }
}

/// One line of stdin (a behaviour or a transition table) executed on the real code.
fn run_item(k: usize, b: Arc<Value>, sh: &Shared, slot: &Slot, my_classes: &mut HashSet<String>, my_trans: &mut HashSet<u64>) {
    if b.get("buf").is_some() {
        let mut n = 0u64;
        let v = run_table(&b, &mut n, slot);
        sh.tables.fetch_add(1, Ordering::SeqCst);
        sh.table_rows.fetch_add(n, Ordering::SeqCst);
        if let Some(mut v) = v {
            v["kind"] = json!("violation");
            v["op"] = json!({"op": v["table"], "res": v["class"]});
            v["behaviour"] = (*b).clone();
            sh.push(v);
        }
        return;
    }
    if b.get("steps").is_none() {
        return;
    }
    if k == 0 {
        *sh.first_sample.lock().unwrap_or_else(|e| e.into_inner()) = Some((*b).clone());
    }
    let o = run_behaviour(&b, my_classes, my_trans, slot);
    sh.behaviours.fetch_add(1, Ordering::SeqCst);
    sh.total_steps.fetch_add(o.steps, Ordering::SeqCst);
    if let Some(mut v) = o.violation {
        v["kind"] = json!("violation");
        v["behaviour_index"] = json!(k);
        // keep the replay small: the behaviour up to the failing step
        let upto = v["step"].as_u64().unwrap_or(0) as usize;
        let mut bb = (*b).clone();
        if let Some(a) = bb["steps"].as_array_mut() {
            a.truncate(upto.max(1));
        }
        v["behaviour"] = bb;
        sh.push(v);
    }
}

/// The violation the watchdog reports for a worker stuck inside a call into sozu.
fn hang_violation(slot: &Slot, how: &str) -> Value {
    let item = slot.item.lock().unwrap_or_else(|e| e.into_inner()).clone();
    let (k, b) = item.unwrap_or((0, Arc::new(Value::Null)));
    let table = slot.table.load(Ordering::SeqCst);
    let step = slot.step.load(Ordering::SeqCst);
    if table == 0 {
        let st = b["steps"][step].clone();
        let op = st["op"].as_str().unwrap_or("?").to_string();
        let mut bb = (*b).clone();
        if let Some(a) = bb["steps"].as_array_mut() {
            a.truncate(step + 1);
        }
        json!({"kind": "violation", "class": format!("hang:{op}"), "step": step + 1, "op": st, "behaviour_index": k, "behaviour": bb,
               "problems": [format!("[hang:{op}] {op} (step {}) never returned ({how}): the channel is wedged inside the call", step + 1)]})
    } else {
        let t = TABLES[table.min(4)];
        let row = b[t][step].clone();
        json!({"kind": "violation", "class": format!("hang:{t}"), "table": t, "buf": b["buf"], "init": b["init"], "max": b["max"], "row": row,
               "op": {"op": t, "res": format!("hang:{t}")}, "behaviour": (*b).clone(),
               "problems": [format!("[hang:{t}] buffer {} {t} row {row}: the call never returned ({how})", b["buf"])]})
    }
}

fn main() {
    let args: Vec<String> = std::env::args().collect();
    let mut threads = 8usize;
    let mut verbose = false;
    let mut i = 1;
    while i < args.len() {
        match args[i].as_str() {
            "--threads" => {
                threads = args.get(i + 1).and_then(|v| v.parse().ok()).unwrap_or(8);
                i += 1;
            }
            "--verbose" => verbose = true,
            _ => {}
        }
        i += 1;
    }
    let threads = threads.max(1);
    vh::util::quiet_panics();
    let sizes: Vec<usize> = (0..200).chain([127, 128, 129, 130, 131, 16383, 16384, 16390, 70000]).collect();
    match catch_unwind(|| self_test(&sizes)) {
        Ok(Ok(())) => {}
        Ok(Err(e)) => {
            eprintln!("replay_channel self-test failed: {e}");
            std::process::exit(3);
        }
        Err(p) => {
            eprintln!("replay_channel self-test panicked: {}", vh::util::panic_message(p));
            std::process::exit(3);
        }
    }
    // stdin is streamed to the workers (TLC can pipe hundreds of MB of behaviours without a file in between)
    let (txq, rxq) = std::sync::mpsc::sync_channel::<(usize, String)>(256);
    let rxq = Arc::new(Mutex::new(rxq));
    let sh = Arc::new(Shared {
        total_steps: AtomicU64::new(0),
        behaviours: AtomicU64::new(0),
        tables: AtomicU64::new(0),
        table_rows: AtomicU64::new(0),
        violations: Mutex::new(Vec::new()),
        classes: Mutex::new(HashSet::new()),
        transitions: Mutex::new(HashSet::new()),
        first_sample: Mutex::new(None),
        printed: AtomicBool::new(false),
    });
    let slots: Arc<Vec<Slot>> = Arc::new((0..threads).map(|_| Slot::default()).collect());
    let mut handles = Vec::new();
    for w in 0..threads {
        let (rxq, sh, slots) = (rxq.clone(), sh.clone(), slots.clone());
        handles.push(std::thread::spawn(move || {
            let slot = &slots[w];
            slot.tid.store(unsafe { libc::syscall(libc::SYS_gettid) } as i32, Ordering::SeqCst);
            let mut my_classes = HashSet::new();
            let mut my_trans = HashSet::new();
            loop {
                // (a poisoned queue lock only means another worker died while waiting: keep consuming)
                let item = { rxq.lock().unwrap_or_else(|e| e.into_inner()).recv() };
                let Ok((k, line)) = item else { break };
                let Ok(b) = serde_json::from_str::<Value>(&line) else { continue };
                // a violation replay file wraps the behaviour
                let b = Arc::new(if b.get("behaviour").is_some() { b["behaviour"].clone() } else { b });
                *slot.item.lock().unwrap_or_else(|e| e.into_inner()) = Some((k, b.clone()));
                slot.at(0, 0);
                slot.busy.store(true, Ordering::SeqCst);
                // every call into sozu is guarded inside; whatever still unwinds up to here is a defect of the
                // harness (class "harness" = tool error), and it must not kill the worker: the queue has to be drained
                let r = catch_unwind(AssertUnwindSafe(|| run_item(k, b.clone(), &sh, slot, &mut my_classes, &mut my_trans)));
                slot.busy.store(false, Ordering::SeqCst);
                slot.in_sozu.store(false, Ordering::SeqCst);
                if let Err(p) = r {
                    shim_disarm();
                    sh.push(json!({"kind": "violation", "class": "harness", "op": {"op": "harness", "res": "panic"}, "behaviour_index": k,
                                   "problems": [format!("[harness] the replayer itself panicked outside a guarded call: {}", vh::util::panic_message(p))]}));
                }
            }
            sh.classes.lock().unwrap_or_else(|e| e.into_inner()).extend(my_classes);
            sh.transitions.lock().unwrap_or_else(|e| e.into_inner()).extend(my_trans);
        }));
    }
    // only the workers hold the receiving end: if they were all gone, send() would fail instead of blocking for ever
    drop(rxq);

    // ---- watchdog: "no progress" becomes a verdict (hang of the code under test) or a tool error (harness stuck)
    {
        let (sh, slots) = (sh.clone(), slots.clone());
        let spin_cpu = env_secs("VERIF_C11_SPIN_CPU_S", 10.0); // CPU seconds burnt inside ONE call (a step takes microseconds)
        let block_wall = env_secs("VERIF_C11_BLOCK_S", 40.0); // seconds asleep inside ONE call of a non-blocking channel
        let starve_wall = env_secs("VERIF_C11_STALL_S", 600.0); // no progress, neither spinning nor asleep: the machine
        let harness_wall = env_secs("VERIF_C11_HARNESS_STALL_S", 180.0); // no progress outside the code under test
        std::thread::spawn(move || {
            let ticks = unsafe { libc::sysconf(libc::_SC_CLK_TCK) }.max(1) as f64;
            struct Seen {
                progress: u64,
                since: Instant,
                cpu0: u64,
                asleep_since: Option<Instant>,
            }
            let mut seen: Vec<Option<Seen>> = (0..slots.len()).map(|_| None).collect();
            loop {
                std::thread::sleep(Duration::from_millis(500));
                for (w, slot) in slots.iter().enumerate() {
                    if !slot.busy.load(Ordering::SeqCst) {
                        seen[w] = None;
                        continue;
                    }
                    let p = slot.progress.load(Ordering::SeqCst);
                    let tid = slot.tid.load(Ordering::SeqCst);
                    let Some((cpu, state)) = thread_stat(tid) else { continue };
                    match &mut seen[w] {
                        Some(s) if s.progress == p => {
                            let in_sozu = slot.in_sozu.load(Ordering::SeqCst);
                            let stalled = s.since.elapsed().as_secs_f64();
                            let burnt = (cpu - s.cpu0) as f64 / ticks;
                            if state == 'S' || state == 'D' {
                                s.asleep_since.get_or_insert_with(Instant::now);
                            } else {
                                s.asleep_since = None;
                            }
                            let asleep = s.asleep_since.map(|t| t.elapsed().as_secs_f64()).unwrap_or(0.0);
                            // re-check that it is still the same step (the flags are read after the counters)
                            if slot.progress.load(Ordering::SeqCst) != p {
                                continue;
                            }
                            let verdict = if in_sozu && burnt >= spin_cpu {
                                Some(format!("it burnt {burnt:.1} s of CPU in {stalled:.0} s without returning"))
                            } else if in_sozu && asleep >= block_wall {
                                Some(format!("blocked in the kernel for {asleep:.0} s on a non-blocking channel"))
                            } else {
                                None
                            };
                            if let Some(how) = verdict {
                                sh.push(hang_violation(slot, &how));
                                sh.print(false, Some("hang of the code under test"));
                                std::process::exit(0);
                            }
                            if (!in_sozu && stalled >= harness_wall) || stalled >= starve_wall {
                                eprintln!(
                                    "replay_channel: worker {w} made no progress for {stalled:.0} s (in_sozu={in_sozu}, cpu {burnt:.1} s, state {state}): giving up (tool error)"
                                );
                                std::process::exit(4);
                            }
                        }
                        _ => seen[w] = Some(Seen { progress: p, since: Instant::now(), cpu0: cpu, asleep_since: None }),
                    }
                }
            }
        });
    }
    {
        let mut k = 0usize;
        for line in BufReader::new(std::io::stdin()).lines().map_while(Result::ok) {
            if !line.trim_start().starts_with('{') {
                continue;
            }
            if txq.send((k, line)).is_err() {
                eprintln!("replay_channel: every worker is gone, {k} lines were handed out");
                std::process::exit(4);
            }
            k += 1;
        }
        drop(txq);
    }
    for h in handles {
        let _ = h.join();
    }
    sh.print(verbose, None);
}
