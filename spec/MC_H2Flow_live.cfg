\* Liveness of H2Flow (C14) under fairness: every body completes, the peer is never permanently stuck.
SPECIFICATION FairSpec
CONSTANTS
  Role = "server"
  Ids = {1}
  MaxWin = 3
  ConnInit = 1
  Default <- D_Default
  SettingsVals <- SV_Win
  HdrArgs <- HA_Plain
  MaxSettings = 2
  Bodies = {2}
  Ups = {2}
  Grants = {1}
  HdrLens = {1}
  RecvInit = 1
  RecvConn = 2
  Reaper = FALSE
  Legal = TRUE
  BurstMin = 2
  Deviations = {}
INVARIANTS TypeOK
PROPERTIES P_C14_BodiesComplete P_C14_PeerNeverStuck
CHECK_DEADLOCK FALSE
