--------------------------- MODULE Trace_UdpShell ---------------------------
(***************************************************************************)
(* Shell leg of C19: what mock UDP clients and backends observed around a  *)
(* REAL sozu worker (harness/shell_udp), validated against the same        *)
(* handlers as the pure core (UdpFlows.tla), composed the way              *)
(* lib/src/udp.rs composes them: a SelectBackend is answered at once by    *)
(* BackendResolved with a backend of the load balancer's choice (the one   *)
(* that was observed to receive the datagram).                             *)
(*                                                                         *)
(*   {"ev":"reset","cluster":CfgT,"maxFlows":k,"maxRx":k,                  *)
(*        "clients":[{"ip":a,"port":p}…]}                                  *)
(*   lock step (one datagram, then the observation):                       *)
(*   {"ev":"c2b","client":i,"ip":a,"port":p,"pl":{id,len},                 *)
(*        "obs":{"got":0} | {"got":1,"backend":b,"up":u,"id":x,"intact":t}, *)
(*        "dup":0|1}      a client datagram and what the backends received *)
(*   {"ev":"b2c","backend":b,"up":u,"foreign":t,"pl":{id,len},             *)
(*        "obs":{"got":0} | {"got":1,"client":i,"id":x,"intact":t},"dup":…}*)
(*                        a datagram sent by backend b to upstream port u  *)
(*   {"ev":"cfg","what":"SetCluster","cfg":CfgT} | {…"SetMaxFlows","v":k}  *)
(*   batched (k datagrams queued on the worker's sockets BEFORE it wakes:  *)
(*   one drain pass of the listener socket holds several datagrams of      *)
(*   several flows, backend replies of several flows wait at once, both    *)
(*   directions share a poll turn):                                        *)
(*   {"ev":"batch","paused":0|1,                                           *)
(*        "sends":[{"k":"c"|"b","client":i,"ip":a,"port":p,"backend":b,    *)
(*                  "up":u,"foreign":t,"pl":{id,len}}…]  in sending order, *)
(*        "at":[[{"up":u,"id":x,"intact":t}…] per backend, arrival order], *)
(*        "cl":[[{"id":x,"intact":t}…] per client, arrival order]}         *)
(*                                                                         *)
(* A batch is explained datagram by datagram with the per-datagram         *)
(* semantics of the core: every socket of the worker is a FIFO (the        *)
(* listener socket: the client datagrams in sending order; each upstream    *)
(* socket: the replies sent to its port), the worker may serve the sockets *)
(* in any interleaving (epoll order is free), every receiver is a FIFO too *)
(* (loopback, one sending thread).  Each micro step is the core's Step for *)
(* the head of one socket queue and must consume the head of the           *)
(* observation queue of the receiver the core names: the flow's backend    *)
(* THROUGH THE FLOW'S OWN upstream port, or the flow's client.  At the end *)
(* every observation must have been consumed (nothing duplicated, nothing  *)
(* delivered that the core does not send).                                 *)
(*                                                                         *)
(* The flow id is not visible on the wire; the proxy's upstream source     *)
(* port stands for the flow incarnation (umap: live flow -> port).         *)
(* No idle timeout fires during a run (timeouts are 120 s): time stays 0.  *)
(*                                                                         *)
(* Self-test switch (never an open finding): "StaleInFlightUpstream" in    *)
(* Deviations models the defect class "the shell resolves the upstream     *)
(* socket of a datagram from per-PASS instead of per-DATAGRAM state": once *)
(* a datagram of the pass opened a flow, later datagrams of the pass leave *)
(* on that flow's socket.  A recorded run of a correct shell must be       *)
(* REJECTED under it (checked by c19.py on every run: vacuity guard).      *)
(***************************************************************************)
EXTENDS UdpFlows, IOUtils

ASSUME TLCSet(1, 0)
ASSUME TLCSet(2, 0)

Rec == ndJsonDeserialize(IOEnv.TRACE)

VARIABLES idx,      \* next event to explain
          umap,     \* live flow id -> upstream port observed at the backends
          clis,     \* client index -> its source [ip, port]
          sel,      \* flow whose SelectBackend waits for the shell's answer (NoFlow if none)
          bq        \* progress inside a batch event (NoB outside)

tvars == <<vars, idx, umap, clis, sel, bq>>

CfgOf(a) == Cfg(a[1], a[2] = 1, a[3], a[4], a[5], a[6], a[7] = 1, a[8] = 1)

SetCore(s) ==
  /\ table' = s.table /\ flows' = s.flows /\ free' = s.free /\ slabLen' = s.slabLen
  /\ maxFlows' = s.maxFlows /\ maxRx' = s.maxRx /\ draining' = s.draining /\ cluster' = s.cluster
  /\ armed' = s.armed /\ now' = s.now

RestrictTo(m, live) == [f \in DOMAIN m \cap live |-> m[f]]
Sends(o) == {j \in 1..Len(o) : o[j].k = "SendToBackend"}
Selects(o) == {j \in 1..Len(o) : o[j].k = "SelectBackend"}
ToClient(o) == {j \in 1..Len(o) : o[j].k = "SendToClient"}

\* done: indices of e.sends already explained; ob / oc: observations consumed per backend / client;
\* dead: flow ids closed during this batch (their upstream sockets went with whatever was queued on them);
\* opened: the flow most recently opened by this batch (only read by the self-test switch)
NoB == [on |-> FALSE, done |-> {}, ob |-> <<>>, oc |-> <<>>, dead |-> {}, opened |-> NoFlow]
Fresh(e) == [on |-> TRUE,
             \* a datagram from a backend that is not the socket's peer never reaches the worker
             done |-> {j \in 1..Len(e.sends) : e.sends[j].k = "b" /\ e.sends[j].foreign},
             ob |-> [b \in 1..Len(e.at) |-> 0], oc |-> [c \in 1..Len(e.cl) |-> 0], dead |-> {}, opened |-> NoFlow]
BQ(e) == IF bq.on THEN bq ELSE Fresh(e)

TInit ==
  /\ table = <<>> /\ flows = <<>> /\ free = <<>> /\ slabLen = 0
  /\ maxFlows = 1 /\ maxRx = 1 /\ draining = FALSE /\ cluster = Base(TRUE)
  /\ armed = NoTimer /\ now = 0 /\ n = 0 /\ inp = [op |-> "Init"] /\ out = <<>> /\ hist = <<>>
  /\ idx = 1 /\ umap = <<>> /\ clis = <<>> /\ sel = NoFlow /\ bq = NoB

TReset(e) ==
  /\ SetCore([table |-> <<>>, flows |-> <<>>, free |-> <<>>, slabLen |-> 0, maxFlows |-> e.maxFlows, maxRx |-> e.maxRx,
              draining |-> FALSE, cluster |-> CfgOf(e.cluster), armed |-> NoTimer, now |-> 0])
  /\ n' = 0 /\ inp' = [op |-> "Init"] /\ out' = <<>> /\ hist' = hist
  /\ umap' = <<>> /\ clis' = [c \in 1..Len(e.clients) |-> [ip |-> e.clients[c].ip, port |-> e.clients[c].port]]
  /\ sel' = NoFlow /\ idx' = idx + 1 /\ bq' = NoB

Fail(what, e) == PrintT(<<"MISMATCH at event", idx, what, e>>) /\ FALSE
\* (IF, not a disjunction: TLC evaluates every disjunct of an action)
Check(cond, what, e) == IF cond THEN TRUE ELSE Fail(what, e)

---------------------------------------------------------------------------
(* lock step *)

\* first half of a client datagram: the manager's ClientDatagram step
TClient(e) ==
  /\ sel = NoFlow
  /\ LET i == [op |-> "ClientDatagram", src |-> [ip |-> e.ip, port |-> e.port], pl |-> e.pl]
         r == Step(St, i)
         f == Lookup(St, i.src)
     IN /\ Check(e.dup = 0, "a datagram was delivered twice", e)
        /\ IF Selects(r.out) # {}
           THEN \* new flow: the observation is explained by the BackendResolved step that follows
                /\ sel' = r.out[CHOOSE j \in Selects(r.out) : TRUE].flow
                /\ UNCHANGED <<idx, umap>>
           ELSE /\ sel' = NoFlow /\ idx' = idx + 1
                /\ umap' = RestrictTo(umap, Live(r.s))
                /\ IF Sends(r.out) # {}
                   THEN LET x == r.out[CHOOSE j \in Sends(r.out) : TRUE] IN
                        Check(/\ e.obs.got = 1 /\ e.obs.intact /\ e.obs.id = x.p
                              /\ e.obs.backend = x.dst                       \* sticky: the flow's backend
                              /\ f \in DOMAIN umap /\ e.obs.up = umap[f],     \* on the flow's own upstream socket
                              <<"expected delivery to backend", x.dst, "via", umap>>, e)
                   ELSE Check(e.obs.got = 0, <<"expected no delivery, manager output", r.out>>, e)
        /\ SetCore(r.s) /\ n' = n + 1 /\ inp' = i /\ out' = r.out /\ hist' = hist /\ clis' = clis /\ bq' = bq

\* second half: the shell's immediate BackendResolved for the flow just admitted
TResolve(e) ==
  /\ sel # NoFlow
  /\ Check(e.obs.got = 1, "a new flow was admitted but no backend received its first datagram", e)
  /\ LET i == [op |-> "BackendResolved", flow |-> sel, backend |-> e.obs.backend]
         r == Step(St, i)
     IN /\ Check(/\ Sends(r.out) # {}
                 /\ LET x == r.out[CHOOSE j \in Sends(r.out) : TRUE] IN
                    e.obs.intact /\ e.obs.id = x.p /\ e.obs.backend = x.dst
                 \* a fresh upstream socket: no other live flow uses that source port
                 /\ \A g \in DOMAIN umap \cap Live(St) : umap[g] # e.obs.up,
                 <<"first datagram of a new flow", r.out, umap>>, e)
        /\ umap' = RestrictTo((sel :> e.obs.up) @@ umap, Live(r.s))
        /\ SetCore(r.s) /\ n' = n + 1 /\ inp' = i /\ out' = r.out /\ hist' = hist /\ clis' = clis /\ bq' = bq
        /\ sel' = NoFlow /\ idx' = idx + 1

\* a datagram from a backend towards an upstream port of the proxy
TBackend(e) ==
  /\ sel = NoFlow
  /\ Check(e.dup = 0, "a reply was delivered twice", e)
  /\ LET fs == {f \in DOMAIN umap \cap Live(St) : umap[f] = e.up} IN
     IF e.foreign \/ fs = {}
     THEN \* not the flow's backend (connected socket: the kernel filters it) or the flow is gone
          /\ Check(e.obs.got = 0, "a datagram from a foreign backend / for a closed flow reached a client", e)
          /\ UNCHANGED <<vars, umap, clis, sel, bq>> /\ idx' = idx + 1
     ELSE LET f == CHOOSE x \in fs : TRUE
              i == [op |-> "BackendDatagram", flow |-> f, pl |-> e.pl]
              r == Step(St, i)
          IN /\ IF ToClient(r.out) # {}
                THEN LET x == r.out[CHOOSE j \in ToClient(r.out) : TRUE] IN
                     Check(/\ e.obs.got = 1 /\ e.obs.intact /\ e.obs.id = x.p
                           /\ clis[e.obs.client] = x.client,                  \* isolation: the flow's client only
                           <<"expected reply at client", x.client>>, e)
                ELSE Check(e.obs.got = 0, <<"expected no reply, manager output", r.out>>, e)
             /\ umap' = RestrictTo(umap, Live(r.s))
             /\ SetCore(r.s) /\ n' = n + 1 /\ inp' = i /\ out' = r.out /\ hist' = hist /\ clis' = clis /\ bq' = bq
             /\ sel' = NoFlow /\ idx' = idx + 1

TConfig(e) ==
  /\ sel = NoFlow
  /\ LET i == IF e.what = "SetCluster"
              THEN [op |-> "Config", ev |-> [what |-> "SetCluster", cfg |-> CfgOf(e.cfg)]]
              ELSE [op |-> "Config", ev |-> [what |-> e.what, v |-> e.v]]
         r == Step(St, i)
     IN /\ SetCore(r.s) /\ n' = n + 1 /\ inp' = i /\ out' = r.out /\ hist' = hist
        /\ UNCHANGED <<umap, clis, sel, bq>> /\ idx' = idx + 1

---------------------------------------------------------------------------
(* batches: one micro step per datagram (plus the resolution of a new flow) *)

Stale == "StaleInFlightUpstream" \in Deviations

\* the listener socket is one FIFO: the next client datagram is the earliest one not yet explained
NextC(e, b) == {j \in 1..Len(e.sends) \ b.done : e.sends[j].k = "c"}
\* each upstream socket (port) is a FIFO of its own
NextB(e, b) == {j \in 1..Len(e.sends) \ b.done :
                  /\ e.sends[j].k = "b"
                  /\ \A j2 \in 1..(j - 1) : (e.sends[j2].k = "b" /\ e.sends[j2].up = e.sends[j].up) => j2 \in b.done}

Closed(s, t) == Live(s) \ Live(t)

\* the head of backend b's observation queue is datagram p, intact, arrived through upstream port u
HeadAt(e, b0, b, p, u) ==
  /\ b \in 1..Len(e.at) /\ b0.ob[b] < Len(e.at[b])
  /\ LET h == e.at[b][b0.ob[b] + 1] IN h.id = p /\ h.intact /\ h.up = u

TBClient(e) ==
  /\ sel = NoFlow
  /\ LET b0 == BQ(e) IN
     /\ NextC(e, b0) # {}
     /\ LET j  == Min(NextC(e, b0))
            it == e.sends[j]
            i  == [op |-> "ClientDatagram", src |-> [ip |-> it.ip, port |-> it.port], pl |-> it.pl]
            r  == Step(St, i)
            f  == Lookup(St, i.src)
            b1 == [b0 EXCEPT !.done = @ \cup {j}, !.dead = @ \cup Closed(St, r.s)]
        IN /\ IF Selects(r.out) # {}
              THEN \* new flow: explained by the resolution that follows (j stays pending)
                   /\ sel' = r.out[CHOOSE k \in Selects(r.out) : TRUE].flow
                   /\ bq' = b0 /\ umap' = umap
              ELSE /\ sel' = NoFlow
                   /\ umap' = RestrictTo(umap, Live(r.s))
                   /\ IF Sends(r.out) # {}
                      THEN LET x == r.out[CHOOSE k \in Sends(r.out) : TRUE] IN
                           IF Stale /\ b0.opened # NoFlow
                           THEN \* self-test: the datagram leaves on the socket of the flow opened earlier in the pass
                                IF b0.opened \in DOMAIN umap \cap Live(St)
                                THEN /\ HeadAt(e, b0, St.flows[b0.opened].backend, x.p, umap[b0.opened])
                                     /\ bq' = [b1 EXCEPT !.ob[St.flows[b0.opened].backend] = @ + 1]
                                ELSE bq' = b1
                           ELSE \* sticky: the flow's backend, on the flow's own upstream socket
                                /\ f \in DOMAIN umap
                                /\ HeadAt(e, b0, x.dst, x.p, umap[f])
                                /\ bq' = [b1 EXCEPT !.ob[x.dst] = @ + 1]
                      ELSE bq' = b1
           /\ SetCore(r.s) /\ n' = n + 1 /\ inp' = i /\ out' = r.out /\ hist' = hist
           /\ UNCHANGED <<idx, clis>>

TBResolve(e) ==
  /\ sel # NoFlow /\ bq.on /\ NextC(e, bq) # {}
  /\ \E b \in 1..Len(e.at) :
       /\ bq.ob[b] < Len(e.at[b])
       /\ LET j == Min(NextC(e, bq))
              h == e.at[b][bq.ob[b] + 1]
              i == [op |-> "BackendResolved", flow |-> sel, backend |-> b]
              r == Step(St, i)
          IN /\ h.id = e.sends[j].pl.id           \* the backend that received this very datagram was the choice
             /\ Sends(r.out) # {}
             /\ LET x == r.out[CHOOSE k \in Sends(r.out) : TRUE] IN h.intact /\ h.id = x.p /\ x.dst = b
             \* a fresh upstream socket: no other live flow uses that source port
             /\ \A g \in DOMAIN umap \cap Live(St) : umap[g] # h.up
             /\ umap' = RestrictTo((sel :> h.up) @@ umap, Live(r.s))
             /\ bq' = [bq EXCEPT !.done = @ \cup {j}, !.ob[b] = @ + 1, !.dead = @ \cup Closed(St, r.s), !.opened = sel]
             /\ SetCore(r.s) /\ n' = n + 1 /\ inp' = i /\ out' = r.out /\ hist' = hist
  /\ sel' = NoFlow /\ UNCHANGED <<idx, clis>>

TBBackend(e) ==
  /\ sel = NoFlow
  /\ LET b0 == BQ(e) IN
     \E j \in NextB(e, b0) :
       LET it == e.sends[j]
           fs == {f \in (DOMAIN umap \cap Live(St)) \ b0.dead : umap[f] = it.up}
           b1 == [b0 EXCEPT !.done = @ \cup {j}]
       IN IF fs = {}
          THEN \* the flow is gone (and whatever waited on its socket with it)
               /\ bq' = b1 /\ UNCHANGED <<vars, umap>>
          ELSE LET f == CHOOSE x \in fs : TRUE
                   i == [op |-> "BackendDatagram", flow |-> f, pl |-> it.pl]
                   r == Step(St, i)
                   b2 == [b1 EXCEPT !.dead = @ \cup Closed(St, r.s)]
               IN /\ IF ToClient(r.out) # {}
                     THEN LET x == r.out[CHOOSE k \in ToClient(r.out) : TRUE] IN
                          \E c \in 1..Len(clis) :
                            /\ clis[c] = x.client                              \* isolation: the flow's client only
                            /\ b0.oc[c] < Len(e.cl[c])
                            /\ LET h == e.cl[c][b0.oc[c] + 1] IN h.id = x.p /\ h.intact
                            /\ bq' = [b2 EXCEPT !.oc[c] = @ + 1]
                     ELSE bq' = b2
                  /\ umap' = RestrictTo(umap, Live(r.s))
                  /\ SetCore(r.s) /\ n' = n + 1 /\ inp' = i /\ out' = r.out /\ hist' = hist
  /\ UNCHANGED <<idx, clis, sel>>

\* everything sent was explained and everything observed was predicted
TBEnd(e) ==
  /\ sel = NoFlow /\ bq.on
  /\ bq.done = 1..Len(e.sends)
  /\ \A b \in 1..Len(e.at) : bq.ob[b] = Len(e.at[b])
  /\ \A c \in 1..Len(e.cl) : bq.oc[c] = Len(e.cl[c])
  /\ idx' = idx + 1 /\ bq' = NoB /\ UNCHANGED <<vars, umap, clis, sel>>

TNext ==
  /\ idx <= Len(Rec)
  /\ LET e == Rec[idx] IN
     CASE e.ev = "reset" -> TReset(e)
       [] e.ev = "c2b"   -> TClient(e) \/ TResolve(e)
       [] e.ev = "b2c"   -> TBackend(e)
       [] e.ev = "cfg"   -> TConfig(e)
       [] e.ev = "batch" -> TBClient(e) \/ TBResolve(e) \/ TBBackend(e) \/ TBEnd(e)

TraceSpec == TInit /\ [][TNext]_tvars

\* register 1: events explained; register 2: datagrams explained inside the first unexplained batch
Track ==
  /\ (idx - 1 > TLCGet(1) => TLCSet(1, idx - 1) /\ TLCSet(2, 0))
  /\ ((idx - 1 = TLCGet(1) /\ bq.on /\ Cardinality(bq.done) > TLCGet(2)) => TLCSet(2, Cardinality(bq.done)))
  /\ TRUE

TraceAccepted ==
  /\ IF TLCGet(1) = Len(Rec)
     THEN PrintT(<<"TRACE-ACCEPTED", TLCGet(1)>>)
     ELSE /\ PrintT(<<"TRACE-REJECTED", TLCGet(1), Len(Rec)>>)
          /\ PrintT(<<"FIRST-UNEXPLAINED", Rec[TLCGet(1) + 1]>>)
          /\ (Rec[TLCGet(1) + 1].ev = "batch" =>
                PrintT(<<"MISMATCH inside the batch: at most", TLCGet(2), "of its datagrams have an explanation in which every datagram reaches the flow's backend through the flow's own upstream socket / the flow's client, in order, exactly once">>))
  /\ TRUE

\* distinct live flows never share an upstream socket
UpstreamsDistinct == \A f, g \in DOMAIN umap : f # g => umap[f] # umap[g]

IsStep == inp'.op # "Init" /\ <<St, inp, out>> # <<St', inp', out'>>
S_C19_Sticky    == [][IsStep => StickyOK(St, inp', out', St', FALSE)]_tvars
S_C19_StickyModuloRekey == [][IsStep => StickyOK(St, inp', out', St', RekeyCase(St, inp'))]_tvars
S_C19_Isolation == [][IsStep => IsolationOK(St, inp', out', St')]_tvars
S_C19_Integrity == [][IsStep => IntegrityOK(St, inp', out', St')]_tvars
S_C19_Cap       == [][IsStep => CapOK(St, inp', out', St')]_tvars
S_C19_Teardown  == [][IsStep => TeardownOK(St, inp', out', St')]_tvars
=============================================================================
