"""C04 - routing depends only on the configured frontends (spec/Router.tla).

1. TLC checks P_C04 on the spec with no deviation (design level).
2. For every open deviation TLC is re-run with it switched on and must produce a counterexample
   (the known finding is still what the spec says it is).
3. Generator run: one REPLAY line per distinct spec state with the probe table
   (admissible set per request + prediction with open deviations on).
4. harness/replay_router executes, for every state, every insertion order of the tree members plus
   detours on the real sozu_lib::router::Router and compares every probe.
"""
import json
import os

import vlib

PID = "C04"

CFG = """SPECIFICATION Spec
CONSTANTS
  MaxFronts = %(n)d
  Deviations = %(dev)s
  Emit = %(emit)s
%(checks)s
CHECK_DEADLOCK FALSE
"""
CHECKS = ("INVARIANTS TypeOK P_C04_CodeWithinDoc P_C04_OnlyConfigured P_C04_NonMatchingIrrelevant\n"
          "PROPERTY P_C04_RemovedNeverServes")


def tla_set(xs):
    return "{" + ", ".join('"%s"' % x for x in xs) + "}"


def write_cfg(wd, name, n, dev, emit):
    path = os.path.join(wd, name)
    with open(path, "w") as f:
        f.write(CFG % {"n": n, "dev": tla_set(dev), "emit": "TRUE" if emit else "FALSE",
                       "checks": "INVARIANTS EmitState" if emit else CHECKS})
    return path


def run(tier, replay=None):
    rep = vlib.Report(PID, tier)
    wd = vlib.workdir(PID)
    bins = vlib.cargo_build(["replay_router"])
    devs = vlib.open_deviations(PID)
    thorough = tier == "thorough"
    n_mc = 3 if thorough else 2
    workers = 16 if thorough else 8

    # 1. design level, no deviation
    r = vlib.tlc("Router", write_cfg(wd, "mc.cfg", n_mc, [], False), PID, workers=workers,
                 timeout=3000 if thorough else 600, coverage=False)
    rep.add_tlc(r)
    if r["violated"]:
        rep.violation("spec:" + r["violated"], "the specification itself violates %s" % r["violated"], r["out"])
    # 2. each open deviation must still break the property in the model
    for d in devs:
        rd = vlib.tlc("Router", write_cfg(wd, "mc_dev.cfg", 2, [d], False), PID, workers=workers, timeout=600)
        rep.add_tlc(rd)
        if not rd["violated"]:
            raise vlib.ToolError("deviation %s no longer violates P_C04 in the model" % d)
        vlib.log("deviation %s: TLC counterexample to %s as expected" % (d, rd["violated"]))

    # 3. generator
    n_gen = 3 if thorough else 2
    beh = os.path.join(wd, "behaviours.ndjson")
    if replay:
        beh = replay
    else:
        with open(beh, "w") as f:
            g = vlib.tlc("Router", write_cfg(wd, "gen.cfg", n_gen, devs, True), PID, workers=workers,
                         timeout=3000, want_replay=True, replay_sink=lambda o: f.write(json.dumps(o) + "\n"))
        rep.add_tlc(g)
        if g["violated"]:
            raise vlib.ToolError("generator run reported a violation: %s" % g["violated"])
    # 4. replay on the real router, two concretisations
    total_hist = 0
    total_states = 0
    for variant in ([0, 1, 2] if thorough else [0, 1]):
        out = vlib.run_harness(bins["replay_router"],
                               ["--seed", str(vlib.seed() * 3 + variant), "--threads", "16",
                                "--detours", "10" if thorough else "6", "--deviations", ",".join(devs)],
                               stdin_path=beh, timeout=3000)
        summ = [o for o in out if o.get("kind") == "summary"]
        if not summ:
            raise vlib.ToolError("replay_router produced no summary")
        summ = summ[0]
        total_hist += summ["histories"]
        total_states = max(total_states, summ["states"])
        rep.cov["evaluations"] += summ["probes"]
        if variant == 0:
            rep.add_samples(summ["samples"], 3)
            rep.extra["probes_with_several_admissible"] = summ["probes_with_several_admissible"]
        if summ["deviation_explained"]:
            rep.known_finding_seen("host-shadow")
            rep.known[ "host-shadow"]["n"] += summ["deviation_explained"] - 1
        for v in out:
            if v.get("kind") != "violation":
                continue
            rep.violation(v["class"], json.dumps(v["detail"])[:250], v)
    rep.cov["traces_validated_against_impl"] = total_hist
    rep.cov["distinct_nontrivial"] = total_states
    rep.cov["exhaustive"] = True
    rep.cov["rule"] = ("every distinct state of Router.tla with at most %d frontends out of an 84-frontend universe; "
                       "per state: every insertion order of the tree frontends, both pre/post interleavings, detours "
                       "(add+remove of a foreign frontend, remove+re-add of a member, duplicate add, remove of an "
                       "absent one); after each history all 40 probe requests are compared with the spec's admissible "
                       "set and across histories. distinct_nontrivial = distinct spec states replayed" % n_gen)
    rep.assumptions += [
        "hosts, paths, methods range over the small universe of spec/Router.tla; regexes are one label regex and one path regex (no REGEX-vs-REGEX ties, documented as undefined)",
        "where documentation leaves the combination of path-kind and method precedence open, any Pareto-maximal matching frontend is accepted, but it must be the same for every history",
    ]
    rep.finish()
