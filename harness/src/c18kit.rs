//! C18 scaffolding shared by replay_tcp and drive_tcp (included with #[path], not part of the lib):
//! TCP clusters in the three proxy-protocol modes on a real worker, a recording backend,
//! position-coded payloads, and a /proc/net/tcp probe telling when sozu has drained a socket.
#![allow(dead_code)]

use std::io::Read;
use std::net::{Ipv4Addr, Ipv6Addr, SocketAddr, TcpListener, TcpStream};
use std::os::unix::io::AsRawFd;
use std::sync::{Arc, Condvar, Mutex};
use std::time::{Duration, Instant};

use sozu_command_lib::config::ListenerBuilder;
use sozu_command_lib::proto::command::{
    ActivateListener, ListenerType, ProxyProtocolConfig, request::RequestType,
};
use vh::worker::{Worker, free_port, ok};

pub fn mode_of(name: &str) -> Option<ProxyProtocolConfig> {
    match name {
        "send" => Some(ProxyProtocolConfig::SendHeader),
        "expect" => Some(ProxyProtocolConfig::ExpectHeader),
        "relay" => Some(ProxyProtocolConfig::RelayHeader),
        _ => None,
    }
}

pub fn has_ipv6() -> bool {
    TcpListener::bind(SocketAddr::from((Ipv6Addr::LOCALHOST, 0))).is_ok()
}

pub fn free_addr_fam(v6: bool) -> SocketAddr {
    if !v6 {
        return SocketAddr::from((Ipv4Addr::LOCALHOST, free_port()));
    }
    loop {
        let p = free_port();
        let a = SocketAddr::from((Ipv6Addr::LOCALHOST, p));
        if let Ok(l) = TcpListener::bind(a) {
            drop(l);
            return a;
        }
    }
}

pub struct ClusterAddrs {
    pub id: String,
    pub front: SocketAddr,
    pub back: SocketAddr,
}

/// TCP listener (front_timeout in seconds) + cluster in `mode` + frontend + one backend address.
pub fn add_tcp_cluster(
    w: &mut Worker,
    id: &str,
    mode: Option<ProxyProtocolConfig>,
    v6: bool,
    front_timeout: Option<u32>,
) -> Result<ClusterAddrs, String> {
    add_tcp_cluster_ct(w, id, mode, v6, front_timeout, None)
}

/// same, with the listener's connect_timeout (seconds) for backends that accept late
pub fn add_tcp_cluster_ct(
    w: &mut Worker,
    id: &str,
    mode: Option<ProxyProtocolConfig>,
    v6: bool,
    front_timeout: Option<u32>,
    connect_timeout: Option<u32>,
) -> Result<ClusterAddrs, String> {
    let t = Duration::from_secs(5);
    let front = free_addr_fam(v6);
    let back = free_addr_fam(v6);
    let mut lb = ListenerBuilder::new_tcp(front.into());
    lb.with_front_timeout(front_timeout);
    if connect_timeout.is_some() {
        lb.with_connect_timeout(connect_timeout);
    }
    let l = lb.to_tcp(None).map_err(|e| format!("tcp listener: {e}"))?;
    if !ok(&w.request(RequestType::AddTcpListener(l), t)) {
        return Err("AddTcpListener refused".into());
    }
    if !ok(&w.request(
        RequestType::ActivateListener(ActivateListener { address: front.into(), proxy: ListenerType::Tcp.into(), from_scm: false }),
        t,
    )) {
        return Err("ActivateListener refused".into());
    }
    let mut c = Worker::default_cluster(id);
    c.proxy_protocol = mode.map(|m| m as i32);
    if !ok(&w.request(RequestType::AddCluster(c), t)) {
        return Err("AddCluster refused".into());
    }
    if !ok(&w.request(RequestType::AddTcpFrontend(Worker::tcp_frontend(id, front)), t)) {
        return Err("AddTcpFrontend refused".into());
    }
    if !ok(&w.request(RequestType::AddBackend(Worker::backend(id, &format!("{id}-b"), back)), t)) {
        return Err("AddBackend refused".into());
    }
    Ok(ClusterAddrs { id: id.to_string(), front, back })
}

// ---- position code ---------------------------------------------------------------------------

#[inline]
pub fn code(seed: u64, dir: u8, i: u64) -> u8 {
    // splitmix64 of (seed, dir, i): any shift, gap, duplicate or reorder changes bytes
    let mut z = seed ^ ((dir as u64) << 56) ^ i.wrapping_mul(0x9E37_79B9_7F4A_7C15);
    z = (z ^ (z >> 30)).wrapping_mul(0xBF58_476D_1CE4_E5B9);
    z = (z ^ (z >> 27)).wrapping_mul(0x94D0_49BB_1331_11EB);
    (z ^ (z >> 31)) as u8
}

pub fn fill(seed: u64, dir: u8, off: u64, buf: &mut [u8]) {
    for (k, b) in buf.iter_mut().enumerate() {
        *b = code(seed, dir, off + k as u64);
    }
}

/// offset (absolute) of the first byte that differs from the code, or -1
pub fn first_bad(seed: u64, dir: u8, off: u64, buf: &[u8]) -> i64 {
    for (k, b) in buf.iter().enumerate() {
        if *b != code(seed, dir, off + k as u64) {
            return (off + k as u64) as i64;
        }
    }
    -1
}

// ---- socket options --------------------------------------------------------------------------

pub fn set_sockbuf(fd: i32, rcv: Option<usize>, snd: Option<usize>) {
    unsafe {
        if let Some(n) = rcv {
            let v = n as libc::c_int;
            libc::setsockopt(fd, libc::SOL_SOCKET, libc::SO_RCVBUF, &v as *const _ as *const libc::c_void, 4);
        }
        if let Some(n) = snd {
            let v = n as libc::c_int;
            libc::setsockopt(fd, libc::SOL_SOCKET, libc::SO_SNDBUF, &v as *const _ as *const libc::c_void, 4);
        }
    }
}

/// connect with socket buffers set BEFORE the handshake (so that the window is small from the start)
pub fn connect_with_bufs(addr: SocketAddr, rcv: Option<usize>, snd: Option<usize>) -> std::io::Result<TcpStream> {
    use std::os::unix::io::FromRawFd;
    unsafe {
        let fam = if addr.is_ipv4() { libc::AF_INET } else { libc::AF_INET6 };
        let fd = libc::socket(fam, libc::SOCK_STREAM | libc::SOCK_CLOEXEC, 0);
        if fd < 0 {
            return Err(std::io::Error::last_os_error());
        }
        set_sockbuf(fd, rcv, snd);
        let rc = match addr {
            SocketAddr::V4(a) => {
                let sa = libc::sockaddr_in {
                    sin_family: libc::AF_INET as u16,
                    sin_port: a.port().to_be(),
                    sin_addr: libc::in_addr { s_addr: u32::from_ne_bytes(a.ip().octets()) },
                    sin_zero: [0; 8],
                };
                libc::connect(fd, &sa as *const _ as *const libc::sockaddr, std::mem::size_of::<libc::sockaddr_in>() as u32)
            }
            SocketAddr::V6(a) => {
                let mut sa: libc::sockaddr_in6 = std::mem::zeroed();
                sa.sin6_family = libc::AF_INET6 as u16;
                sa.sin6_port = a.port().to_be();
                sa.sin6_addr.s6_addr = a.ip().octets();
                libc::connect(fd, &sa as *const _ as *const libc::sockaddr, std::mem::size_of::<libc::sockaddr_in6>() as u32)
            }
        };
        if rc < 0 {
            let e = std::io::Error::last_os_error();
            libc::close(fd);
            return Err(e);
        }
        Ok(TcpStream::from_raw_fd(fd))
    }
}

// ---- /proc/net/tcp probe ---------------------------------------------------------------------

fn hex_addr(a: &SocketAddr) -> String {
    match a {
        SocketAddr::V4(a) => {
            let o = a.ip().octets();
            format!("{:02X}{:02X}{:02X}{:02X}:{:04X}", o[3], o[2], o[1], o[0], a.port())
        }
        SocketAddr::V6(a) => {
            let o = a.ip().octets();
            let mut s = String::new();
            for w in 0..4 {
                for k in (0..4).rev() {
                    s.push_str(&format!("{:02X}", o[w * 4 + k]));
                }
            }
            format!("{}:{:04X}", s, a.port())
        }
    }
}

/// Bytes waiting in the receive queue of the socket whose local address is `local` and peer is
/// `remote` (for us: sozu's accepted socket). None if the socket does not exist (closed).
/// Exact-match sock_diag lookup over netlink (O(1)); falls back to scanning /proc/net/tcp.
pub fn rx_queue(local: &SocketAddr, remote: &SocketAddr) -> Option<u64> {
    match diag_queues(local, remote) {
        Ok(v) => v.map(|q| q.0),
        Err(()) => proc_rx_queue(local, remote),
    }
}

/// (receive queue, send queue) of the socket local -> remote, through sock_diag only
pub fn queues(local: &SocketAddr, remote: &SocketAddr) -> Option<(u64, u64)> {
    diag_queues(local, remote).ok().flatten()
}

fn ip_words(a: &SocketAddr) -> [u8; 16] {
    let mut w = [0u8; 16];
    match a {
        SocketAddr::V4(x) => w[..4].copy_from_slice(&x.ip().octets()),
        SocketAddr::V6(x) => w.copy_from_slice(&x.ip().octets()),
    }
    w
}

/// Ok(Some(rqueue)) socket found, Ok(None) no such socket, Err(()) netlink unusable here.
fn diag_rx_queue(local: &SocketAddr, remote: &SocketAddr) -> Result<Option<u64>, ()> {
    diag_queues(local, remote).map(|o| o.map(|q| q.0))
}

fn diag_queues(local: &SocketAddr, remote: &SocketAddr) -> Result<Option<(u64, u64)>, ()> {
    const NETLINK_SOCK_DIAG: i32 = 4;
    const SOCK_DIAG_BY_FAMILY: u16 = 20;
    thread_local! { static NL: std::cell::Cell<i32> = const { std::cell::Cell::new(-2) }; }
    let fd = NL.with(|c| {
        if c.get() == -2 {
            let fd = unsafe { libc::socket(libc::AF_NETLINK, libc::SOCK_DGRAM | libc::SOCK_CLOEXEC, NETLINK_SOCK_DIAG) };
            if fd >= 0 {
                let tv = libc::timeval { tv_sec: 0, tv_usec: 200_000 };
                unsafe { libc::setsockopt(fd, libc::SOL_SOCKET, libc::SO_RCVTIMEO, &tv as *const _ as *const libc::c_void, std::mem::size_of::<libc::timeval>() as u32) };
            }
            c.set(fd);
        }
        c.get()
    });
    if fd < 0 {
        return Err(());
    }
    // nlmsghdr(16) + inet_diag_req_v2(56)
    let mut req = [0u8; 72];
    req[0..4].copy_from_slice(&72u32.to_ne_bytes());
    req[4..6].copy_from_slice(&SOCK_DIAG_BY_FAMILY.to_ne_bytes());
    req[6..8].copy_from_slice(&(libc::NLM_F_REQUEST as u16).to_ne_bytes());
    req[8..12].copy_from_slice(&1u32.to_ne_bytes()); // seq
    let r = &mut req[16..];
    r[0] = if local.is_ipv4() { libc::AF_INET as u8 } else { libc::AF_INET6 as u8 };
    r[1] = libc::IPPROTO_TCP as u8;
    r[2] = 0; // ext
    r[4..8].copy_from_slice(&0xFFFF_FFFFu32.to_ne_bytes()); // all states
    // inet_diag_sockid: sport(be16) dport(be16) src[16] dst[16] if(u32) cookie[2](u32)
    r[8..10].copy_from_slice(&local.port().to_be_bytes());
    r[10..12].copy_from_slice(&remote.port().to_be_bytes());
    r[12..28].copy_from_slice(&ip_words(local));
    r[28..44].copy_from_slice(&ip_words(remote));
    r[44..48].copy_from_slice(&0u32.to_ne_bytes());
    r[48..52].copy_from_slice(&0xFFFF_FFFFu32.to_ne_bytes());
    r[52..56].copy_from_slice(&0xFFFF_FFFFu32.to_ne_bytes());
    let mut sa: libc::sockaddr_nl = unsafe { std::mem::zeroed() };
    sa.nl_family = libc::AF_NETLINK as u16;
    let n = unsafe {
        libc::sendto(fd, req.as_ptr() as *const libc::c_void, req.len(), 0, &sa as *const _ as *const libc::sockaddr,
                     std::mem::size_of::<libc::sockaddr_nl>() as u32)
    };
    if n < 0 {
        return Err(());
    }
    let mut buf = [0u8; 4096];
    let n = unsafe { libc::recv(fd, buf.as_mut_ptr() as *mut libc::c_void, buf.len(), 0) };
    if n < 16 {
        return Err(());
    }
    let ty = u16::from_ne_bytes([buf[4], buf[5]]);
    if ty == libc::NLMSG_ERROR as u16 {
        let code = i32::from_ne_bytes([buf[16], buf[17], buf[18], buf[19]]);
        return if code == -libc::ENOENT { Ok(None) } else { Err(()) };
    }
    if ty != SOCK_DIAG_BY_FAMILY || n < 16 + 72 {
        return Err(());
    }
    // inet_diag_msg: family state timer retrans (4) sockid(48) expires(4) rqueue(4) wqueue(4) uid inode
    let m = &buf[16..];
    let rq = u32::from_ne_bytes([m[56], m[57], m[58], m[59]]);
    let wq = u32::from_ne_bytes([m[60], m[61], m[62], m[63]]);
    Ok(Some((rq as u64, wq as u64)))
}

fn proc_rx_queue(local: &SocketAddr, remote: &SocketAddr) -> Option<u64> {
    let path = if local.is_ipv4() { "/proc/net/tcp" } else { "/proc/net/tcp6" };
    let txt = std::fs::read_to_string(path).ok()?;
    let (l, r) = (hex_addr(local), hex_addr(remote));
    for line in txt.lines().skip(1) {
        let mut it = line.split_whitespace();
        let _sl = it.next();
        let la = it.next()?;
        let ra = it.next()?;
        if la == l && ra == r {
            let _st = it.next();
            let q = it.next()?;
            let rx = q.split(':').nth(1)?;
            return u64::from_str_radix(rx, 16).ok();
        }
    }
    None
}

/// Wait until sozu has taken everything out of its side of the client connection (or `max`).
/// Returns true if the queue was seen empty.
pub fn wait_drained(listener: &SocketAddr, client_local: &SocketAddr, max: Duration) -> bool {
    let t0 = Instant::now();
    loop {
        match rx_queue(listener, client_local) {
            Some(0) | None => return true,
            _ => {}
        }
        if t0.elapsed() >= max {
            return false;
        }
        std::thread::sleep(Duration::from_micros(200));
    }
}

/// self-test of the probe: a socket we own with 5 unread bytes must report 5, then 0 after reading
pub fn probe_selftest() -> Result<&'static str, String> {
    use std::io::Write;
    let l = TcpListener::bind("127.0.0.1:0").map_err(|e| e.to_string())?;
    let mut c = TcpStream::connect(l.local_addr().unwrap()).map_err(|e| e.to_string())?;
    let (mut s, _) = l.accept().map_err(|e| e.to_string())?;
    c.write_all(b"hello").unwrap();
    std::thread::sleep(Duration::from_millis(5));
    let (la, ra) = (s.local_addr().unwrap(), s.peer_addr().unwrap());
    let via = if diag_rx_queue(&la, &ra).is_ok() { "netlink" } else { "procfs" };
    let a = rx_queue(&la, &ra);
    let mut b5 = [0u8; 5];
    s.read_exact(&mut b5).unwrap();
    let b = rx_queue(&la, &ra);
    if a == Some(5) && b == Some(0) { Ok(via) } else { Err(format!("probe returned {a:?} then {b:?} via {via}")) }
}

// ---- recording backend -----------------------------------------------------------------------

#[derive(Default)]
pub struct ConnRec {
    pub bytes: Vec<u8>,
    pub eof: bool,
    pub err: Option<String>,
    pub peer: Option<SocketAddr>,
}

#[derive(Default)]
pub struct RecState {
    pub conns: Vec<ConnRec>,
}

/// A backend that accepts every connection and records what it receives (never writes).
pub struct Recorder {
    pub state: Arc<(Mutex<RecState>, Condvar)>,
    pub addr: SocketAddr,
}

impl Recorder {
    pub fn start(addr: SocketAddr) -> std::io::Result<Recorder> {
        let l = TcpListener::bind(addr)?;
        let state: Arc<(Mutex<RecState>, Condvar)> = Arc::new((Mutex::new(RecState::default()), Condvar::new()));
        let st = state.clone();
        std::thread::spawn(move || {
            for s in l.incoming() {
                let Ok(mut s) = s else { continue };
                let idx = {
                    let mut g = st.0.lock().unwrap();
                    g.conns.push(ConnRec { peer: s.peer_addr().ok(), ..Default::default() });
                    st.1.notify_all();
                    g.conns.len() - 1
                };
                let st2 = st.clone();
                std::thread::spawn(move || {
                    let mut buf = [0u8; 16384];
                    loop {
                        match s.read(&mut buf) {
                            Ok(0) => {
                                let mut g = st2.0.lock().unwrap();
                                g.conns[idx].eof = true;
                                st2.1.notify_all();
                                return;
                            }
                            Ok(n) => {
                                let mut g = st2.0.lock().unwrap();
                                g.conns[idx].bytes.extend_from_slice(&buf[..n]);
                                st2.1.notify_all();
                            }
                            Err(e) => {
                                let mut g = st2.0.lock().unwrap();
                                g.conns[idx].err = Some(format!("{:?}", e.kind()));
                                g.conns[idx].eof = true;
                                st2.1.notify_all();
                                return;
                            }
                        }
                    }
                });
            }
        });
        Ok(Recorder { state, addr })
    }

    pub fn count(&self) -> usize {
        self.state.0.lock().unwrap().conns.len()
    }

    /// wait until `pred` holds on the recorder state or the deadline passes; returns pred's value
    pub fn wait<F: Fn(&RecState) -> bool>(&self, max: Duration, pred: F) -> bool {
        let deadline = Instant::now() + max;
        let mut g = self.state.0.lock().unwrap();
        loop {
            if pred(&g) {
                return true;
            }
            let now = Instant::now();
            if now >= deadline {
                return false;
            }
            g = self.state.1.wait_timeout(g, deadline - now).unwrap().0;
        }
    }

    pub fn snapshot(&self, from: usize) -> Vec<(Vec<u8>, bool, Option<String>)> {
        let g = self.state.0.lock().unwrap();
        g.conns[from.min(g.conns.len())..].iter().map(|c| (c.bytes.clone(), c.eof, c.err.clone())).collect()
    }
}

pub fn set_linger0(fd: i32) {
    let l = libc::linger { l_onoff: 1, l_linger: 0 };
    unsafe {
        libc::setsockopt(fd, libc::SOL_SOCKET, libc::SO_LINGER, &l as *const _ as *const libc::c_void, std::mem::size_of::<libc::linger>() as u32);
    }
}

pub fn fd_of(s: &TcpStream) -> i32 {
    s.as_raw_fd()
}

pub fn fd_of_listener(l: &TcpListener) -> i32 {
    l.as_raw_fd()
}

// ---- sockets of the worker threads (they live in this process) -------------------------------
// Pacing only: the kernel buffers of sozu's own sockets are part of the environment (tcp_wmem /
// tcp_rmem of the host); a small send buffer makes "the peer does not take the bytes" reachable
// with kilobytes instead of megabytes. Nothing here is used as an oracle.

fn sockaddr_of(ss: &libc::sockaddr_storage) -> Option<SocketAddr> {
    unsafe {
        match ss.ss_family as i32 {
            libc::AF_INET => {
                let a = &*(ss as *const _ as *const libc::sockaddr_in);
                Some(SocketAddr::from((Ipv4Addr::from(a.sin_addr.s_addr.to_ne_bytes()), u16::from_be(a.sin_port))))
            }
            libc::AF_INET6 => {
                let a = &*(ss as *const _ as *const libc::sockaddr_in6);
                Some(SocketAddr::from((Ipv6Addr::from(a.sin6_addr.s6_addr), u16::from_be(a.sin6_port))))
            }
            _ => None,
        }
    }
}

pub fn sock_pair_of(fd: i32) -> Option<(SocketAddr, SocketAddr)> {
    unsafe {
        let mut ls: libc::sockaddr_storage = std::mem::zeroed();
        let mut l = std::mem::size_of::<libc::sockaddr_storage>() as libc::socklen_t;
        if libc::getsockname(fd, &mut ls as *mut _ as *mut libc::sockaddr, &mut l) != 0 {
            return None;
        }
        let local = sockaddr_of(&ls)?;
        let mut ps: libc::sockaddr_storage = std::mem::zeroed();
        let mut l = std::mem::size_of::<libc::sockaddr_storage>() as libc::socklen_t;
        if libc::getpeername(fd, &mut ps as *mut _ as *mut libc::sockaddr, &mut l) != 0 {
            return None;
        }
        Some((local, sockaddr_of(&ps)?))
    }
}

/// the descriptor (of any thread of this process) of the TCP connection local -> peer
pub fn find_fd(local: SocketAddr, peer: SocketAddr) -> Option<i32> {
    let dir = std::fs::read_dir("/proc/self/fd").ok()?;
    for e in dir.flatten() {
        if let Some(fd) = e.file_name().to_str().and_then(|n| n.parse::<i32>().ok()) {
            if sock_pair_of(fd) == Some((local, peer)) {
                return Some(fd);
            }
        }
    }
    None
}

pub fn find_fd_within(local: SocketAddr, peer: SocketAddr, timeout: Duration) -> Option<i32> {
    let t0 = Instant::now();
    loop {
        if let Some(fd) = find_fd(local, peer) {
            return Some(fd);
        }
        if t0.elapsed() >= timeout {
            return None;
        }
        std::thread::sleep(Duration::from_millis(2));
    }
}

/// SO_SNDBUF of the worker's socket local -> peer (only while the descriptor still is that connection).
/// Returns the value the kernel reports afterwards.
pub fn shrink_sndbuf(local: SocketAddr, peer: SocketAddr, bytes: usize, timeout: Duration) -> Option<i32> {
    let fd = find_fd_within(local, peer, timeout)?;
    if sock_pair_of(fd) != Some((local, peer)) {
        return None;
    }
    let want = bytes as libc::c_int;
    let mut v: libc::c_int = 0;
    let mut l = 4 as libc::socklen_t;
    unsafe {
        libc::setsockopt(fd, libc::SOL_SOCKET, libc::SO_SNDBUF, &want as *const _ as *const libc::c_void, 4);
        libc::getsockopt(fd, libc::SOL_SOCKET, libc::SO_SNDBUF, &mut v as *mut _ as *mut libc::c_void, &mut l);
    }
    Some(v)
}

/// bytes written to the socket that the peer's kernel has not acknowledged yet
pub fn outq(fd: i32) -> Option<u64> {
    let mut v: libc::c_int = 0;
    if unsafe { libc::ioctl(fd, libc::TIOCOUTQ, &mut v) } == 0 { Some(v.max(0) as u64) } else { None }
}

/// bytes received and not read
pub fn inq(fd: i32) -> Option<u64> {
    let mut v: libc::c_int = 0;
    if unsafe { libc::ioctl(fd, libc::FIONREAD, &mut v) } == 0 { Some(v.max(0) as u64) } else { None }
}

// ---- a backend whose accept queue can be held full -------------------------------------------
// listen(fd, 0) leaves room for exactly one established connection; while the gate is closed that
// place is taken by a filler connection of our own, so the SYN of sozu is dropped by the kernel
// (tcp_abort_on_overflow = 0) and retransmitted 1 s, 3 s, 7 s ... later: sozu's non-blocking
// connect() stays pending, exactly as towards a slow or distant backend.

pub struct GatedRecorder {
    pub rec: Recorder,
    gate: Arc<(Mutex<bool>, Condvar)>,
    filler: Mutex<Option<TcpStream>>,
}

impl GatedRecorder {
    pub fn start(addr: SocketAddr) -> std::io::Result<GatedRecorder> {
        let l = TcpListener::bind(addr)?;
        unsafe { libc::listen(l.as_raw_fd(), 0) };
        let state: Arc<(Mutex<RecState>, Condvar)> = Arc::new((Mutex::new(RecState::default()), Condvar::new()));
        let gate: Arc<(Mutex<bool>, Condvar)> = Arc::new((Mutex::new(true), Condvar::new()));
        let (st, g2) = (state.clone(), gate.clone());
        l.set_nonblocking(true)?;
        std::thread::spawn(move || {
            loop {
                // accept only while holding the gate: once hold() has the lock nothing is accepted any more
                let got = {
                    let mut open = g2.0.lock().unwrap();
                    while !*open {
                        open = g2.1.wait(open).unwrap();
                    }
                    l.accept()
                };
                let Ok((mut s, peer)) = got else {
                    std::thread::sleep(Duration::from_micros(500));
                    continue;
                };
                let _ = s.set_nonblocking(false);
                let idx = {
                    let mut g = st.0.lock().unwrap();
                    g.conns.push(ConnRec { peer: Some(peer), ..Default::default() });
                    st.1.notify_all();
                    g.conns.len() - 1
                };
                let st2 = st.clone();
                std::thread::spawn(move || {
                    let mut buf = [0u8; 16384];
                    loop {
                        match s.read(&mut buf) {
                            Ok(0) => {
                                let mut g = st2.0.lock().unwrap();
                                g.conns[idx].eof = true;
                                st2.1.notify_all();
                                return;
                            }
                            Ok(n) => {
                                let mut g = st2.0.lock().unwrap();
                                g.conns[idx].bytes.extend_from_slice(&buf[..n]);
                                st2.1.notify_all();
                            }
                            Err(e) => {
                                let mut g = st2.0.lock().unwrap();
                                g.conns[idx].err = Some(format!("{:?}", e.kind()));
                                g.conns[idx].eof = true;
                                st2.1.notify_all();
                                return;
                            }
                        }
                    }
                });
            }
        });
        Ok(GatedRecorder { rec: Recorder { state, addr }, gate, filler: Mutex::new(None) })
    }

    /// Stop accepting and fill the accept queue. Returns false if the queue could not be filled
    /// (then a later connection would simply succeed: the behaviour degenerates to a fast connect).
    pub fn hold(&self) -> bool {
        *self.gate.0.lock().unwrap() = false;
        match TcpStream::connect_timeout(&self.rec.addr, Duration::from_millis(1000)) {
            Ok(f) => {
                *self.filler.lock().unwrap() = Some(f);
                true
            }
            Err(_) => false,
        }
    }

    /// Accept again (the filler is accepted first and closed by us).
    pub fn release(&self) {
        if let Some(f) = self.filler.lock().unwrap().take() {
            drop(f);
        }
        *self.gate.0.lock().unwrap() = true;
        self.gate.1.notify_all();
    }
}
