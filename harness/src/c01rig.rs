//! C01 rig: the worker with its listeners / clusters, the backend servers, the plan generator and the
//! execution of one run (one client connection carrying 1..8 request/response exchanges).
#![allow(dead_code)]

use std::net::{SocketAddr, TcpListener};
use std::os::unix::io::AsRawFd;
use std::sync::atomic::Ordering;
use std::sync::{Arc, Mutex};
use std::time::{Duration, Instant};

use serde_json::{Value, json};
use sozu_command_lib::config::ListenerBuilder;
use sozu_command_lib::proto::command::{ActivateListener, AddCertificate, CertificateAndKey, Cluster, ListenerType, Status, request::RequestType};
use vh::worker::{LOCAL_CERT, LOCAL_KEY, Worker, free_addr, ok};

use crate::h2peer::H2Peer;
use crate::kit::*;
use crate::peers::*;

/// "h2d": h2c backend of the full-duplex schedules - wide windows (only the socket ever blocks sozu) and a small
/// SO_RCVBUF set on the listener, so that a backend that stops reading really blocks sozu's write
pub const CLUSTERS: [&str; 4] = ["h1", "h2a", "h2b", "h2d"];
pub const DUPLEX_RCVBUF: usize = 128 * 1024;

// ------------------------------------------------------------------------------------------------
// park snapshots (hook mux_ready_exit): the last snapshot of every session, and a projection of every
// snapshot onto the fields Quiescent_OK talks about (written to --parks-out for Trace_Relay).

pub struct Parks {
    pub last: std::collections::HashMap<String, (u64, String, String, String)>,
    pub seq: u64,
    pub out: Option<std::io::BufWriter<std::fs::File>>,
    pub written: u64,
    pub distinct: std::collections::HashSet<u64>,
    /// client addresses of the sessions whose Mux::ready ran out of its iteration budget
    pub budget: std::collections::HashSet<String>,
    /// client address -> the last snapshot of that session that showed the head-of-line cycle
    pub hol: std::collections::HashMap<String, (u64, String, String, String)>,
    /// snapshots showing an HTTP/2 connection with a stream frame half-written (`ew` = a stream) and WINDOW_UPDATEs
    /// queued behind it / an answer deferred in the zero buffer with the reads parked (coverage of the full-duplex schedules)
    pub half_wu: u64,
    pub half_zero: u64,
}
pub static PARKS: Mutex<Option<Parks>> = Mutex::new(None);

fn kv<'a>(s: &'a str, key: &str) -> Option<&'a str> {
    s.split(' ').find_map(|p| p.strip_prefix(key).and_then(|r| r.strip_prefix('=')))
}
fn kvi(s: &str, key: &str) -> i64 {
    kv(s, key).and_then(|v| v.parse().ok()).unwrap_or(0)
}
/// "mt/b3/o2/a100" -> (phase letters, blocks, out, available)
fn kawa_of(s: &str) -> (String, i64, i64, i64) {
    let mut it = s.split('/');
    let ph = it.next().unwrap_or("").to_string();
    let n = |x: Option<&str>| x.and_then(|v| v[1..].parse::<i64>().ok()).unwrap_or(0);
    let b = n(it.next());
    let o = n(it.next());
    let a = n(it.next());
    (ph, b, o, a)
}

/// projection of one snapshot: one record per (open stream, direction) that holds sendable bytes inside sozu
pub fn project_park(front: &str, backs: &str, streams: &str) -> Vec<Value> {
    const READABLE: i64 = 1;
    const WRITABLE: i64 = 2;
    let mut out = Vec::new();
    let ftok = kvi(front, "tok");
    let find_back = |tok: i64| backs.split(';').find(|b| kvi(b, "tok") == tok && !b.is_empty());
    for st in streams.split(';').filter(|x| !x.is_empty()) {
        let gid = kvi(st, "gid");
        let link = kvi(st, "link");
        let fwin = kvi(st, "win");
        let bwin = kv(st, "bwin").and_then(|v| v.parse::<i64>().ok()).unwrap_or(fwin);
        for dir in 0..2 {
            let win = if dir == 0 { bwin } else { fwin };
            // dir 0: request, written by the backend endpoint from `front`; dir 1: response, written by the frontend from `back`
            let (ph, blocks, o, _avail) = kawa_of(kv(st, if dir == 0 { "front" } else { "back" }).unwrap_or(""));
            let sendable = (ph.contains('m') || ph.contains('t') || ph.contains('e')) && (blocks > 0 || o > 0);
            if !sendable {
                continue;
            }
            let ep = if dir == 1 { Some(front) } else if link >= 0 { find_back(link) } else { None };
            let Some(ep) = ep else { continue };
            let h2 = kv(ep, "proto") == Some("h2");
            let int = kvi(ep, "int");
            let ev = kvi(ep, "ev");
            let cwin = kvi(ep, "cwin");
            let winblocked = h2 && win.min(cwin) <= 0 && o == 0;
            let st = kv(ep, "st").unwrap_or("");
            // an HTTP/2 connection still exchanging SETTINGS (or already closing) writes no stream data
            let handshake = h2 && matches!(st, "ClientPreface" | "ClientSettings" | "ServerSettings");
            let closing = h2 && matches!(st, "GoAway" | "Error");
            // the connection-wide read is parked on a stream without buffer room (open finding HolBlocking)
            let rparked = h2 && int & READABLE == 0 && kvi(ep, "er") >= 0;
            // the zero (control-frame) buffer is marked for writing although this stream's frame is only partly on the
            // wire: whatever is flushed next lands inside that frame (H2Wire!P_Markers: expect = "zero" => curf = 0)
            let halfzero = h2 && kvi(ep, "ew") == -1 && o > 0 && !closing;
            out.push(json!({"gid": gid, "dir": dir_name(dir as u8), "h2": h2, "wint": int & WRITABLE != 0, "wev": ev & WRITABLE != 0, "rint": int & READABLE != 0,
                "winblocked": winblocked, "blocks": blocks, "out": o, "win": win, "cwin": cwin, "ep": kvi(ep, "tok"), "front": ftok, "tls": kvi(ep, "tls") != 0,
                "dead": ev & 12 != 0, "handshake": handshake, "closing": closing, "rparked": rparked, "halfzero": halfzero, "ew": kvi(ep, "ew"), "st": st}));
        }
    }
    out
}

pub fn install_park_sink(path: Option<&str>) {
    let out = path.map(|p| std::io::BufWriter::new(std::fs::File::create(p).expect("parks file")));
    *PARKS.lock().unwrap() = Some(Parks { last: Default::default(), seq: 0, out, written: 0, distinct: Default::default(), budget: Default::default(), hol: Default::default(), half_wu: 0, half_zero: 0 });
    sozu_lib::verif::install(Box::new(|e| {
        if e.kind == "mux_loop_budget" {
            let peer = e.strs.iter().find(|(n, _)| *n == "peer").map(|(_, v)| v.clone()).unwrap_or_default();
            if let Some(p) = PARKS.lock().unwrap().as_mut() {
                p.budget.insert(peer);
            }
            return;
        }
        if e.kind != "mux_ready_exit" {
            return;
        }
        let get = |k: &str| e.strs.iter().find(|(n, _)| *n == k).map(|(_, v)| v.clone()).unwrap_or_default();
        let (front, backs, streams) = (get("front"), get("backs"), get("streams"));
        let peer = get("peer");
        let mut g = PARKS.lock().unwrap();
        if let Some(p) = g.as_mut() {
            p.seq += 1;
            let seq = p.seq;
            for ep in std::iter::once(front.as_str()).chain(backs.split(';')) {
                if kv(ep, "proto") == Some("h2") && kvi(ep, "ew") >= 0 {
                    if kvi(ep, "wu") > 0 {
                        p.half_wu += 1;
                    }
                    if kvi(ep, "zero") > 0 && kvi(ep, "int") & 1 == 0 {
                        p.half_zero += 1;
                    }
                }
            }
            if p.out.is_some() {
                let recs = project_park(&front, &backs, &streams);
                if !recs.is_empty() {
                    // identical projections (up to identities and counts) are written once
                    let sig: Vec<String> = recs.iter().map(|r| format!("{}{}{}{}{}{}{}{}{}{}", r["dir"], r["h2"], r["wint"], r["wev"], r["rint"], r["winblocked"], r["dead"], r["handshake"], r["closing"], r["rparked"])).chain(recs.iter().filter(|r| r["halfzero"] == true).map(|_| "halfzero".to_string())).collect();
                    let h = mix(sig.join("|").bytes().fold(0u64, |a, b| a.wrapping_mul(131).wrapping_add(b as u64)));
                    if p.distinct.insert(h) || p.written < 300 || seq % 97 == 0 {
                        use std::io::Write;
                        let line = json!({"ev":"Park","seq":seq,"eps":recs,"front":front,"backs":backs,"streams":streams});
                        let _ = writeln!(p.out.as_mut().unwrap(), "{}", line);
                        p.written += 1;
                    }
                }
            }
            if hol_cycle(&front, &backs, &streams) {
                p.hol.insert(peer.clone(), (seq, front.clone(), backs.clone(), streams.clone()));
                if p.hol.len() > 20_000 {
                    p.hol.clear();
                }
            }
            p.last.insert(peer, (seq, front, backs, streams));
            if p.last.len() > 20_000 {
                let cut = seq.saturating_sub(200_000);
                p.last.retain(|_, v| v.0 >= cut);
            }
        }
    }));
}

/// last snapshot of the session whose client socket is `peer`, with the head-of-line verdict
pub fn park_of(peer: &str) -> Option<Value> {
    let g = PARKS.lock().unwrap();
    let p = g.as_ref()?;
    // a session that was seen in the head-of-line cycle stays flagged: later snapshots show its teardown
    if let Some(s) = p.hol.get(peer) {
        return Some(json!({"seq":s.0,"front":s.1,"backs":s.2,"streams":s.3,"hol":true}));
    }
    let s = p.last.get(peer)?;
    Some(json!({"seq":s.0,"front":s.1,"backs":s.2,"streams":s.3,"hol":false}))
}

/// both the frontend H2 connection and an H2 backend connection have stopped reading because the stream
/// their next DATA frame belongs to has no buffer room (the connection-wide read is parked)
pub fn hol_cycle(front: &str, backs: &str, streams: &str) -> bool {
    let parked = |ep: &str, field: &str| -> bool {
        // neither reading nor writing: the connection waits for a buffer that only the other one can free
        if kv(ep, "proto") != Some("h2") || kvi(ep, "int") & 3 != 0 {
            return false;
        }
        let gid = kvi(ep, "er");
        if gid < 0 {
            return false;
        }
        let amount = kvi(ep, "era");
        streams.split(';').any(|st| kvi(st, "gid") == gid && kv(st, "gid").is_some() && kawa_of(kv(st, field).unwrap_or("")).3 < amount)
    };
    parked(front, "front") && backs.split(';').any(|b| !b.is_empty() && parked(b, "back"))
}
pub fn budget_hit(peer: &str) -> bool {
    PARKS.lock().unwrap().as_ref().map(|p| p.budget.contains(peer)).unwrap_or(false)
}
pub fn half_frame_counts() -> (u64, u64) {
    PARKS.lock().unwrap().as_ref().map(|p| (p.half_wu, p.half_zero)).unwrap_or((0, 0))
}
pub fn park_counts() -> (u64, u64, usize) {
    let mut g = PARKS.lock().unwrap();
    match g.as_mut() {
        Some(p) => {
            if let Some(o) = p.out.as_mut() {
                use std::io::Write;
                let _ = o.flush();
            }
            (p.seq, p.written, p.distinct.len())
        }
        None => (0, 0, 0),
    }
}

pub struct Rig {
    /// listeners of the clusters "m1" (HTTP/1.1) and "m2" (h2c) whose backend side is played by the caller itself
    pub manual: Mutex<Vec<TcpListener>>,
    pub worker: Mutex<Worker>,
    pub http: SocketAddr,
    pub https: SocketAddr,
    pub sh: Arc<Shared>,
    pub buffer_size: u64,
}

pub struct RunResult {
    pub error: Option<String>,
    pub inconclusive: bool,
    pub kind: String,
    pub classes: Vec<String>,
    pub bytes: u64,
    pub summary: Value,
    /// (msg header, sender events, receiver events)
    pub msgs: Vec<(Value, Vec<Value>, Vec<Value>)>,
}

fn serve_backend(listener: TcpListener, sh: Arc<Shared>, h2: Option<(u32, u32, u32)>) {
    std::thread::Builder::new().name("c01-accept".into()).spawn(move || {
        for s in listener.incoming() {
            let Ok(s) = s else { continue };
            let sh = sh.clone();
            sh.backend_conns.fetch_add(1, Ordering::Relaxed);
            let _ = std::thread::Builder::new().name("c01-backend".into()).stack_size(512 * 1024).spawn(move || {
                let fd = s.as_raw_fd();
                let mut io = PlainIo::new(s);
                let mon = sh.mon.clone();
                match h2 {
                    None => {
                        let mut m = H1Backend::new(sh, fd);
                        run_conn(&mut io, &mut m, mon);
                    }
                    Some((w, mf, cw)) => {
                        let mut m = H2Peer::server(sh, w, mf, cw);
                        m.ping_every = 50_000;
                        run_conn(&mut io, &mut m, mon);
                    }
                }
                set_linger0(fd);
            });
        }
    }).expect("accept thread");
}

/// vh::worker::Worker::start with sozu's (thread-local) logger initialised inside the worker thread
fn start_worker_logged(name: &str, config: sozu_command_lib::proto::command::ServerConfig, level: &str) -> Worker {
    use mio::net::UnixStream;
    use sozu_command_lib::channel::Channel;
    use sozu_command_lib::proto::command::{WorkerRequest, WorkerResponse};
    use sozu_command_lib::scm_socket::{Listeners, ScmSocket};
    use std::os::unix::io::{AsRawFd, IntoRawFd};
    let (scm_m2w, scm_w2m) = UnixStream::pair().expect("unix pair");
    let (cmd_m2w, cmd_w2m): (Channel<WorkerRequest, WorkerResponse>, Channel<WorkerResponse, WorkerRequest>) =
        Channel::generate(config.command_buffer_size, config.max_command_buffer_size).expect("channel");
    for fd in [scm_m2w.as_raw_fd(), scm_w2m.as_raw_fd()] {
        unsafe {
            let old = libc::fcntl(fd, libc::F_GETFD);
            libc::fcntl(fd, libc::F_SETFD, old & !1);
        }
    }
    let scm_m2w = ScmSocket::new(scm_m2w.into_raw_fd()).expect("scm");
    let scm_w2m = ScmSocket::new(scm_w2m.into_raw_fd()).expect("scm");
    scm_m2w.send_listeners(&Listeners::default()).expect("send listeners");
    let state = sozu_command_lib::state::ConfigState::new();
    let thread_config = config.clone();
    let initial_state = state.produce_initial_state();
    let thread_scm = scm_w2m.to_owned();
    let level = level.to_string();
    let job = std::thread::Builder::new().name(name.to_string()).spawn(move || {
        let _ = sozu_command_lib::logging::setup_default_logging(false, &level, "C01");
        let mut server = sozu_lib::server::Server::try_new_from_config(cmd_w2m, thread_scm, thread_config, initial_state, false).expect("could not create sozu worker");
        server.run();
    }).expect("spawn worker");
    Worker { name: name.to_string(), config, state, scm_main_to_worker: scm_m2w, scm_worker_to_main: scm_w2m, channel: cmd_m2w, next_id: 0, job: Some(job), backlog: Vec::new() }
}

impl Rig {
    pub fn start(name: &str, buffer_size: u64) -> Result<Rig, String> {
        let t = Duration::from_secs(20);
        let cfg = vh::worker::server_config(|fc| {
            fc.buffer_size = Some(buffer_size);
            fc.max_buffers = Some(4000);
            fc.min_buffers = Some(1);
            fc.max_connections = Some(4000);
        });
        let mut w = match std::env::var("C01_SOZU_LOG") {
            Ok(level) => start_worker_logged(name, cfg, &level),
            Err(_) => Worker::start(name, cfg, &sozu_command_lib::scm_socket::Listeners::default(), sozu_command_lib::state::ConfigState::new()),
        };
        let http = free_addr();
        let https = free_addr();
        let tune = |b: &mut ListenerBuilder| {
            // generous timeouts: the harness decides about stalls (12 s without progress and an idle worker)
            // (30 min: on a loaded machine a body crawling towards a 512-byte reader, or 1 500 window round trips, outlive 3 min)
            b.front_timeout = Some(1800);
            b.back_timeout = Some(1800);
            b.request_timeout = Some(1200);
            b.connect_timeout = Some(30);
            b.h2_stream_idle_timeout_seconds = Some(1800);
            b.h2_max_window_update_stream0_per_window = Some(1_000_000);
            b.h2_max_glitch_count = Some(1_000_000);
            b.h2_max_empty_data_per_window = Some(1_000_000);
            b.h2_max_ping_per_window = Some(1_000_000);
        };
        let mut b = ListenerBuilder::new_http(http.into());
        tune(&mut b);
        let l = b.to_http(None).map_err(|e| format!("http listener: {e}"))?;
        let a1 = w.request(RequestType::AddHttpListener(l), t);
        let a2 = w.request(RequestType::ActivateListener(ActivateListener { address: http.into(), proxy: ListenerType::Http.into(), from_scm: false }), t);
        let mut b = ListenerBuilder::new_https(https.into());
        tune(&mut b);
        let l = b.to_tls(None).map_err(|e| format!("https listener: {e}"))?;
        let a3 = w.request(RequestType::AddHttpsListener(l), t);
        let a4 = w.request(RequestType::ActivateListener(ActivateListener { address: https.into(), proxy: ListenerType::Https.into(), from_scm: false }), t);
        let a5 = w.request(RequestType::AddCertificate(AddCertificate {
            address: https.into(),
            certificate: CertificateAndKey { certificate: LOCAL_CERT.to_string(), key: LOCAL_KEY.to_string(), certificate_chain: vec![], versions: vec![], names: vec![] },
            expired_at: None,
        }), t);
        if !(ok(&a1) && ok(&a2) && ok(&a3) && ok(&a4) && ok(&a5)) {
            return Err(format!("listener setup failed: {:?}", [ok(&a1), ok(&a2), ok(&a3), ok(&a4), ok(&a5)]));
        }
        let log = Log::new();
        let reg: Registry = Arc::new(Mutex::new(Default::default()));
        let mon = IdleMon::start(name);
        let sh = Shared::new(log, reg, mon);
        for (i, c) in CLUSTERS.iter().enumerate() {
            let id = format!("c01-{c}");
            let back = free_addr();
            let listener = TcpListener::bind(back).map_err(|e| format!("bind backend: {e}"))?;
            if i == 3 {
                set_sockbuf(listener.as_raw_fd(), Some(DUPLEX_RCVBUF), None);
            }
            let cl = Cluster { cluster_id: id.clone(), http2: if i == 0 { None } else { Some(true) }, ..Default::default() };
            let r1 = w.request(RequestType::AddCluster(cl), t);
            let r2 = w.request(RequestType::AddHttpFrontend(Worker::http_frontend(&id, http, "localhost", &format!("/{c}/"))), t);
            let r3 = w.request(RequestType::AddHttpsFrontend(Worker::http_frontend(&id, https, "localhost", &format!("/{c}/"))), t);
            let r4 = w.request(RequestType::AddBackend(Worker::backend(&id, &format!("{id}-b"), back)), t);
            if !(ok(&r1) && ok(&r2) && ok(&r3) && ok(&r4)) {
                return Err(format!("cluster {id} setup failed: {:?}", [ok(&r1), ok(&r2), ok(&r3), ok(&r4)]));
            }
            let h2 = match i {
                0 => None,
                1 => Some((65535u32, 16384u32, 1 << 20)),
                2 => Some((20000u32, 16384u32, 65535u32)),
                _ => Some((1u32 << 30, 16384u32, 1u32 << 30)),
            };
            serve_backend(listener, sh.clone(), h2);
        }
        let mut manual = Vec::new();
        for (c, h2) in [("m1", false), ("m2", true)] {
            let id = format!("c01-{c}");
            let back = free_addr();
            let listener = TcpListener::bind(back).map_err(|e| format!("bind backend: {e}"))?;
            let cl = Cluster { cluster_id: id.clone(), http2: if h2 { Some(true) } else { None }, ..Default::default() };
            let r1 = w.request(RequestType::AddCluster(cl), t);
            let r2 = w.request(RequestType::AddHttpFrontend(Worker::http_frontend(&id, http, "localhost", &format!("/{c}/"))), t);
            let r3 = w.request(RequestType::AddHttpsFrontend(Worker::http_frontend(&id, https, "localhost", &format!("/{c}/"))), t);
            let r4 = w.request(RequestType::AddBackend(Worker::backend(&id, &format!("{id}-b"), back)), t);
            if !(ok(&r1) && ok(&r2) && ok(&r3) && ok(&r4)) {
                return Err(format!("cluster {id} setup failed"));
            }
            manual.push(listener);
        }
        Ok(Rig { manual: Mutex::new(manual), worker: Mutex::new(w), http, https, sh, buffer_size })
    }

    pub fn worker_dead(&self) -> bool {
        self.worker.lock().unwrap().is_finished()
    }

    pub fn worker_problem(&self) -> Option<String> {
        let mut w = self.worker.lock().unwrap();
        if w.is_finished() {
            return Some(match w.join_within(Duration::from_millis(200)) {
                Err(m) => format!("worker thread panicked: {m}"),
                Ok(_) => "worker thread exited".to_string(),
            });
        }
        // a wedged (spinning) worker answers nothing; generous deadline because the machine may be loaded
        if w.request(RequestType::Status(Status {}), Duration::from_secs(60)).is_none() {
            return Some("worker does not answer Status within 60 s".to_string());
        }
        None
    }

    pub fn execute(&self, plan: RunPlan) -> RunResult {
        let plan = Arc::new(plan);
        let run = plan.run;
        self.sh.reg.lock().unwrap().insert(run, plan.clone());
        let cluster = if !plan.back_h2 { "h1" } else if plan.back_variant == 0 { "h2a" } else if plan.back_variant == 2 { "h2d" } else { "h2b" };
        let kind = format!("{}->{}", if plan.front_h2 { "h2" } else { "h1" }, if plan.back_h2 { "h2c" } else { "h1" });
        let mut error: Option<String> = None;
        let mut outcome = Outcome::Closed;
        let mut foreign: Vec<(u32, String)> = Vec::new();
        let mut proto_err: Vec<String> = Vec::new();
        let mut goaway: Option<(u32, u32)> = None;
        let mut local_addr = String::new();
        if plan.front_h2 {
            let rcvbuf = plan.streams[0].client_read.rcvbuf;
            match TlsIo::connect(self.https, "localhost", &[b"h2"], rcvbuf, Duration::from_secs(60)) {
                Ok(mut io) => {
                    local_addr = io.sock.local_addr().map(|a| a.to_string()).unwrap_or_default();
                    if io.alpn().as_deref() != Some(b"h2".as_slice()) {
                        error = Some("ALPN did not select h2".into());
                    } else {
                        let cw = if plan.client_hold.is_some() { 1 << 30 } else if mix(plan.seed ^ 0xc0) % 3 == 0 { 65535 } else { 1 << 20 };
                        let mut m = H2Peer::client(self.sh.clone(), plan.clone(), cluster, cw);
                        if mix(plan.seed ^ 0x91) % 3 == 0 && plan.ping_every == 0 {
                            m.ping_every = 20_000 + mix(plan.seed ^ 0x92) % 60_000;
                        }
                        outcome = run_conn(&mut io, &mut m, self.sh.mon.clone());
                        foreign = m.foreign_answers.clone();
                        proto_err = m.protocol_errors.clone();
                        goaway = m.goaway;
                        io.abort();
                    }
                }
                Err(e) => error = Some(format!("tls connect: {e}")),
            }
        } else {
            let rcvbuf = plan.streams[0].client_read.rcvbuf;
            match connect_plain(self.http, rcvbuf, Duration::from_secs(60)) {
                Ok(s) => {
                    local_addr = s.local_addr().map(|a| a.to_string()).unwrap_or_default();
                    let mut io = PlainIo::new(s);
                    let mut m = H1Client::new(self.sh.clone(), plan.clone(), cluster);
                    outcome = run_conn(&mut io, &mut m, self.sh.mon.clone());
                    foreign = m.foreign_answers.iter().map(|(i, c)| (*i, c.to_string())).collect();
                    io.abort();
                }
                Err(e) => error = Some(format!("connect: {e}")),
            }
        }
        // the backend-side observers of this run finish on their own (end of message, end of connection, or their own watchdog)
        let t0 = Instant::now();
        let mut backend_pending = false;
        while self.sh.active_of(run) > 0 {
            if t0.elapsed() > STALL_AFTER + HARD_CAP {
                backend_pending = true;
                break;
            }
            std::thread::sleep(Duration::from_millis(5));
        }
        self.sh.reg.lock().unwrap().remove(&run);
        let evs_stalled = self.sh.log.evs.lock().unwrap().iter().any(|e| e.0.run == run && (e.2["k"] == "stall" || e.2["k"] == "sendstall"));
        let park = if outcome == Outcome::Stalled || evs_stalled { park_of(&local_addr) } else { None };
        let park_hol = park.as_ref().map(|p| p["hol"] == true).unwrap_or(false);
        // the iteration budget is an open finding only when the peers really supplied a burst of thousands of frames;
        // a session that burns its budget without that much input is spinning (a different defect)
        let frames = self.sh.take_frames(run);
        let budget_hook = budget_hit(&local_addr);
        let budget_kill = budget_hook && frames >= 3000;
        let evs = self.sh.log.take_run(run);
        let inconclusive = outcome == Outcome::Inconclusive || backend_pending || self.sh.inconclusive.lock().unwrap().contains(&run);
        let mut msgs = Vec::new();
        let mut bytes = 0u64;
        let mut classes = Vec::new();
        let ended = |v: &Vec<Value>, k: &str, kind: Option<&str>| v.iter().any(|e| e["k"] == k && kind.map(|x| e["kind"] == x).unwrap_or(true));
        for sp in &plan.streams {
            let mut per_dir: Vec<(Vec<Value>, Vec<Value>)> = Vec::new();
            for d in 0..2u8 {
                let key = MsgKey { run, stream: sp.idx, dir: d };
                let sev: Vec<Value> = evs.iter().filter(|e| e.0 == key && e.1 == 0).map(|e| e.2.clone()).collect();
                let rev: Vec<Value> = evs.iter().filter(|e| e.0 == key && e.1 == 1).map(|e| e.2.clone()).collect();
                per_dir.push((sev, rev));
            }
            for d in 0..2usize {
                let (sev, mut rev) = per_dir[d].clone();
                let mp = if d == 0 { &sp.req } else { &sp.resp };
                let rp = if d == 0 { &sp.backend_read } else { &sp.client_read };
                let companion_aborted = ended(&per_dir[1 - d].0, "endsent", Some("abort"));
                if ended(&sev, "endsent", Some("clean")) && !rev.iter().any(|e| e["k"] == "endrcvd" || e["k"] == "stall") && !inconclusive {
                    rev.push(json!({"ev":"Missing","k":"missing","run":run,"s":sp.idx,"d":dir_name(d as u8),
                        "why": format!("the sender ended the message cleanly, the receiver never saw its end (client connection outcome {:?}, foreign answers {:?}, goaway {:?})", outcome, foreign, goaway)}));
                }
                bytes += sev.iter().filter(|e| e["k"] == "sent").map(|e| e["len"].as_u64().unwrap_or(0)).sum::<u64>();
                classes.push(format!("{kind}/{}/{:?}/{}/{}", dir_name(d as u8), mp.framing, size_class(mp.size, self.buffer_size), rp.rdelay_us > 0 || rp.h2_window < 65535));
                // full-duplex runs: no sender of the plan ever gives up and the plan is built so that the harness peers never give
                // up by themselves either (Relay with Aborts = FALSE): a sender that is cut was cut by sozu
                let no_aborts = (plan.client_hold.is_some() || plan.backend_hold.is_some()) && plan.streams.iter().all(|s| s.req.abort_at.is_none() && s.resp.abort_at.is_none());
                let hdr = json!({"ev":"msg","run":run,"s":sp.idx,"d":dir_name(d as u8),"ns":sev.len(),"nr":rev.len(),"pair":kind,"nstreams":plan.streams.len(),"no_aborts":no_aborts,
                    "companion_aborted":companion_aborted,"park_hol":park_hol,"budget_kill":budget_kill,"budget_hook":budget_hook,"frames":frames,"park":park.as_ref().map(|p| format!("{} || {} || {}", p["front"].as_str().unwrap_or(""), p["backs"].as_str().unwrap_or(""), p["streams"].as_str().unwrap_or(""))).unwrap_or_default(),"msg":msg_json(mp),"reader":read_json(rp),"cluster":cluster,"seed":plan.seed.to_string()});
                msgs.push((hdr, sev, rev));
            }
        }
        let summary = json!({"run":run,"pair":kind,"park":park,"budget_kill":budget_kill,"budget_hook":budget_hook,"frames":frames,"streams":plan.streams.len(),"bytes":bytes,"outcome":format!("{:?}", outcome),
            "sizes": plan.streams.iter().map(|s| json!([s.req.size, s.resp.size])).collect::<Vec<_>>(),
            "foreign_answers":foreign,"protocol_errors":proto_err,"goaway":goaway});
        RunResult { error, inconclusive, kind, classes, bytes, summary, msgs }
    }
}

fn size_class(n: u64, b: u64) -> &'static str {
    if n == 0 { "0" } else if n < 100 { "tiny" } else if n + 9 < b.min(16384) { "sub" } else if n <= b.max(16393) + 9 { "buf" } else if n <= 66000 { "win" } else if n < 1_000_000 { "mid" } else { "big" }
}

pub fn pick_size(rng: &mut Rng, b: u64, big: bool) -> u64 {
    let around = |rng: &mut Rng, x: u64| -> u64 { (x as i64 + rng.pick(&[0i64, 1, -1, 9, -9])) .max(0) as u64 };
    match rng.below(if big { 14 } else { 12 }) {
        0 => 0,
        1 => 1 + rng.below(20),
        2 => 100 + rng.below(2000),
        3 => around(rng, b),
        4 => around(rng, 16384),
        5 => rng.pick(&[65534u64, 65535, 65536]),
        6 => { let m = rng.pick(&[2u64, 3, 4]); around(rng, b * m) }
        7 => { let m = rng.pick(&[2u64, 3, 4]); around(rng, 16384 * m) }
        8 => rng.pick(&[16393u64, 16384 + 9 + 1, 32768 + 18, 65535 + 9, 131072]),
        9 => 20000 + rng.below(200_000),
        10 => 262_144 + rng.below(300_000),
        11 => rng.pick(&[9u64, 8, 10, 18]),
        12 => rng.pick(&[1_048_575u64, 1_048_576, 1_048_577, 2_000_003]),
        _ => rng.pick(&[3_000_000u64, 5_000_001]),
    }
}

fn msg_plan(rng: &mut Rng, b: u64, big: bool, response: bool, sender_h2: bool) -> MsgPlan {
    let size = pick_size(rng, b, big);
    let framing = if sender_h2 {
        Framing::Cl
    } else if response {
        rng.pick(&[Framing::Cl, Framing::Cl, Framing::Chunked, Framing::Chunked, Framing::Close])
    } else {
        rng.pick(&[Framing::Cl, Framing::Chunked])
    };
    let mut wchunk = rng.pick(&[1usize, 100, 1000, 16384, 65536, 1 << 20, 1 << 20]);
    if wchunk == 1 && size > 3000 {
        wchunk = 4096;
    }
    if wchunk == 100 && size > 300_000 {
        wchunk = 16384;
    }
    let (mut every, mut pause) = (0u64, 0u64);
    if rng.chance(1, 4) && size > 0 {
        every = rng.pick(&[1u64, 1000, 16384, 16393, 65536]).min(size);
        let n_pauses = (size / every).max(1);
        pause = (800_000 / n_pauses).clamp(50, 20_000);
        if n_pauses > 4000 {
            every = size / 2000 + 1;
        }
    }
    MsgPlan { size, framing, h2_cl: rng.chance(1, 2), h2_pad: rng.chance(1, 3), h2_sep_end: rng.chance(1, 4), wchunk, wpause_every: every, wpause_us: pause,
              small_chunks: framing == Framing::Chunked && size < 4000 && rng.chance(1, 3), abort_at: None }
}

fn read_plan(rng: &mut Rng, size: u64) -> ReadPlan {
    let slow = rng.chance(1, 3);
    let (rchunk, rdelay, rcvbuf) = if slow {
        let chunk = rng.pick(&[512usize, 4096, 16384]);
        let reads = (size / chunk as u64).max(1);
        (chunk, (1_200_000 / reads).min(2000), Some(rng.pick(&[2048usize, 4096, 16384])))
    } else {
        (65536, 0, None)
    };
    let (mut w, mut g, mut gd) = (65535u32, 65535u32, 0u64);
    if rng.chance(1, 3) {
        w = rng.pick(&[1u32, 9, 100, 16383, 16384, 16385, 16393, 32768, 1 << 20]);
        g = rng.pick(&[w, w, 1, 9, 16384, 65535]);
        gd = rng.pick(&[0u64, 0, 300, 3000]);
    }
    // bound the number of WINDOW_UPDATE round trips
    let per = g.min(w).max(1) as u64;
    if size / per > 1500 {
        let need = (size / 1500 + 1) as u32;
        g = g.max(need);
        w = w.max(need);
    }
    if gd > 0 && size / (g.max(1) as u64) > 300 {
        gd = 100;
    }
    ReadPlan { rchunk, rdelay_us: rdelay, rcvbuf, h2_window: w, h2_grant: g, h2_grant_delay_us: gd }
}

pub fn make_plan(run: u64, seed: u64, k: usize, b: u64, big: bool, aborts: bool) -> RunPlan {
    let mut rng = Rng(seed);
    let front_h2 = k % 2 == 1;
    let back_h2 = (k / 2) % 2 == 1;
    let n = if front_h2 { rng.pick(&[1usize, 1, 2, 3, 4, 8]) } else { rng.pick(&[1usize, 1, 2, 3]) };
    let mut streams = Vec::new();
    for i in 0..n {
        let mut req = msg_plan(&mut rng, b, big, false, front_h2);
        let mut resp = msg_plan(&mut rng, b, big, true, back_h2);
        if n >= 4 {
            // many concurrent streams: keep the total volume moderate
            req.size = req.size.min(300_000);
            resp.size = resp.size.min(300_000);
        }
        let backend_read = read_plan(&mut rng, req.size);
        let client_read = read_plan(&mut rng, resp.size);
        streams.push(StreamPlan { idx: i as u32, req, resp, backend_read, client_read, early_resp: false });
    }
    let second_wave = front_h2 && rng.chance(1, 2);
    let mut p = RunPlan { run, seed, front_h2, back_h2, back_variant: rng.below(2) as u8, second_wave, streams, client_hold: None, backend_hold: None, ping_every: 0 };
    if aborts && rng.chance(1, 10) {
        let i = rng.below(p.streams.len() as u64) as usize;
        let m = if rng.chance(1, 2) { &mut p.streams[i].req } else { &mut p.streams[i].resp };
        if m.size > 1 {
            m.abort_at = Some(rng.below(m.size - 1) + 1);
        }
    }
    fix_plan(&mut p);
    p
}

/// FULL-DUPLEX schedules: position-coded bodies move in both directions at once on ONE HTTP/2 connection whose peer
/// stops reading its socket for a while (kit::Hold), so that sozu's write towards that peer blocks in the middle of a
/// DATA frame while DATA of the same peer keeps arriving: the WINDOW_UPDATE / PING ACK frames sozu owes must wait for
/// the frame boundary (spec/H2Wire.tla), otherwise the receiver finds foreign bytes in the body or loses the framing.
///   variant 0, 1: the BACKEND connection (h1->h2c, h2->h2c): one big upload; the h2c backend answers early (paced
///                 response frames during the hold) and reads the request late
///   variant 2, 3: the CLIENT connection (h2->h1, h2->h2c): stream 0 downloads a big body that the client does not read
///                 during the hold, stream 1 uploads (paced) meanwhile
/// Windows are wide open everywhere (nothing but the socket blocks: the head-of-line finding needs window-blocked
/// streams) and frame counts stay in the hundreds (far from the iteration budget).
pub fn make_duplex_plan(run: u64, seed: u64, k: usize) -> RunPlan {
    let mut rng = Rng(seed ^ 0xD0_C01);
    let variant = k % 4;
    let wide = |rcvbuf: Option<usize>| ReadPlan { rchunk: 65536, rdelay_us: 0, rcvbuf, h2_window: 1 << 30, h2_grant: 1 << 20, h2_grant_delay_us: 0 };
    let msg = |size: u64, wchunk: usize, every: u64, pause_us: u64, rng: &mut Rng| MsgPlan {
        size, framing: Framing::Cl, h2_cl: rng.chance(1, 2), h2_pad: false, h2_sep_end: rng.chance(1, 4), wchunk, wpause_every: every, wpause_us: pause_us, small_chunks: false, abort_at: None };
    let big = rng.pick(&[5_000_000u64, 6_000_000, 7_000_003]);
    let small = rng.pick(&[30_000u64, 48_000, 64_000]);
    let piece = rng.pick(&[1_000u64, 3_000, 3_000, 9_000]);
    let hold = Hold { after_bytes: rng.pick(&[60_000u64, 100_000, 300_000]), ms: rng.pick(&[500u64, 650, 800]) };
    // the slow side of the duplex exchange: `piece` bytes every 40 ms - a dozen frames or more during the hold
    let mut p = if variant < 2 {
        let front_h2 = variant == 1;
        let mut req = msg(big, 1 << 20, 0, 0, &mut rng);
        if !front_h2 {
            req.framing = rng.pick(&[Framing::Cl, Framing::Chunked]);
        }
        let resp = msg(small, piece as usize, piece, 40_000, &mut rng);
        let streams = vec![StreamPlan { idx: 0, req, resp, backend_read: wide(None), client_read: wide(None), early_resp: true }];
        RunPlan { run, seed, front_h2, back_h2: true, back_variant: 2, second_wave: false, streams, client_hold: None, backend_hold: Some(hold), ping_every: 0 }
    } else {
        let back_h2 = variant == 3;
        let down = StreamPlan { idx: 0, req: msg(0, 65536, 0, 0, &mut rng), resp: msg(big, 1 << 20, 0, 0, &mut rng), backend_read: wide(None),
                                client_read: wide(Some(DUPLEX_RCVBUF)), early_resp: false };
        let up = StreamPlan { idx: 1, req: msg(small, piece as usize, piece, 40_000, &mut rng), resp: msg(rng.pick(&[10u64, 2_000]), 65536, 0, 0, &mut rng),
                              backend_read: wide(None), client_read: wide(Some(DUPLEX_RCVBUF)), early_resp: false };
        RunPlan { run, seed, front_h2: true, back_h2, back_variant: if back_h2 { 2 } else { 0 }, second_wave: false, streams: vec![down, up],
                  client_hold: Some(hold), backend_hold: None, ping_every: 0 }
    };
    if rng.chance(1, 2) {
        p.ping_every = rng.pick(&[7_000u64, 20_000]);
    }
    if !p.back_h2 {
        for s in p.streams.iter_mut() {
            s.resp.framing = rng.pick(&[Framing::Cl, Framing::Chunked]);
        }
    }
    fix_plan(&mut p);
    p
}

/// make the plan consistent with the protocols of the pair
pub fn fix_plan(p: &mut RunPlan) {
    let n = p.streams.len();
    for (i, s) in p.streams.iter_mut().enumerate() {
        if p.front_h2 {
            s.req.framing = Framing::Cl;
        } else if s.req.framing == Framing::Close {
            s.req.framing = Framing::Cl;
        }
        if p.back_h2 {
            s.resp.framing = Framing::Cl;
        }
        // a close-delimited response ends an HTTP/1.1 client connection: only as its last exchange
        if !p.front_h2 && s.resp.framing == Framing::Close && i + 1 != n {
            s.resp.framing = Framing::Chunked;
        }
        // an aborted exchange ends an HTTP/1.1 client connection too
        if !p.front_h2 && (s.req.abort_at.is_some() || s.resp.abort_at.is_some()) && i + 1 != n {
            s.req.abort_at = None;
            s.resp.abort_at = None;
        }
        // a close-delimited body that is cut cannot be told from a complete one: no abort there
        if s.resp.framing == Framing::Close {
            s.resp.abort_at = None;
        }
        if s.req.size == 0 {
            s.req.abort_at = None;
        }
    }
}
