#!/bin/bash
# tools/run_all.sh <quick|thorough> [ids...] : runs the registered checks one after the other in /verif against /repo,
# prints one summary line per check (exit code, wall time, KNOWN-FINDING / VIOLATION counts). Logs under .work/run_all/.
TIER="${1:-quick}"; shift
cd "$(dirname "$0")/.."
IDS="$*"; [ -z "$IDS" ] && IDS=$(python3 -c "import json;print(' '.join(c['property_id'] for c in json.load(open('MANIFEST.json'))['checks']))")
mkdir -p .work/run_all
for P in $IDS; do
  L=.work/run_all/$P.$TIER.log
  S=$(date +%s)
  ./check $P --tier $TIER > $L 2>&1; RC=$?
  E=$(date +%s)
  echo "$P tier=$TIER exit=$RC wall=$((E-S))s known=$(grep -c '^KNOWN-FINDING' $L) violations=$(grep -c '^VIOLATION' $L) $(grep -E '^C[0-9]+: ' $L | tail -1)"
done
