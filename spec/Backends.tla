------------------------------ MODULE Backends ------------------------------
(***************************************************************************)
(* Backend eligibility, selection and load accounting of ONE cluster       *)
(* (lib/src/backends.rs BackendMap/BackendList/Backend, load_balancing.rs, *)
(* retry.rs ExponentialBackoffPolicy, HealthState).  Clusters are          *)
(* independent (BackendMap is a map cluster -> BackendList), so a history  *)
(* over several clusters is checked as one projection per cluster.         *)
(*                                                                         *)
(* State: `objs` - the live Backend objects (Rc<RefCell<Backend>>): the    *)
(* ones registered in the list plus the ones already removed from the      *)
(* configuration that sessions still hold; `list` - BackendList.backends   *)
(* (a Vec: order matters for find_sticky and for the Maglev table);        *)
(* `policy`/`metric` - the load balancing policy object.                   *)
(*                                                                         *)
(* One action per public entry point.  Selection is a RELATION: the        *)
(* actions Connect* / Keyed* are enabled for every admissible backend.     *)
(* `aff` is a history variable: what the affinity policies answered.       *)
(* `last` is an observation variable (label of the step, for generators).  *)
(*                                                                         *)
(* Time (retry.rs): every Backend carries the policy's own clock           *)
(* arithmetic - `wait` (the window drawn by the last counted failure, in   *)
(* seconds) and `age` (seconds since `last_try`, i.e. since creation, the  *)
(* last counted failure or the last success; saturating at AgeCap).  The   *)
(* back-off window is NOT a flag: it is `age < wait`, computed the way     *)
(* can_try() computes it, and it ends because Elapse(d) lets time pass for *)
(* every live backend at once.  `bo` is a history variable: the seconds of *)
(* back-off that remain according to the property's own notion (a failure *)
(* outside a back-off opens one of the drawn length, a success ends it,    *)
(* time consumes it).  The properties are phrased with `bo`, the code      *)
(* model with age / wait.                                                  *)
(*                                                                         *)
(* `basis` is what the Maglev lookup table was built from: a sequence of   *)
(* (address, clamped weight), <<>> = no table.  Every add / upsert /       *)
(* removal and the installation of the policy object build it from the     *)
(* full list; a keyed selection on an empty table builds it from the       *)
(* candidates it was handed (cold start, load_balancing.rs:782).           *)
(***************************************************************************)
EXTENDS Naturals, Integers, Sequences, FiniteSets, TLC

CONSTANTS
  Ids,          \* backend ids (strings)
  Addrs,        \* backend addresses (small naturals; the harness owns the table to socket addresses)
  Slots,        \* subset of [id : Ids, addr : Addrs]: the (id, address) identities AddBackend may use
  Configs,      \* set of [backup : BOOLEAN, sticky : STRING, weight : Int] AddBackend may carry ("" = no sticky id)
  Keys,         \* affinity keys (naturals >= 1)
  Stickies,     \* sticky-session values carried by requests
  Policies,     \* subset of {"rr","random","leastLoaded","p2c","hrw","maglev"}
  Metrics,      \* subset of {"conns","reqs"}
  MaxTries,     \* retry budget of the back-off policy (6 in Backend::new)
  Thresholds,   \* thresholds Health may be called with
  HCap,         \* cap of the consecutive success/failure counters (>= every threshold)
  MaxSteps,     \* bound on the history length (built into Next)
  MaxLoad,      \* bound on per-object opens / requests (built into the guards)
  Elapses,      \* the amounts of time (whole seconds) one Elapse step may let pass
  AgeCap,       \* saturation of `age` (greater than every window the policy can draw)
  Deviations    \* switches that make the model behave like a known / seeded defect.  Open finding:
                \* "MaglevRebuild".  Self-tests (TLC must refute the property with each of them on):
                \* "ColdStartTable"  - the policy object is installed without building the Maglev table,
                \* "FailKeepsClock"  - a counted failure does not restart the back-off clock (last_try),
                \* "SucceedKeepsWait" - a success restarts the clock but keeps the drawn window.

VARIABLES objs, list, policy, metric, basis, nextOid, aff, steps, last

vars == <<objs, list, policy, metric, basis, nextOid, aff, steps, last>>
view == <<objs, list, policy, metric, basis, nextOid, aff, steps>>      \* `last` is an observation only

NoKey == -1
NoSticky == ""
NoOid == -1

ASSUME \A t \in Thresholds : t >= 1 /\ t <= HCap

\* retry.rs fail(): the window is drawn from 1 .. 2^tries - 1 seconds (exactly 1 s for tries = 0), `tries` being the
\* count BEFORE this failure, itself capped at the budget
MaxW(t) == IF t = 0 THEN 1 ELSE 2^t - 1
ASSUME AgeCap > MaxW(MaxTries)
ASSUME \A d \in Elapses : d \in Nat /\ d >= 1

---------------------------------------------------------------------------
(* Helpers *)

Min2(a, b) == IF a < b THEN a ELSE b
Monus(a, b) == IF a > b THEN a - b ELSE 0
Dec1(n) == IF n > 0 THEN n - 1 ELSE 0
Range(s) == {s[i] : i \in 1..Len(s)}
Listed == Range(list)
Live == DOMAIN objs

\* Backend::new
NewObj(s, c) ==
  [id |-> s.id, addr |-> s.addr, backup |-> c.backup, sticky |-> c.sticky, weight |-> c.weight,
   status |-> "normal", healthy |-> TRUE, cs |-> 0, cf |-> 0,
   tries |-> 0, wait |-> 0, age |-> 0,        \* ExponentialBackoffPolicy::new: last_try = now, wait = 0
   conns |-> 0, reqs |-> 0,
   out |-> 0, rout |-> 0,       \* history: opens / requests the callers still hold
   bo |-> 0]                    \* history: seconds of failure back-off that remain (the property's notion)

\* An object lives as long as it is registered or somebody still holds a connection or request on it
\* (the Rc is dropped with the last session).
Sweep(f, l) ==
  LET keep == {o \in DOMAIN f : o \in Range(l) \/ f[o].out > 0 \/ f[o].rout > 0}
  IN [o \in keep |-> f[o]]

Put(f, o, r) == [x \in DOMAIN f \cup {o} |-> IF x = o THEN r ELSE f[x]]

---------------------------------------------------------------------------
(* Eligibility as the code computes it (backends.rs can_open, available_backends,            *)
(* next_available_backend_with_key): primaries that can open; else backups that can open;    *)
(* else fail-open over every backend that is Normal and outside its back-off window          *)
(* (primaries AND backups, healthy or not).                                                  *)

\* ExponentialBackoffPolicy::can_try: WAIT while last_try.elapsed() < wait
Waiting(b) == b.age < b.wait
CanOpenB(b) == b.healthy /\ b.status = "normal" /\ ~Waiting(b)
CanOpen(o) == CanOpenB(objs[o])
\* Backend::is_available (metrics / cluster availability): the window does not count, the exhausted budget does
AvailableB(b) == b.healthy /\ b.status = "normal" /\ b.tries < MaxTries

Primaries == {o \in Listed : ~objs[o].backup /\ CanOpen(o)}
Backups   == {o \in Listed : objs[o].backup /\ CanOpen(o)}
FailOpen  == {o \in Listed : objs[o].status = "normal" /\ ~Waiting(objs[o])}
Eligible  == IF Primaries # {} THEN Primaries ELSE IF Backups # {} THEN Backups ELSE FailOpen

Load(o) == IF metric = "reqs" THEN objs[o].reqs ELSE objs[o].conns

\* What the affinity policies hash: the address and the clamped weight (load_balancing.rs backend_weight).
\* The "eligible set" of the property: which backends (identity) with which affinity parameters.
EffW(w) == IF w < 1 THEN 1 ELSE w
Coarse(E) == {<<objs[o].id, objs[o].addr, EffW(objs[o].weight)>> : o \in E}
\* Maglev's table is built from the full list by every add / upsert / removal and when the policy object is
\* installed, so it is a function of the current list (in order).  HRW has no table.
BasisOf(l, f) == [i \in 1..Len(l) |-> <<f[l[i]].addr, EffW(f[l[i]].weight)>>]
FullBasis == BasisOf(list, objs)
\* cold start (Maglev::next_available_backend on an empty table): built from the candidates handed to the lookup
CandBasis == BasisOf(SelectSeq(list, LAMBDA o : o \in Eligible), objs)
\* the table a keyed lookup works with
EffBasis == IF policy = "maglev" /\ basis = <<>> THEN CandBasis ELSE basis
\* a table entry resolves to a candidate; otherwise the lookup falls back to round robin over the candidates
Resolves == \E o \in Eligible : \E i \in 1..Len(EffBasis) : EffBasis[i][1] = objs[o].addr

\* By which table an affinity answer is remembered: nothing when the table is a function of the eligible set as the
\* property wants it; the table basis where a deviation says the code's table depends on more than that.
Fine == CASE policy # "maglev" -> <<>>
          [] "MaglevRebuild" \in Deviations -> EffBasis
          [] "ColdStartTable" \in Deviations /\ EffBasis # FullBasis -> EffBasis
          [] OTHER -> <<>>

Affine(k) == policy \in {"hrw", "maglev"} /\ k # NoKey

\* the affinity policies answered this key over this eligible set before: same address again (the round-robin
\* fallback of a table that knows none of the candidates is the only lookup that is not a function)
AffOK(o, k) ==
  \/ policy = "maglev" /\ ~Resolves
  \/ /\ policy = "maglev" => \E i \in 1..Len(EffBasis) : EffBasis[i][1] = objs[o].addr    \* a table entry
     /\ \A r \in aff : (r.policy = policy /\ r.key = k /\ r.coarse = Coarse(Eligible) /\ r.fine = Fine)
                           => r.addr = objs[o].addr

\* leastLoaded: a minimum of the metric.  p2c (load_balancing.rs PowerOfTwo): the code keeps the two least
\* loaded candidates and draws one of them, so at most one eligible backend is strictly lighter than the answer.
PolicyOK(o, k) ==
  CASE policy = "leastLoaded" -> \A x \in Eligible : Load(o) <= Load(x)
    [] policy = "p2c"         -> Cardinality({x \in Eligible : Load(x) < Load(o)}) <= 1
    [] Affine(k)              -> AffOK(o, k)
    [] OTHER                  -> TRUE

Balanced(k) == {o \in Eligible : PolicyOK(o, k)}

\* find_sticky: the FIRST registered backend carrying the sticky id, and only if it can open
StickyHit(sid) ==
  LET idx == {i \in 1..Len(list) : objs[list[i]].sticky = sid}
  IN IF sid = NoSticky \/ idx = {} THEN {}
     ELSE LET o == list[CHOOSE i \in idx : \A j \in idx : i <= j] IN IF CanOpen(o) THEN {o} ELSE {}

Admissible(k, sid) == IF StickyHit(sid) # {} THEN StickyHit(sid) ELSE Balanced(k)

---------------------------------------------------------------------------
(* Configuration actions *)

Step(lbl) == steps < MaxSteps /\ steps' = steps + 1 /\ last' = lbl

\* BackendList::add_backend: identity is (backend_id, address); a second add is an update in place of
\* sticky id, weight and backup flag that keeps every piece of runtime state.
AddBackend(s, c) ==
  LET idx == {i \in 1..Len(list) : objs[list[i]].id = s.id /\ objs[list[i]].addr = s.addr}
  IN /\ Step([op |-> "Add", id |-> s.id, addr |-> s.addr, backup |-> c.backup, sticky |-> c.sticky, w |-> c.weight])
     /\ IF idx = {}
        THEN /\ objs' = Put(objs, nextOid, NewObj(s, c))
             /\ list' = Append(list, nextOid)
             /\ nextOid' = nextOid + 1
        ELSE LET o == list[CHOOSE i \in idx : TRUE]
             IN /\ objs' = [objs EXCEPT ![o].backup = c.backup, ![o].sticky = c.sticky, ![o].weight = c.weight]
                /\ UNCHANGED <<list, nextOid>>
     /\ basis' = IF policy = "maglev" THEN BasisOf(list', objs') ELSE <<>>
     /\ UNCHANGED <<policy, metric, aff>>

\* BackendList::remove_backend: every backend at the address; returns their ids in list order
RemovedIds(a) == LET l == SelectSeq(list, LAMBDA o : objs[o].addr = a) IN [i \in 1..Len(l) |-> objs[l[i]].id]

RemoveBackend(a) ==
  /\ Step([op |-> "Remove", addr |-> a, ret |-> RemovedIds(a)])
  /\ list' = SelectSeq(list, LAMBDA o : objs[o].addr # a)
  /\ objs' = Sweep(objs, list')
  /\ basis' = IF policy = "maglev" THEN BasisOf(list', objs') ELSE <<>>
  /\ UNCHANGED <<policy, metric, nextOid, aff>>

\* a new policy object (also what every AddCluster of an existing cluster does, with the policy it already
\* has); the load metric only exists for the two load-based policies.  The affinity history is kept: installing
\* the policy again does not change the eligible set, and an affinity policy is a function of key and set.
SetPolicy(p, m) ==
  /\ Step([op |-> "SetPolicy", policy |-> p, metric |-> m])
  /\ policy' = p
  /\ metric' = IF p \in {"leastLoaded", "p2c"} THEN m ELSE "conns"
  /\ basis' = IF p = "maglev" /\ "ColdStartTable" \notin Deviations THEN FullBasis ELSE <<>>
  /\ UNCHANGED <<objs, list, nextOid, aff>>

---------------------------------------------------------------------------
(* Health (HealthState::record_success / record_failure with hysteresis) *)

HealthUp(o, th) ==
  LET b == objs[o]
      cs2 == Min2(b.cs + 1, HCap)
      h2 == b.healthy \/ cs2 >= th
  IN /\ Step([op |-> "Health", oid |-> o, up |-> TRUE, th |-> th, ret |-> (h2 # b.healthy)])
     /\ objs' = [objs EXCEPT ![o].cf = 0, ![o].cs = cs2, ![o].healthy = h2]
     /\ UNCHANGED <<list, policy, metric, basis, nextOid, aff>>

HealthDown(o, th) ==
  LET b == objs[o]
      cf2 == Min2(b.cf + 1, HCap)
      h2 == b.healthy /\ ~(cf2 >= th)
  IN /\ Step([op |-> "Health", oid |-> o, up |-> FALSE, th |-> th, ret |-> (h2 # b.healthy)])
     /\ objs' = [objs EXCEPT ![o].cs = 0, ![o].cf = cf2, ![o].healthy = h2]
     /\ UNCHANGED <<list, policy, metric, basis, nextOid, aff>>

\* BackendMap::set_health_check_config(None): every registered backend back to pristine healthy
ResetHealth ==
  /\ Step([op |-> "ResetHealth"])
  /\ objs' = [o \in Live |-> IF o \in Listed THEN [objs[o] EXCEPT !.healthy = TRUE, !.cs = 0, !.cf = 0] ELSE objs[o]]
  /\ UNCHANGED <<list, policy, metric, basis, nextOid, aff>>

---------------------------------------------------------------------------
(* Back-off (retry.rs ExponentialBackoffPolicy), with the policy's own clock arithmetic:            *)
(*   fail():    if last_try.elapsed() < wait -> ignored ("already in back off"); otherwise a window   *)
(*              of 1 .. 2^tries - 1 seconds is drawn, last_try = now, one try counted (saturating);   *)
(*   succeed(): wait = 0, last_try = now, tries = 0;                                                  *)
(*   can_try(): WAIT while last_try.elapsed() < wait - it never looks at the count;                   *)
(*   the window ends by the passage of time only (Elapse: every live backend ages together).          *)

FailCounted(b) == ~Waiting(b)
WaitChoices(b) == 1..MaxW(b.tries)

FailEffect(b, w) ==
  IF Waiting(b) THEN b
  ELSE [b EXCEPT !.wait = w, !.tries = Min2(b.tries + 1, MaxTries),
                 !.age = IF "FailKeepsClock" \in Deviations THEN b.age ELSE 0,
                 !.bo = IF b.bo > 0 THEN b.bo ELSE w]

RetryFail(o, w) ==
  /\ w \in WaitChoices(objs[o])
  /\ (Waiting(objs[o]) => w = 1)       \* an ignored failure draws nothing: one instance is enough
  /\ Step([op |-> "RetryFail", oid |-> o, counted |-> FailCounted(objs[o]), w |-> w, wmax |-> MaxW(objs[o].tries)])
  /\ objs' = [objs EXCEPT ![o] = FailEffect(objs[o], w)]
  /\ UNCHANGED <<list, policy, metric, basis, nextOid, aff>>

RetrySucceed(o) ==
  /\ Step([op |-> "RetrySucceed", oid |-> o])
  /\ objs' = [objs EXCEPT ![o].wait = IF "SucceedKeepsWait" \in Deviations THEN @ ELSE 0,
                          ![o].age = 0, ![o].tries = 0, ![o].bo = 0]
  /\ UNCHANGED <<list, policy, metric, basis, nextOid, aff>>

\* d seconds pass - for every live backend (registered or still held by a session)
Elapse(d) ==
  /\ Step([op |-> "Elapse", d |-> d])
  /\ objs' = [o \in Live |-> [objs[o] EXCEPT !.age = Min2(@ + d, AgeCap), !.bo = Monus(@, d)]]
  /\ UNCHANGED <<list, policy, metric, basis, nextOid, aff>>

---------------------------------------------------------------------------
(* Load accounting (Backend::inc_connections / dec_connections, set_closing; active_requests is a *)
(* public field the session code increments and saturating-decrements).                           *)

SetClosing(o) ==
  /\ Step([op |-> "SetClosing", oid |-> o])
  /\ objs' = [objs EXCEPT ![o].status = "closing"]
  /\ UNCHANGED <<list, policy, metric, basis, nextOid, aff>>

IncResult(b) == IF b.status = "normal" THEN b.conns + 1 ELSE NoOid
IncEffect(b) == IF b.status = "normal" THEN [b EXCEPT !.conns = b.conns + 1, !.out = b.out + 1] ELSE b

Open(o) ==
  /\ objs[o].out < MaxLoad
  /\ Step([op |-> "Inc", oid |-> o, ret |-> IncResult(objs[o])])
  /\ objs' = [objs EXCEPT ![o] = IncEffect(objs[o])]
  /\ UNCHANGED <<list, policy, metric, basis, nextOid, aff>>

DecEffect(b) ==
  CASE b.status = "normal"  -> [b EXCEPT !.conns = Dec1(b.conns), !.out = Dec1(b.out)]
    [] b.status = "closed"  -> [b EXCEPT !.out = Dec1(b.out)]
    [] b.status = "closing" -> [b EXCEPT !.conns = Dec1(b.conns), !.out = Dec1(b.out),
                                         !.status = IF Dec1(b.conns) = 0 THEN "closed" ELSE "closing"]
DecResult(b) ==
  CASE b.status = "normal"  -> Dec1(b.conns)
    [] b.status = "closed"  -> NoOid
    [] b.status = "closing" -> IF Dec1(b.conns) = 0 THEN NoOid ELSE Dec1(b.conns)

\* also enabled with nothing outstanding: a spurious close saturates at zero
Close(o) ==
  /\ Step([op |-> "Dec", oid |-> o, ret |-> DecResult(objs[o])])
  /\ objs' = Sweep([objs EXCEPT ![o] = DecEffect(objs[o])], list)
  /\ UNCHANGED <<list, policy, metric, basis, nextOid, aff>>

ReqStart(o) ==
  /\ objs[o].rout < MaxLoad
  /\ Step([op |-> "ReqStart", oid |-> o])
  /\ objs' = [objs EXCEPT ![o].reqs = @ + 1, ![o].rout = @ + 1]
  /\ UNCHANGED <<list, policy, metric, basis, nextOid, aff>>

ReqEnd(o) ==
  /\ Step([op |-> "ReqEnd", oid |-> o])
  /\ objs' = Sweep([objs EXCEPT ![o].reqs = Dec1(@), ![o].rout = Dec1(@)], list)
  /\ UNCHANGED <<list, policy, metric, basis, nextOid, aff>>

---------------------------------------------------------------------------
(* Selection.  BackendMap::backend_from_cluster_id / backend_from_sticky_session select and          *)
(* connect (try_connect: inc_connections on success, retry_policy.fail() on an immediate error);      *)
(* BackendMap::backend_from_cluster_id_with_key only selects (UDP datapath).                         *)

ConnectOk(sid, o) ==
  /\ o \in Admissible(NoKey, sid)
  /\ objs[o].out < MaxLoad
  /\ Step([op |-> "Connect", sticky |-> sid, res |-> "ok", oid |-> o, addr |-> objs[o].addr])
  /\ objs' = [objs EXCEPT ![o] = IncEffect(objs[o])]
  /\ UNCHANGED <<list, policy, metric, basis, nextOid, aff>>

ConnectFail(sid, o, w) ==
  /\ o \in Admissible(NoKey, sid)
  /\ w \in WaitChoices(objs[o])
  /\ Step([op |-> "Connect", sticky |-> sid, res |-> "fail", oid |-> o, addr |-> objs[o].addr])
  /\ objs' = [objs EXCEPT ![o] = FailEffect(objs[o], w)]
  /\ UNCHANGED <<list, policy, metric, basis, nextOid, aff>>

ConnectNone(sid) ==
  /\ Admissible(NoKey, sid) = {}
  /\ Step([op |-> "Connect", sticky |-> sid, res |-> "none", oid |-> NoOid, addr |-> 0])
  /\ UNCHANGED <<objs, list, policy, metric, basis, nextOid, aff>>

Keyed(k, o) ==
  /\ o \in Admissible(k, NoSticky)
  /\ Step([op |-> "Keyed", key |-> k, oid |-> o])
  /\ aff' = IF Affine(k)
            THEN aff \cup {[policy |-> policy, key |-> k, coarse |-> Coarse(Eligible), fine |-> Fine,
                            addr |-> objs[o].addr]}
            ELSE aff
  /\ basis' = IF Affine(k) /\ policy = "maglev" THEN EffBasis ELSE basis      \* cold start builds the table
  /\ UNCHANGED <<objs, list, policy, metric, nextOid>>

KeyedNone(k) ==
  /\ Admissible(k, NoSticky) = {}
  /\ Step([op |-> "Keyed", key |-> k, oid |-> NoOid])
  /\ UNCHANGED <<objs, list, policy, metric, basis, nextOid, aff>>

---------------------------------------------------------------------------

Init == /\ objs = <<>> /\ list = <<>> /\ policy = "random" /\ metric = "conns" /\ basis = <<>>
        /\ nextOid = 1 /\ aff = {} /\ steps = 0 /\ last = [op |-> "Init"]

\* (one quantifier per action so that TLC's coverage names every action)
Mutate ==
  \/ \E s \in Slots, c \in Configs : AddBackend(s, c)
  \/ \E a \in Addrs : RemoveBackend(a)
  \/ \E p \in Policies : \E m \in (IF p \in {"leastLoaded", "p2c"} THEN Metrics ELSE {"conns"}) : SetPolicy(p, m)
  \/ \E o \in Live, th \in Thresholds : HealthUp(o, th)
  \/ \E o \in Live, th \in Thresholds : HealthDown(o, th)
  \/ ResetHealth
  \/ \E o \in Live : \E w \in 1..MaxW(MaxTries) : RetryFail(o, w)
  \/ \E o \in Live : RetrySucceed(o)
  \/ \E d \in Elapses : Elapse(d)
  \/ \E o \in Live : SetClosing(o)
  \/ \E o \in Live : Open(o)
  \/ \E o \in Live : Close(o)
  \/ \E o \in Live : ReqStart(o)
  \/ \E o \in Live : ReqEnd(o)

Select ==
  \/ \E sid \in Stickies \cup {NoSticky} : ConnectNone(sid)
  \/ \E sid \in Stickies \cup {NoSticky}, o \in Live : ConnectOk(sid, o)
  \/ \E sid \in Stickies \cup {NoSticky}, o \in Live : \E w \in 1..MaxW(MaxTries) : ConnectFail(sid, o, w)
  \/ \E k \in Keys \cup {NoKey} : KeyedNone(k)
  \/ \E k \in Keys \cup {NoKey}, o \in Live : Keyed(k, o)

Next == Mutate \/ Select
Spec == Init /\ [][Next]_vars

---------------------------------------------------------------------------
(* Properties (C12).  They are phrased from the property statement, not from the definitions above. *)

TypeOK ==
  /\ DOMAIN objs \subseteq 1..(nextOid - 1)
  /\ \A i \in 1..Len(list) : list[i] \in Live
  /\ \A i, j \in 1..Len(list) : i # j => list[i] # list[j]
  /\ \A i, j \in 1..Len(list) : i # j => ~(objs[list[i]].id = objs[list[j]].id /\ objs[list[i]].addr = objs[list[j]].addr)
  /\ \A o \in Live : /\ objs[o].id \in Ids /\ objs[o].addr \in Addrs
                     /\ objs[o].status \in {"normal", "closing", "closed"}
                     /\ objs[o].healthy \in BOOLEAN /\ objs[o].backup \in BOOLEAN
                     /\ objs[o].wait \in 0..MaxW(MaxTries) /\ objs[o].age \in 0..AgeCap /\ objs[o].bo \in 0..MaxW(MaxTries)
                     /\ objs[o].tries \in 0..MaxTries /\ objs[o].cs \in 0..HCap /\ objs[o].cf \in 0..HCap
                     /\ objs[o].conns \in Nat /\ objs[o].reqs \in Nat /\ objs[o].out \in Nat /\ objs[o].rout \in Nat
                     /\ (o \in Listed \/ objs[o].out > 0 \/ objs[o].rout > 0)
  /\ policy \in Policies \cup {"random"} /\ metric \in {"conns", "reqs"}
  /\ (policy # "maglev" => basis = <<>>)

Queries == ((Keys \cup {NoKey}) \X {NoSticky}) \cup ({NoKey} \X Stickies)

\* "inside its failure back-off": a failure opened a back-off that neither time nor a success has ended yet
\* (the history variable `bo`, not the policy's clock arithmetic)
BackingOff(o) == objs[o].bo > 0

\* "belongs to the request's cluster, is not being removed, is not marked unhealthy and is not inside its back-off"
Qualifies(o) == o \in Listed /\ objs[o].status = "normal" /\ objs[o].healthy /\ ~BackingOff(o)
NoneQualifies == \A o \in Listed : ~Qualifies(o)

\* (a) selection within eligibility, with the documented fail-open exception
P_C12_OnlyEligible ==
  \A q \in Queries : \A o \in Admissible(q[1], q[2]) :
     /\ o \in Listed /\ objs[o].status = "normal" /\ ~BackingOff(o)
     /\ (objs[o].healthy \/ NoneQualifies)

\* (b) a backup backend serves only when no primary qualifies (a sticky cookie naming it is the other clause)
P_C12_BackupLast ==
  \A q \in Queries : \A o \in Admissible(q[1], q[2]) :
     (objs[o].backup /\ ~(q[2] # NoSticky /\ objs[o].sticky = q[2]))
        => ~\E p \in Listed : ~objs[p].backup /\ Qualifies(p)

\* (c) a sticky cookie that names one qualifying backend of the cluster always gets that backend
P_C12_StickyWins ==
  \A sid \in Stickies :
     LET named == {o \in Listed : objs[o].sticky = sid}
     IN (Cardinality(named) = 1 /\ \A o \in named : Qualifies(o)) => Admissible(NoKey, sid) = named

\* (d) traffic is served whenever a backend qualifies or the fail-open set is not empty
P_C12_Serves ==
  \A q \in Queries : (\E o \in Listed : objs[o].status = "normal" /\ ~BackingOff(o)) => Admissible(q[1], q[2]) # {}

\* (e) affinity: one key, one eligible set (addresses and weights) => one backend address
P_C12_Affinity ==
  \A r1, r2 \in aff : (r1.policy = r2.policy /\ r1.key = r2.key /\ r1.coarse = r2.coarse) => r1.addr = r2.addr

\* (e') what (e) rests on for Maglev: the lookup table is always the one of the current list
P_C12_TableCurrent == policy = "maglev" => basis = FullBasis

\* (a') the policy's window is exactly the back-off the property talks about: open as long as the drawn time has
\* not passed since the failure, never open without a failure since the last success
P_C12_WindowExact == \A o \in Live : Waiting(objs[o]) <=> BackingOff(o)

\* (f) counters: never negative (Nat), equal to what the callers hold, hence back to zero when all is closed
P_C12_Counters == \A o \in Live : objs[o].conns = objs[o].out /\ objs[o].reqs = objs[o].rout

\* (g) retirement: a closed backend has no connection; only registered Normal backends ever get one more
P_C12_Retired == \A o \in Live : objs[o].status = "closed" => objs[o].conns = 0

P_C12_GrowOnlyNormal ==
  [][\A o \in Live : (o \in DOMAIN objs' /\ objs'[o].conns > objs[o].conns) => objs[o].status = "normal"]_vars

P_C12 == /\ P_C12_OnlyEligible /\ P_C12_BackupLast /\ P_C12_StickyWins /\ P_C12_Serves
         /\ P_C12_Affinity /\ P_C12_TableCurrent /\ P_C12_WindowExact /\ P_C12_Counters /\ P_C12_Retired
=============================================================================
