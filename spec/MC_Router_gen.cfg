SPECIFICATION Spec
CONSTANTS
  MaxFronts = 2
  Deviations = {"HostShadow"}
  Emit = TRUE
INVARIANTS EmitState
CHECK_DEADLOCK FALSE
