"""C07 - a rejected configuration command leaves no trace (spec/ConfigState.tla, P_C07).

1. TLC, per object family: TypeOK and P_C07 (rejected => configuration unchanged; accepted => only the named
   objects change) on every reachable state within the bounds, and in the same run one REPLAY line per
   distinct state with the predicted result and effect of every command of the family.
2. harness/replay_config --mode c07 reaches every state on a real ConfigState and dispatches every command on
   a clone: result as predicted; on Err the complete real configuration (all fields of all maps) equals the
   one before; on Ok the projection equals the spec's successor. Two concretisations (IPv4/IPv6, spellings
   of the invalid values, filler in the unmodelled fields).
3. harness/drive_config (I->S): seeded long random command sequences with full-width field values on a real
   ConfigState; on every Err the complete configuration is compared with a clone taken before; the recorded trace
   (command, result, projection of the whole state after every command) must be a behaviour of
   spec/Trace_ConfigState.tla, with P_C07 evaluated in every state. A corrupted trace must be rejected.
4. harness/drive_config_worker: the same kind of commands sent to a real in-process worker over the command
   channel; a Failure answer must leave the worker's queryable view (QueryClustersHashes, QueryClusterById,
   QueryCertificatesFromWorkers) unchanged and the view must equal that of a library ConfigState fed with the same
   commands; the (command, answer, configuration) trace must be a behaviour of WorkerHandle with the open deviations.
5. tools/props/c07_listen_faults.py (spec/WorkerCtl.tla with Faults = TRUE): the commands that touch sockets. The
   environment holds / releases listener addresses (a foreign socket without SO_REUSEPORT), so ActivateListener is
   refused by the OS: TLC checks P_C07_RefusedNoTrace / P_C07_ActiveListens / P_C07_ActivatedListens, every (state,
   request | hold | release) transition is replayed on a real worker (answers, hook, views, client probes), seeded
   fault runs of real workers are validated by Trace_WorkerCtl.tla. Runs in background threads next to 1-4.
"""
import os

import vlib
from props import c07_listen_faults as lf
from props import config_common as cc
from props import sozu_compose

PID = "C07"


def run(tier, replay=None):
    rep = vlib.Report(PID, tier)
    wd = vlib.workdir(PID)
    if replay and lf.handles(replay):
        lf.run_replay(rep, replay)
    # listener commands under held addresses (WorkerCtl.tla, Faults): three background legs, merged at the end
    faults = None if replay else lf.start(tier)
    # the composed leg (spec/Sozu.tla: main process + real workers): drift / rejected-leaves-no-trace across processes
    sozu_compose.run_leg(rep, tier, PID, replay)
    bins = vlib.cargo_build(["replay_config"] + cc.drive_bins(worker=True))
    thorough = tier == "thorough"
    inv = ["TypeOK", "P_C07", "P_C07_Worker", "P_C07_Master"]

    if replay and replay.endswith(".json"):
        cc.explain_replay(bins, replay)
    beh = os.path.join(wd, "behaviours.ndjson")
    if replay and replay.endswith(".ndjson"):
        beh = replay
        n_states = sum(1 for _ in open(beh))
    else:
        results, n_states = cc.run_families(PID, tier, wd, inv, "trans", beh, coverage=thorough)
        cc.check_model_results(rep, PID, results, coverage=thorough)
        rep.extra["tlc_by_family"] = {cc.FAMILY_NAMES[f]: {"distinct": r["distinct"], "generated": r["generated"],
                                                           "wall_s": round(r["wall_s"], 1)} for f, r in results.items()}
    cc.deviations_still_break(rep, PID, tier, wd, inv)

    sums = cc.replay(rep, PID, bins, "c07", beh, [0, 1, 2] if thorough else [0, 1])
    rep.cov["traces_validated_against_impl"] = sum(s["states"] for s in sums)
    rep.cov["evaluations"] = sum(s["transitions"] for s in sums)
    rep.cov["distinct_nontrivial"] = sums[0]["transitions"]
    rep.cov["exhaustive"] = True
    rep.extra["rejected_commands_checked"] = sum(s["rejected"] for s in sums)
    rep.extra["accepted_commands_checked"] = sum(s["accepted"] for s in sums)
    rep.extra["verbs_accepted_rejected"] = sums[0]["verbs"]
    rep.add_samples(sums[0]["samples"], 3)
    cc.trace_leg(rep, PID, tier, wd, bins, "c07")
    cc.worker_leg(rep, PID, tier, wd, bins)
    verbs = sums[0]["verbs"]
    never_rejected = [v for v, (a, r) in verbs.items() if r == 0 and v != "AddBackend"]
    never_accepted = [v for v, (a, r) in verbs.items() if a == 0]
    if never_rejected or never_accepted:
        raise vlib.ToolError("vacuous replay: never rejected %s / never accepted %s" % (never_rejected, never_accepted))
    rep.cov["rule"] = ("every distinct state of ConfigState.tla per object family within (MaxObj, MaxDepth) = %s, reached on a real "
                       "ConfigState through a TLC-recorded path; in each state every command of the family's universe "
                       "(valid, invalid, duplicate, missing target, unknown enum, multi-field patches with one bad field) is "
                       "dispatched on a clone and compared with the spec: result, full equality on Err, predicted effect on Ok. "
                       "distinct_nontrivial = distinct (state, command) pairs compared" % cc.BOUNDS[tier])
    if faults is not None:
        rep.cov["rule"] += lf.finish(faults, rep)
    rep.assumptions += [
        "object universes are small (2 addresses, 2 clusters, 3-4 backend identities, 4-5 frontend keys, 2-3 certificates + 2 malformed ones); listener records are abstracted to representative fields, the other fields carry filler and are covered by the full-equality comparison on Err",
        "the worker's configuration is observed through its query verbs (clusters, their frontends and backends, certificates by fingerprint); listeners are not queryable from a worker. The main process's state after a failed fan-out is not decided here (see design_notes/C07.md)",
    ]
    rep.finish()
