------------------------ MODULE Trace_CertResolver ------------------------
(***************************************************************************)
(* I->S trace validation for CertResolver.tla (property C17).              *)
(*                                                                         *)
(* The trace (ndjson, env TRACE) is what `replay_certs --mode trace`       *)
(* recorded on a real CertificateResolver driven by seeded random          *)
(* operations chosen WITHOUT consulting the spec: one event per public     *)
(* call with its arguments, the call's result, the projection of the three *)
(* structures afterwards (trie, index, store) and, for every probe name,   *)
(* the certificate served and the SAN snapshot.  It is accepted iff every  *)
(* event is explained by the spec action of the same name: the result is   *)
(* the spec's, the post-state is one of the spec's successor states, every *)
(* served certificate is admissible for the abstract store, and every      *)
(* invariant P_C17_* holds in every state on the way.  Several runs are    *)
(* concatenated; a `reset` event starts from an empty resolver.            *)
(***************************************************************************)
EXTENDS CertResolver, IOUtils

Rec == ndJsonDeserialize(IOEnv.TRACE)

VARIABLE l        \* number of consumed events

ASSUME TLCSet(1, 0)

tvars == <<vars, l>>

Post(e) == [certs |-> e.certs, idx |-> e.idx, trie |-> e.trie]

\* what was observed through the lookup API agrees with the primed state and the property
ObservedOK(e) ==
  \A i \in 1..Len(Probes) :
    /\ e.served[i] \in Admissible(store', Probes[i])
    /\ e.served[i] = Resolve(Post(e), Probes[i])
    /\ {e.sni_names[i][k] : k \in 1..Len(e.sni_names[i])} = NamesForSni(Post(e), Probes[i])

T_Reset(e) == e.ev = "reset" /\ Install(Empty) /\ store' = {}

T_Add(e) ==
  /\ e.ev \in {"add", "replace_badold"} /\ e.v \in Variants /\ e.res = "ok"
  /\ Post(e) \in AddResults(S, e.v) /\ Install(Post(e))
  /\ store' = StoreAdd(store, e.v)

T_Remove(e) ==
  /\ e.ev = "remove" /\ e.f \in FP /\ e.res = "ok"
  /\ Post(e) = RemoveResult(S, e.f) /\ Install(Post(e))
  /\ store' = StoreRemove(store, e.f)

T_Replace(e) ==
  /\ e.ev = "replace" /\ e.f \in FP /\ e.v \in Variants /\ e.res = "ok"
  /\ Post(e) \in ReplaceResults(S, e.f, e.v) /\ Install(Post(e))
  /\ store' = IF V[e.v].fp = e.f THEN store ELSE StoreRemove(StoreAdd(store, e.v), e.f)

T_ReplaceFail(e) ==
  /\ e.ev = "replace_fail" /\ e.res = "err"
  /\ Post(e) = S /\ UNCHANGED vars

TraceNext ==
  /\ l < Len(Rec)
  /\ l' = l + 1
  /\ LET e == Rec[l + 1] IN
       \/ T_Reset(e)
       \/ /\ T_Add(e) \/ T_Remove(e) \/ T_Replace(e) \/ T_ReplaceFail(e)
          /\ ObservedOK(e)

TraceInit == Init /\ l = 0
TraceSpec == TraceInit /\ [][TraceNext]_tvars

Track == (l > TLCGet(1) => TLCSet(1, l)) /\ TRUE

TraceAccepted ==
  /\ IF TLCGet(1) = Len(Rec)
     THEN PrintT(<<"TRACE-ACCEPTED", TLCGet(1)>>)
     ELSE /\ PrintT(<<"TRACE-REJECTED", TLCGet(1), Len(Rec)>>)
          /\ PrintT(<<"FIRST-UNEXPLAINED", Rec[TLCGet(1) + 1]>>)
  /\ TRUE
=============================================================================
