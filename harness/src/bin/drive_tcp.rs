//! C18 I->S driver (spec/TcpRelay.tla, validated by spec/Trace_TcpRelay.tla).
//!
//! Drives real TCP sessions through a real sozu worker (plain TCP clusters and the three
//! proxy-protocol modes) with position-coded payloads in both directions (byte i of a direction is
//! a fixed function of (run seed, direction, i)), sizes around the buffer boundaries, slow readers
//! on either side (small SO_RCVBUF, delayed reads) to force back-pressure, and a half-close from
//! either side at a seeded point of the stream. Each session has four peer threads; each records
//! what it observes in its own program order (Sent / Fin for the writers, Rcvd / Eof / Stall for
//! the readers). No clock is used to merge them: the trace spec joins them through data flow only.
//!
//! Output (--out): ndjson, per run a `reset` line with the four event counts followed by the
//! events of observer 1 (client writer), 2 (backend writer), 3 (client reader), 4 (backend
//! reader); a final `reset` with run -1 closes the file. stdout: one summary JSON line.

#[path = "../c18kit.rs"]
mod kit;

use std::io::{Read, Write};
use std::net::{Shutdown, TcpListener, TcpStream};
use std::sync::atomic::{AtomicBool, AtomicU64, AtomicUsize, Ordering};
use std::sync::mpsc::{Receiver, Sender, channel};
use std::sync::{Arc, Condvar, Mutex};
use std::time::{Duration, Instant};

use serde_json::{Value, json};
use sozu_command_lib::proto::command::{Status, request::RequestType};
use sozu_lib::protocol::proxy_protocol::header::{Command, HeaderV2};
use vh::util::{emit, quiet_panics};
use vh::worker::Worker;

fn arg(name: &str, default: &str) -> String {
    let a: Vec<String> = std::env::args().collect();
    a.iter().position(|x| x == name).and_then(|i| a.get(i + 1).cloned()).unwrap_or_else(|| default.to_string())
}

struct Rng(u64);
impl Rng {
    fn next(&mut self) -> u64 {
        self.0 = self.0.wrapping_add(0x9E37_79B9_7F4A_7C15);
        let mut z = self.0;
        z = (z ^ (z >> 30)).wrapping_mul(0xBF58_476D_1CE4_E5B9);
        z = (z ^ (z >> 27)).wrapping_mul(0x94D0_49BB_1331_11EB);
        z ^ (z >> 31)
    }
    fn below(&mut self, n: u64) -> u64 {
        if n == 0 { 0 } else { self.next() % n }
    }
    fn pick<T: Copy>(&mut self, xs: &[T]) -> T {
        xs[self.below(xs.len() as u64) as usize]
    }
}

#[derive(Clone)]
struct Gate(Arc<(Mutex<bool>, Condvar)>);
impl Gate {
    fn new() -> Gate {
        Gate(Arc::new((Mutex::new(false), Condvar::new())))
    }
    fn open(&self) {
        *self.0.0.lock().unwrap() = true;
        self.0.1.notify_all();
    }
    fn wait(&self, max: Duration) -> bool {
        let dl = Instant::now() + max;
        let mut g = self.0.0.lock().unwrap();
        while !*g {
            let now = Instant::now();
            if now >= dl {
                return false;
            }
            g = self.0.1.wait_timeout(g, dl - now).unwrap().0;
        }
        true
    }
}

#[derive(Clone)]
enum WStep {
    Write(u64),
    WaitGate,
    Fin,
}

static PATIENCE: AtomicUsize = AtomicUsize::new(1);
/// nothing moved for this long = Stall (12 s; the solo re-run of a doubtful session multiplies it)
fn io_deadline() -> Duration {
    Duration::from_secs(12 * PATIENCE.load(Ordering::Relaxed).max(1) as u64)
}

/// Writer thread: position-coded bytes; logs Sent per accepted write (coalesced), Fin on shutdown.
fn writer(mut s: TcpStream, o: u8, run: u64, seed: u64, dir: u8, plan: Vec<WStep>, gate: Gate, chunk_max: usize, rng_seed: u64) -> Vec<Value> {
    let dname = if dir == 0 { "c2b" } else { "b2c" };
    let mut ev: Vec<Value> = Vec::new();
    let mut rng = Rng(rng_seed);
    let mut off: u64 = 0;
    let mut pend: Option<(u64, u64)> = None; // coalesced Sent (off, len)
    let flush = |ev: &mut Vec<Value>, pend: &mut Option<(u64, u64)>| {
        if let Some((a, l)) = pend.take() {
            ev.push(json!({"ev":"Sent","run":run,"o":o,"d":dname,"off":a,"len":l}));
        }
    };
    let _ = s.set_write_timeout(Some(io_deadline()));
    let mut buf = vec![0u8; chunk_max.max(1)];
    for st in plan {
        match st {
            WStep::Write(n) => {
                let end = off + n;
                while off < end {
                    let want = ((1 + rng.below(chunk_max as u64)) as u64).min(end - off) as usize;
                    kit::fill(seed, dir, off, &mut buf[..want]);
                    match s.write(&buf[..want]) {
                        Ok(0) => {
                            flush(&mut ev, &mut pend);
                            ev.push(json!({"ev":"Stall","run":run,"o":o,"d":dname,"why":"write returned 0","off":off}));
                            return ev;
                        }
                        Ok(k) => {
                            match pend.as_mut() {
                                Some((_, l)) if *l < 256 * 1024 => *l += k as u64,
                                _ => {
                                    flush(&mut ev, &mut pend);
                                    pend = Some((off, k as u64));
                                }
                            }
                            off += k as u64;
                        }
                        Err(e) => {
                            flush(&mut ev, &mut pend);
                            // the peer (sozu) closed the session: a writer can only report it; whether that was
                            // legitimate is decided on the readers' events
                            ev.push(json!({"ev":"WriteEnd","run":run,"o":o,"d":dname,"why":format!("{:?}", e.kind()),"off":off}));
                            return ev;
                        }
                    }
                }
            }
            WStep::WaitGate => {
                flush(&mut ev, &mut pend);
                if !gate.wait(io_deadline()) {
                    ev.push(json!({"ev":"Stall","run":run,"o":o,"d":dname,"why":"the other direction never completed","off":off}));
                    return ev;
                }
            }
            WStep::Fin => {
                flush(&mut ev, &mut pend);
                ev.push(json!({"ev":"Fin","run":run,"o":o,"d":dname,"after":[0,0],"at":off}));
                let _ = s.shutdown(Shutdown::Write);
            }
        }
    }
    flush(&mut ev, &mut pend);
    ev
}

struct ReadCfg {
    target: u64,      // bytes of the stream expected at least
    until_eof: bool,  // keep reading until the end of stream
    chunk: usize,     // read size
    delay_us: u64,    // pause before each read (slow reader)
    skip: Vec<u8>,    // bytes that must precede the stream (proxy header), compared verbatim
}

/// Reader thread: checks the position code; logs Rcvd (coalesced), Eof, Stall.
fn reader(mut s: TcpStream, o: u8, run: u64, seed: u64, dir: u8, cfg: ReadCfg, gate: Gate) -> Vec<Value> {
    let dname = if dir == 0 { "c2b" } else { "b2c" };
    let mut ev: Vec<Value> = Vec::new();
    let mut off: u64 = 0;
    let mut pend: Option<(u64, u64)> = None;
    let flush = |ev: &mut Vec<Value>, pend: &mut Option<(u64, u64)>| {
        if let Some((a, l)) = pend.take() {
            ev.push(json!({"ev":"Rcvd","run":run,"o":o,"d":dname,"off":a,"len":l,"bad":-1}));
        }
    };
    let _ = s.set_read_timeout(Some(io_deadline()));
    let mut buf = vec![0u8; cfg.chunk.max(1)];
    let mut skipped = 0usize;
    let mut gate_opened = false;
    if cfg.target == 0 && cfg.skip.is_empty() {
        gate.open();
        gate_opened = true;
        if !cfg.until_eof {
            return ev;
        }
    }
    loop {
        if cfg.delay_us > 0 {
            std::thread::sleep(Duration::from_micros(cfg.delay_us));
        }
        match s.read(&mut buf) {
            Ok(0) => {
                flush(&mut ev, &mut pend);
                ev.push(json!({"ev":"Eof","run":run,"o":o,"d":dname,"kind":"eof","at":off}));
                return ev;
            }
            Ok(n) => {
                let mut data = &buf[..n];
                if skipped < cfg.skip.len() {
                    let k = (cfg.skip.len() - skipped).min(data.len());
                    if data[..k] != cfg.skip[skipped..skipped + k] {
                        flush(&mut ev, &mut pend);
                        ev.push(json!({"ev":"Rcvd","run":run,"o":o,"d":dname,"off":0,"len":k,"bad":0,
                                       "why":"proxy header differs","got":data[..k].to_vec(),"want":cfg.skip[skipped..skipped+k].to_vec()}));
                        return ev;
                    }
                    skipped += k;
                    data = &data[k..];
                }
                if !data.is_empty() {
                    let bad = kit::first_bad(seed, dir, off, data);
                    if bad >= 0 {
                        flush(&mut ev, &mut pend);
                        ev.push(json!({"ev":"Rcvd","run":run,"o":o,"d":dname,"off":off,"len":data.len(),"bad":bad}));
                        return ev;
                    }
                    match pend.as_mut() {
                        Some((_, l)) if *l < 256 * 1024 => *l += data.len() as u64,
                        _ => {
                            flush(&mut ev, &mut pend);
                            pend = Some((off, data.len() as u64));
                        }
                    }
                    off += data.len() as u64;
                }
                if off >= cfg.target && skipped == cfg.skip.len() {
                    if !gate_opened {
                        gate.open();
                        gate_opened = true;
                    }
                    if !cfg.until_eof {
                        flush(&mut ev, &mut pend);
                        return ev;
                    }
                }
            }
            Err(e) if e.kind() == std::io::ErrorKind::WouldBlock || e.kind() == std::io::ErrorKind::TimedOut => {
                flush(&mut ev, &mut pend);
                ev.push(json!({"ev":"Stall","run":run,"o":o,"d":dname,"at":off,"target":cfg.target,"why":format!("nothing for {} s", io_deadline().as_secs())}));
                return ev;
            }
            Err(e) => {
                flush(&mut ev, &mut pend);
                ev.push(json!({"ev":"Eof","run":run,"o":o,"d":dname,"kind":format!("{:?}", e.kind()),"at":off}));
                return ev;
            }
        }
    }
}

struct Lane {
    clusters: Vec<(String, kit::ClusterAddrs, TcpListener)>, // mode name, addresses, backend listener
}

const HDR_RELAY: [u8; 28] = [0x0D, 0x0A, 0x0D, 0x0A, 0x00, 0x0D, 0x0A, 0x51, 0x55, 0x49, 0x54, 0x0A, 0x21, 0x11, 0x00, 0x0C,
                             10, 9, 8, 7, 10, 1, 2, 3, 0xC0, 0x01, 0x01, 0xBB];

fn sizes(big: bool, rng: &mut Rng) -> u64 {
    let table: &[u64] = if big {
        &[0, 1, 2, 100, 16383, 16384, 16385, 16392, 16393, 16394, 32786, 65535, 65536, 65537, 131072, 262144, 1048575, 1048576, 1048577, 3_000_000, 5_000_001]
    } else {
        &[0, 1, 2, 100, 16383, 16384, 16385, 16392, 16393, 16394, 32786, 65535, 65536, 65537, 131072, 262144, 1048576, 2_000_003]
    };
    rng.pick(table)
}

fn accept_backend(bl: &TcpListener) -> Result<TcpStream, String> {
    bl.set_nonblocking(true).ok();
    let t0 = Instant::now();
    let backend = loop {
        match bl.accept() {
            Ok((s, _)) => break s,
            Err(e) if e.kind() == std::io::ErrorKind::WouldBlock => {
                if t0.elapsed() > Duration::from_secs(6) {
                    return Err("backend connection never arrived".into());
                }
                std::thread::sleep(Duration::from_micros(200));
            }
            Err(e) => return Err(format!("accept: {e}")),
        }
    };
    backend.set_nonblocking(false).ok();
    let _ = backend.set_nodelay(true);
    Ok(backend)
}

/// HTTP upgrade handshake, byte by byte so that nothing of the relayed streams is consumed here
fn ws_handshake(client: &TcpStream, backend: &TcpStream) -> Result<(), String> {
    let until_blank = |s: &TcpStream| -> Result<Vec<u8>, String> {
        let mut s = s.try_clone().map_err(|e| e.to_string())?;
        s.set_read_timeout(Some(Duration::from_secs(6))).ok();
        let mut acc = Vec::new();
        let mut b = [0u8; 1];
        while !acc.ends_with(b"\r\n\r\n") {
            match s.read(&mut b) {
                Ok(1) => acc.push(b[0]),
                Ok(_) => return Err("connection closed during the upgrade handshake".into()),
                Err(e) => return Err(format!("upgrade handshake: {e}")),
            }
            if acc.len() > 8192 {
                return Err("upgrade handshake: no end of headers".into());
            }
        }
        Ok(acc)
    };
    until_blank(backend)?;
    let mut bw0 = backend.try_clone().map_err(|e| e.to_string())?;
    bw0.write_all(b"HTTP/1.1 101 Switching Protocols\r\nUpgrade: websocket\r\nConnection: Upgrade\r\n\r\n").map_err(|e| e.to_string())?;
    let resp = until_blank(client)?;
    if !resp.starts_with(b"HTTP/1.1 101") {
        return Err(format!("upgrade refused: {}", String::from_utf8_lossy(&resp[..resp.len().min(60)])));
    }
    Ok(())
}

/// One session. Returns (reset line, the four event lists, description).
fn run_session(lane: &Lane, run: u64, seed: u64, big: bool) -> Result<(Value, [Vec<Value>; 4]), String> {
    let mut rng = Rng(seed);
    let mode_i = [0usize, 0, 0, 0, 1, 2, 3, 4, 4][rng.below(9) as usize].min(lane.clusters.len() - 1);
    let (mode, cl, bl) = &lane.clusters[mode_i];
    let scenario = ["complete", "complete", "back_fin", "front_fin"][rng.below(4) as usize];
    let mut n_c = sizes(big, &mut rng);
    let mut n_b = sizes(big, &mut rng);
    if rng.below(3) == 0 {
        // keep one direction small so that the other one is the subject
        if rng.below(2) == 0 { n_c = n_c.min(100) } else { n_b = n_b.min(100) }
    }
    let slow = rng.below(4); // 0 none, 1 client reader slow, 2 backend reader slow, 3 both
    let (slow_c, slow_b) = (slow == 1 || slow == 3, slow == 2 || slow == 3);
    let rcvbuf = rng.pick(&[2048usize, 4096, 16384]);
    let rd_cfg = |rng: &mut Rng, slow: bool, n: u64| -> (usize, u64) {
        if !slow {
            return (65536, 0);
        }
        let chunk = rng.pick(&[512usize, 4096, 16384, 65536]);
        let reads = (n / chunk as u64).max(1);
        let delay = (1_200_000 / reads).min(2000); // at most ~1.2 s of sleeping per stream
        (chunk, delay)
    };
    let (c_chunk, c_delay) = rd_cfg(&mut rng, slow_c, n_b);
    let (b_chunk, b_delay) = rd_cfg(&mut rng, slow_b, n_c);
    let wchunk_c = rng.pick(&[1usize, 1000, 16384, 65536, 200_000]);
    let wchunk_b = rng.pick(&[1usize, 1000, 16384, 65536, 200_000]);
    // 1-byte writes only for small streams
    let wchunk_c = if n_c > 70_000 && wchunk_c == 1 { 4096 } else { wchunk_c };
    let wchunk_b = if n_b > 70_000 && wchunk_b == 1 { 4096 } else { wchunk_b };
    let p_c = rng.below(n_c + 1);
    let p_b = rng.below(n_b + 1);
    let pseed = rng.next();

    // backend side accepts with a small receive buffer when it is the slow reader
    kit::set_sockbuf(kit::fd_of_listener(bl), Some(if slow_b { rcvbuf } else { 1 << 20 }), None);
    let client = kit::connect_with_bufs(cl.front, if slow_c { Some(rcvbuf) } else { None }, None).map_err(|e| format!("connect: {e}"))?;
    let _ = client.set_nodelay(true);
    let local = client.local_addr().map_err(|e| e.to_string())?;
    // proxy header the client sends (relay / expect), and what the backend must see first
    let mut cw0 = client.try_clone().map_err(|e| e.to_string())?;
    let mut backend_skip: Vec<u8> = Vec::new();
    match mode.as_str() {
        "relay" => {
            cw0.write_all(&HDR_RELAY).map_err(|e| e.to_string())?;
            backend_skip = HDR_RELAY.to_vec();
        }
        "expect" => {
            cw0.write_all(&HDR_RELAY).map_err(|e| e.to_string())?;
        }
        "send" => {
            backend_skip = HeaderV2::new(Command::Proxy, local, cl.front).into_bytes();
        }
        _ => {}
    }
    if mode == "ws" {
        cw0.write_all(b"GET /ws HTTP/1.1\r\nHost: localhost\r\nUpgrade: websocket\r\nConnection: Upgrade\r\nSec-WebSocket-Key: dGhlIHNhbXBsZSBub25jZQ==\r\nSec-WebSocket-Version: 13\r\n\r\n")
            .map_err(|e| e.to_string())?;
    }
    let backend = accept_backend(bl)?;
    if mode == "ws" {
        ws_handshake(&client, &backend)?;
    }

    let gate = Gate::new();
    let (plan_c, plan_b, c_eof, b_eof, gate_owner) = match scenario {
        "back_fin" => (vec![WStep::Write(n_c)], vec![WStep::Write(p_b), WStep::WaitGate, WStep::Write(n_b - p_b), WStep::Fin], true, true, 4u8),
        "front_fin" => (vec![WStep::Write(p_c), WStep::WaitGate, WStep::Write(n_c - p_c), WStep::Fin], vec![WStep::Write(n_b)], true, true, 3u8),
        _ => (vec![WStep::Write(n_c)], vec![WStep::Write(n_b)], false, false, 0u8),
    };
    let dummy = Gate::new();
    let (cws, bws, crs, brs) = (
        client.try_clone().map_err(|e| e.to_string())?,
        backend.try_clone().map_err(|e| e.to_string())?,
        client.try_clone().map_err(|e| e.to_string())?,
        backend.try_clone().map_err(|e| e.to_string())?,
    );
    let (g1, g2, g3, g4) = (gate.clone(), gate.clone(), if gate_owner == 3 { gate.clone() } else { dummy.clone() },
                            if gate_owner == 4 { gate.clone() } else { dummy.clone() });
    let (r1, r2) = (rng.next(), rng.next());
    let h1 = std::thread::spawn(move || writer(cws, 1, run, pseed, 0, plan_c, g1, wchunk_c, r1));
    let h2 = std::thread::spawn(move || writer(bws, 2, run, pseed, 1, plan_b, g2, wchunk_b, r2));
    let h3 = std::thread::spawn(move || reader(crs, 3, run, pseed, 1, ReadCfg { target: n_b, until_eof: c_eof, chunk: c_chunk, delay_us: c_delay, skip: Vec::new() }, g3));
    let h4 = std::thread::spawn(move || reader(brs, 4, run, pseed, 0, ReadCfg { target: n_c, until_eof: b_eof, chunk: b_chunk, delay_us: b_delay, skip: backend_skip }, g4));
    let e1 = h1.join().map_err(|_| "writer panicked")?;
    let e2 = h2.join().map_err(|_| "writer panicked")?;
    let e3 = h3.join().map_err(|_| "reader panicked")?;
    let e4 = h4.join().map_err(|_| "reader panicked")?;
    // WriteEnd markers are informative only: drop them from the validated stream
    let keep = |v: Vec<Value>| -> Vec<Value> { v.into_iter().filter(|e| e["ev"] != "WriteEnd").collect() };
    let (e1, e2) = (keep(e1), keep(e2));
    kit::set_linger0(kit::fd_of(&client));
    drop(client);
    drop(backend);
    let reset = json!({"ev":"reset","run":run,"n":[e1.len(),e2.len(),e3.len(),e4.len()],
                       "mode":mode,"scenario":scenario,"n_c":n_c,"n_b":n_b,"p_c":p_c,"p_b":p_b,
                       "slow_client_reader":slow_c,"slow_backend_reader":slow_b,"rcvbuf":rcvbuf,
                       "seed":seed.to_string()});
    Ok((reset, [e1, e2, e3, e4]))
}

// ------------------------------------------------------------------------------------------------
// Paced sessions: the peers follow a script of the environment actions of TcpRelay.tla (Peer_Write,
// Peer_Fin, Peer_Read and, above all, NOT reading) so that the states "sender finished and closed,
// receiver slow or silent, kernel queues full, bytes left in sozu" are reached on purpose:
//   * reader stalls for whole phases; transfers larger than every buffer of the path;
//   * the worker's own sockets get small send buffers in part of the sessions (the kernel buffers
//     are environment: tcp_wmem of the host), so that kilobytes are enough to block a socket;
//   * the end of stream is sent while bytes are pending: with the data, after the sender's socket
//     was drained by sozu ("FIN on its own"), or while the reader crawls.
// The four peer threads record the same events as in the free-running sessions; the verdict is
// the trace validation, the script and the queue probes only decide WHEN a peer acts.
// ------------------------------------------------------------------------------------------------

struct Prog {
    bytes: AtomicU64,    // stream bytes written / read so far
    pending: AtomicUsize, // commands sent and not finished
    ended: AtomicBool,   // the thread has returned (eof, error, stall)
}

enum WCmd {
    Write(u64),
    Pause(u64),
    Fin,
    End,
}

enum RCmd {
    /// read n more stream bytes (stops early at the end of stream)
    Read { n: u64, chunk: usize, delay_us: u64 },
    /// the rest: at least up to `target`, and on to the end of stream if `until_eof`
    Finish { target: u64, until_eof: bool, chunk: usize, delay_us: u64 },
}

fn paced_writer(mut s: TcpStream, o: u8, run: u64, seed: u64, dir: u8, rx: Receiver<WCmd>, prog: Arc<Prog>, chunk_max: usize, rng_seed: u64) -> Vec<Value> {
    let dname = if dir == 0 { "c2b" } else { "b2c" };
    let mut ev: Vec<Value> = Vec::new();
    let mut rng = Rng(rng_seed);
    let mut off: u64 = 0;
    let mut pend: Option<(u64, u64)> = None;
    let flush = |ev: &mut Vec<Value>, pend: &mut Option<(u64, u64)>| {
        if let Some((a, l)) = pend.take() {
            ev.push(json!({"ev":"Sent","run":run,"o":o,"d":dname,"off":a,"len":l}));
        }
    };
    let _ = s.set_write_timeout(Some(io_deadline()));
    let mut buf = vec![0u8; chunk_max.max(1)];
    'cmds: while let Ok(cmd) = rx.recv() {
        match cmd {
            WCmd::Write(n) => {
                let end = off + n;
                while off < end {
                    let want = ((1 + rng.below(chunk_max as u64)) as u64).min(end - off) as usize;
                    kit::fill(seed, dir, off, &mut buf[..want]);
                    match s.write(&buf[..want]) {
                        Ok(0) => {
                            flush(&mut ev, &mut pend);
                            ev.push(json!({"ev":"Stall","run":run,"o":o,"d":dname,"why":"write returned 0","off":off}));
                            break 'cmds;
                        }
                        Ok(k) => {
                            match pend.as_mut() {
                                Some((_, l)) if *l < 256 * 1024 => *l += k as u64,
                                _ => {
                                    flush(&mut ev, &mut pend);
                                    pend = Some((off, k as u64));
                                }
                            }
                            off += k as u64;
                            prog.bytes.store(off, Ordering::SeqCst);
                        }
                        Err(e) if e.kind() == std::io::ErrorKind::WouldBlock || e.kind() == std::io::ErrorKind::TimedOut => {
                            flush(&mut ev, &mut pend);
                            ev.push(json!({"ev":"Stall","run":run,"o":o,"d":dname,"off":off,
                                           "why":format!("a write did not move for {} s", io_deadline().as_secs())}));
                            break 'cmds;
                        }
                        Err(e) => {
                            flush(&mut ev, &mut pend);
                            ev.push(json!({"ev":"WriteEnd","run":run,"o":o,"d":dname,"why":format!("{:?}", e.kind()),"off":off}));
                            break 'cmds;
                        }
                    }
                }
            }
            WCmd::Pause(ms) => std::thread::sleep(Duration::from_millis(ms)),
            WCmd::Fin => {
                flush(&mut ev, &mut pend);
                ev.push(json!({"ev":"Fin","run":run,"o":o,"d":dname,"after":[0,0],"at":off}));
                let _ = s.shutdown(Shutdown::Write);
            }
            WCmd::End => {
                prog.pending.fetch_sub(1, Ordering::SeqCst);
                break;
            }
        }
        prog.pending.fetch_sub(1, Ordering::SeqCst);
    }
    flush(&mut ev, &mut pend);
    prog.ended.store(true, Ordering::SeqCst);
    ev
}

fn paced_reader(mut s: TcpStream, o: u8, run: u64, seed: u64, dir: u8, skip: Vec<u8>, rx: Receiver<RCmd>, prog: Arc<Prog>) -> Vec<Value> {
    let dname = if dir == 0 { "c2b" } else { "b2c" };
    let mut ev: Vec<Value> = Vec::new();
    let mut off: u64 = 0;
    let mut pend: Option<(u64, u64)> = None;
    let flush = |ev: &mut Vec<Value>, pend: &mut Option<(u64, u64)>| {
        if let Some((a, l)) = pend.take() {
            ev.push(json!({"ev":"Rcvd","run":run,"o":o,"d":dname,"off":a,"len":l,"bad":-1}));
        }
    };
    let _ = s.set_read_timeout(Some(io_deadline()));
    let mut skipped = 0usize;
    let mut buf = vec![0u8; 65536];
    'cmds: while let Ok(cmd) = rx.recv() {
        let (goal, until_eof, chunk, delay_us, last) = match cmd {
            RCmd::Read { n, chunk, delay_us } => (off.saturating_add(n), false, chunk, delay_us, false),
            RCmd::Finish { target, until_eof, chunk, delay_us } => (target, until_eof, chunk, delay_us, true),
        };
        loop {
            if !until_eof && off >= goal && skipped == skip.len() {
                break;
            }
            if delay_us > 0 {
                std::thread::sleep(Duration::from_micros(delay_us));
            }
            // never read beyond the goal of a bounded command: the rest belongs to a later phase of the script
            let room = if until_eof || skipped < skip.len() { chunk.max(1) } else { (chunk.max(1) as u64).min(goal - off) as usize };
            match s.read(&mut buf[..room.min(65536)]) {
                Ok(0) => {
                    flush(&mut ev, &mut pend);
                    ev.push(json!({"ev":"Eof","run":run,"o":o,"d":dname,"kind":"eof","at":off}));
                    prog.pending.fetch_sub(1, Ordering::SeqCst);
                    break 'cmds;
                }
                Ok(n) => {
                    let mut data = &buf[..n];
                    if skipped < skip.len() {
                        let k = (skip.len() - skipped).min(data.len());
                        if data[..k] != skip[skipped..skipped + k] {
                            flush(&mut ev, &mut pend);
                            ev.push(json!({"ev":"Rcvd","run":run,"o":o,"d":dname,"off":0,"len":k,"bad":0,
                                           "why":"proxy header differs","got":data[..k].to_vec(),"want":skip[skipped..skipped+k].to_vec()}));
                            prog.pending.fetch_sub(1, Ordering::SeqCst);
                            break 'cmds;
                        }
                        skipped += k;
                        data = &data[k..];
                    }
                    if !data.is_empty() {
                        let bad = kit::first_bad(seed, dir, off, data);
                        if bad >= 0 {
                            flush(&mut ev, &mut pend);
                            ev.push(json!({"ev":"Rcvd","run":run,"o":o,"d":dname,"off":off,"len":data.len(),"bad":bad}));
                            prog.pending.fetch_sub(1, Ordering::SeqCst);
                            break 'cmds;
                        }
                        match pend.as_mut() {
                            Some((_, l)) if *l < 256 * 1024 => *l += data.len() as u64,
                            _ => {
                                flush(&mut ev, &mut pend);
                                pend = Some((off, data.len() as u64));
                            }
                        }
                        off += data.len() as u64;
                        prog.bytes.store(off, Ordering::SeqCst);
                    }
                }
                Err(e) if e.kind() == std::io::ErrorKind::WouldBlock || e.kind() == std::io::ErrorKind::TimedOut => {
                    flush(&mut ev, &mut pend);
                    ev.push(json!({"ev":"Stall","run":run,"o":o,"d":dname,"at":off,"target":goal,
                                   "why":format!("nothing for {} s", io_deadline().as_secs())}));
                    prog.pending.fetch_sub(1, Ordering::SeqCst);
                    break 'cmds;
                }
                Err(e) => {
                    flush(&mut ev, &mut pend);
                    ev.push(json!({"ev":"Eof","run":run,"o":o,"d":dname,"kind":format!("{:?}", e.kind()),"at":off}));
                    prog.pending.fetch_sub(1, Ordering::SeqCst);
                    break 'cmds;
                }
            }
        }
        prog.pending.fetch_sub(1, Ordering::SeqCst);
        if last {
            break;
        }
    }
    flush(&mut ev, &mut pend);
    prog.ended.store(true, Ordering::SeqCst);
    ev
}

struct Actor<C> {
    tx: Sender<C>,
    prog: Arc<Prog>,
}
impl<C> Actor<C> {
    fn send(&self, c: C) {
        self.prog.pending.fetch_add(1, Ordering::SeqCst);
        if self.tx.send(c).is_err() {
            self.prog.pending.fetch_sub(1, Ordering::SeqCst);
        }
    }
    /// Wait until the actor has nothing left to do (true), or has not moved a byte for `quiet`
    /// although it has (false: it is blocked by back-pressure / starved), or `max` passed (false).
    fn settle(&self, quiet: Duration, max: Duration) -> bool {
        let t0 = Instant::now();
        let mut last = self.prog.bytes.load(Ordering::SeqCst);
        let mut since = Instant::now();
        loop {
            if self.prog.ended.load(Ordering::SeqCst) || self.prog.pending.load(Ordering::SeqCst) == 0 {
                return true;
            }
            let b = self.prog.bytes.load(Ordering::SeqCst);
            if b != last {
                last = b;
                since = Instant::now();
            } else if since.elapsed() >= quiet {
                return false;
            }
            if t0.elapsed() >= max {
                return false;
            }
            std::thread::sleep(Duration::from_millis(2));
        }
    }
}

/// One paced session. Same result shape as run_session.
fn run_paced(lane: &Lane, run: u64, seed: u64, big: bool) -> Result<(Value, [Vec<Value>; 4]), String> {
    let mut rng = Rng(seed ^ 0x5041_4345);
    let mode_i = [0usize, 0, 0, 1, 2, 3, 4, 4][rng.below(8) as usize].min(lane.clusters.len() - 1);
    let (mode, cl, bl) = &lane.clusters[mode_i];
    // the subject direction: mostly the response (a client FIN is the open finding FrontFinDrops)
    let d: u8 = if rng.below(4) == 0 { 0 } else { 1 };
    let template = ["stall_fin", "stall_fin", "tail_fin", "tail_fin", "crawl_fin", "partial_fin", "both_loaded"][rng.below(7) as usize];
    // kernel buffers: small and fixed (most sessions) or the host's defaults with megabytes
    let natural = rng.below(6) == 0;
    let rcvbuf = rng.pick(&[2048usize, 4096, 16384]);
    let sndbuf = rng.pick(&[4096usize, 8192, 32768]);
    let n_d: u64 = if natural {
        let t: &[u64] = if big { &[5_000_011, 9_000_000, 14_000_000, 24_000_001] } else { &[5_000_011, 7_000_000, 9_000_000] };
        rng.pick(t)
    } else {
        // around and beyond what the forced buffers + sozu's 16 KiB buffer hold
        rng.pick(&[9_000u64, 20_000, 33_000, 48_000, 70_000, 100_000, 140_000, 200_000, 400_000, 1_000_003])
    };
    let n_o: u64 = if template == "both_loaded" { rng.pick(&[30_000u64, 150_000, 600_000]) } else { rng.pick(&[0u64, 0, 1, 64, 100]) };
    let (n_c, n_b) = if d == 1 { (n_o, n_d) } else { (n_d, n_o) };
    let fin_pause = rng.pick(&[0u64, 0, 15, 60, 250]);      // between "everything written" and the FIN
    let resume_pause = rng.pick(&[10u64, 40, 120, 400]);    // between the FIN and the reader's (re)start
    let crawl_chunk = rng.pick(&[512usize, 2048, 8192]);
    let crawl_delay = rng.pick(&[300u64, 1000, 2500]);
    let fast = rng.below(2) == 0;
    let (fin_chunk, fin_delay) = if fast { (65536usize, 0u64) } else { (rng.pick(&[1024usize, 4096, 16384]), rng.pick(&[0u64, 200, 800])) };
    let wchunk = rng.pick(&[1000usize, 16384, 65536, 200_000]);
    let pseed = rng.next();

    kit::set_sockbuf(kit::fd_of_listener(bl), Some(if natural { 1 << 20 } else { rcvbuf }), None);
    let client = kit::connect_with_bufs(cl.front, if natural { None } else { Some(rcvbuf) }, None).map_err(|e| format!("connect: {e}"))?;
    let _ = client.set_nodelay(true);
    let local = client.local_addr().map_err(|e| e.to_string())?;
    let mut cw0 = client.try_clone().map_err(|e| e.to_string())?;
    let mut backend_skip: Vec<u8> = Vec::new();
    match mode.as_str() {
        "relay" => {
            cw0.write_all(&HDR_RELAY).map_err(|e| e.to_string())?;
            backend_skip = HDR_RELAY.to_vec();
        }
        "expect" => {
            cw0.write_all(&HDR_RELAY).map_err(|e| e.to_string())?;
        }
        "send" => {
            backend_skip = HeaderV2::new(Command::Proxy, local, cl.front).into_bytes();
        }
        _ => {}
    }
    if mode == "ws" {
        cw0.write_all(b"GET /ws HTTP/1.1\r\nHost: localhost\r\nUpgrade: websocket\r\nConnection: Upgrade\r\nSec-WebSocket-Key: dGhlIHNhbXBsZSBub25jZQ==\r\nSec-WebSocket-Version: 13\r\n\r\n")
            .map_err(|e| e.to_string())?;
    }
    let backend = accept_backend(bl)?;
    if mode == "ws" {
        ws_handshake(&client, &backend)?;
    }
    let sozu_back_local = backend.peer_addr().map_err(|e| e.to_string())?;
    let back_addr = backend.local_addr().map_err(|e| e.to_string())?;
    // the worker's sockets towards both peers: small send buffers (no autotuning) unless `natural`
    let mut forced: (Option<i32>, Option<i32>) = (None, None);
    if !natural {
        forced.0 = kit::shrink_sndbuf(cl.front, local, sndbuf, Duration::from_secs(2));
        forced.1 = kit::shrink_sndbuf(sozu_back_local, back_addr, sndbuf, Duration::from_secs(2));
    }

    let mk_prog = || Arc::new(Prog { bytes: AtomicU64::new(0), pending: AtomicUsize::new(0), ended: AtomicBool::new(false) });
    let (p1, p2, p3, p4) = (mk_prog(), mk_prog(), mk_prog(), mk_prog());
    let (t1, r1) = channel::<WCmd>();
    let (t2, r2) = channel::<WCmd>();
    let (t3, r3) = channel::<RCmd>();
    let (t4, r4) = channel::<RCmd>();
    let (cws, bws, crs, brs) = (
        client.try_clone().map_err(|e| e.to_string())?,
        backend.try_clone().map_err(|e| e.to_string())?,
        client.try_clone().map_err(|e| e.to_string())?,
        backend.try_clone().map_err(|e| e.to_string())?,
    );
    let (s1, s2) = (rng.next(), rng.next());
    let (q1, q2, q3, q4) = (p1.clone(), p2.clone(), p3.clone(), p4.clone());
    let h1 = std::thread::spawn(move || paced_writer(cws, 1, run, pseed, 0, r1, q1, wchunk, s1));
    let h2 = std::thread::spawn(move || paced_writer(bws, 2, run, pseed, 1, r2, q2, wchunk, s2));
    let h3 = std::thread::spawn(move || paced_reader(crs, 3, run, pseed, 1, Vec::new(), r3, q3));
    let h4 = std::thread::spawn(move || paced_reader(brs, 4, run, pseed, 0, backend_skip, r4, q4));
    let cw = Actor { tx: t1, prog: p1 };
    let bw = Actor { tx: t2, prog: p2 };
    let cr = Actor { tx: t3, prog: p3 };
    let br = Actor { tx: t4, prog: p4 };
    // subject direction d: its writer / reader; the other direction o
    let (wd, rd_, wo, ro) = if d == 1 { (&bw, &cr, &cw, &br) } else { (&cw, &br, &bw, &cr) };
    let quiet = Duration::from_millis(150);
    let long = Duration::from_secs(6);
    let mut notes: Vec<Value> = Vec::new();
    // the sender-side hop of direction d is empty: the writer's socket has no unacknowledged byte and sozu has read
    // everything out of its own socket (black-box probes, pacing only)
    let writer_fd = if d == 1 { kit::fd_of(&backend) } else { kit::fd_of(&client) };
    let (sozu_rx_local, sozu_rx_peer) = if d == 1 { (sozu_back_local, back_addr) } else { (cl.front, local) };
    let hop_empty = || kit::outq(writer_fd) == Some(0) && matches!(kit::rx_queue(&sozu_rx_local, &sozu_rx_peer), Some(0) | None);

    let with_fin = template != "both_loaded";
    if template != "both_loaded" && n_o > 0 {
        // the other direction first, completely (a peer that still writes when the session is closed gets a reset:
        // that is TCP, not the relay)
        wo.send(WCmd::Write(n_o));
        ro.send(RCmd::Read { n: n_o, chunk: 65536, delay_us: 0 });
        wo.settle(quiet, long);
        ro.settle(Duration::from_secs(3), long);
    }
    match template {
        "stall_fin" => {
            // the reader is silent; the sender writes everything (or as much as the path takes), then finishes
            wd.send(WCmd::Write(n_d));
            let done = wd.settle(quiet, long);
            notes.push(json!({"written_before_stall_ends": wd.prog.bytes.load(Ordering::SeqCst), "writer_done": done}));
            wd.send(WCmd::Pause(fin_pause));
            wd.send(WCmd::Fin);
            if done {
                wd.settle(Duration::from_secs(2), long);
            }
            std::thread::sleep(Duration::from_millis(resume_pause));
        }
        "tail_fin" => {
            // the reader is silent until the path is full, then reads in small steps until sozu has emptied the
            // sender's side: what is left sits in sozu's buffer and beyond. Then the end of stream arrives on its own.
            wd.send(WCmd::Write(n_d));
            let done = wd.settle(quiet, long);
            let mut steps = 0u64;
            let t0 = Instant::now();
            let step = (n_d / 400).clamp(1024, 65536);
            while !(wd.prog.pending.load(Ordering::SeqCst) == 0 && hop_empty()) && steps < 1000 && t0.elapsed() < Duration::from_secs(6)
                && !rd_.prog.ended.load(Ordering::SeqCst) && rd_.prog.bytes.load(Ordering::SeqCst) + step < n_d {
                rd_.send(RCmd::Read { n: step, chunk: step as usize, delay_us: 0 });
                rd_.settle(Duration::from_millis(60), Duration::from_millis(300));
                steps += 1;
                std::thread::sleep(Duration::from_micros(300));
            }
            notes.push(json!({"writer_done_at_first": done, "drain_steps": steps, "hop_empty": hop_empty(),
                              "read_before_fin": rd_.prog.bytes.load(Ordering::SeqCst)}));
            std::thread::sleep(Duration::from_millis(fin_pause.max(15)));
            wd.send(WCmd::Fin);
            wd.settle(Duration::from_secs(2), long);
            std::thread::sleep(Duration::from_millis(resume_pause));
        }
        "crawl_fin" => {
            // the reader crawls from the start; the sender writes everything and finishes at once
            rd_.send(RCmd::Read { n: n_d / 2, chunk: crawl_chunk, delay_us: crawl_delay.min(1_500_000 / (n_d / 2 / crawl_chunk as u64).max(1)) });
            wd.send(WCmd::Write(n_d));
            wd.send(WCmd::Pause(fin_pause));
            wd.send(WCmd::Fin);
            wd.settle(Duration::from_millis(400), long);
        }
        "partial_fin" => {
            wd.send(WCmd::Write(n_d));
            wd.settle(quiet, long);
            let m = 1 + rng.below(n_d.max(2) - 1);
            rd_.send(RCmd::Read { n: m, chunk: crawl_chunk, delay_us: 0 });
            rd_.settle(quiet, long);
            notes.push(json!({"partial_read": rd_.prog.bytes.load(Ordering::SeqCst), "of": m}));
            wd.send(WCmd::Pause(fin_pause));
            wd.send(WCmd::Fin);
            wd.settle(quiet, long);
            std::thread::sleep(Duration::from_millis(resume_pause));
        }
        _ => {
            // both directions loaded against silent readers, then the readers start in a seeded order; no FIN
            wd.send(WCmd::Write(n_d));
            wo.send(WCmd::Write(n_o));
            wd.settle(quiet, long);
            wo.settle(quiet, long);
            std::thread::sleep(Duration::from_millis(resume_pause));
            if rng.below(2) == 0 {
                ro.send(RCmd::Read { n: n_o / 2, chunk: crawl_chunk, delay_us: 0 });
                ro.settle(quiet, long);
            }
        }
    }
    // the rest of both streams
    let (target_c, target_b) = (n_b, n_c); // what the client / backend reader must get
    let eof = with_fin;
    let (fc, fd_) = if d == 1 { ((fin_chunk, fin_delay), (65536usize, 0u64)) } else { ((65536usize, 0u64), (fin_chunk, fin_delay)) };
    // a crawling final read is bounded in time (~1.5 s of sleeping)
    let bound = |n: u64, chunk: usize, delay: u64| -> u64 { delay.min(1_500_000 / (n / chunk as u64).max(1)) };
    cr.send(RCmd::Finish { target: target_c, until_eof: eof, chunk: fc.0, delay_us: bound(target_c, fc.0, fc.1) });
    br.send(RCmd::Finish { target: target_b, until_eof: eof, chunk: fd_.0, delay_us: bound(target_b, fd_.0, fd_.1) });
    cw.send(WCmd::End);
    bw.send(WCmd::End);
    let e1 = h1.join().map_err(|_| "writer panicked")?;
    let e2 = h2.join().map_err(|_| "writer panicked")?;
    let e3 = h3.join().map_err(|_| "reader panicked")?;
    let e4 = h4.join().map_err(|_| "reader panicked")?;
    let keep = |v: Vec<Value>| -> Vec<Value> { v.into_iter().filter(|e| e["ev"] != "WriteEnd").collect() };
    let (e1, e2) = (keep(e1), keep(e2));
    kit::set_linger0(kit::fd_of(&client));
    drop(client);
    drop(backend);
    let reset = json!({"ev":"reset","run":run,"n":[e1.len(),e2.len(),e3.len(),e4.len()],
                       "mode":mode,"scenario":format!("paced_{template}"),"subject":if d == 1 { "b2c" } else { "c2b" },
                       "n_c":n_c,"n_b":n_b,"p_c":0,"p_b":0,"natural_buffers":natural,"rcvbuf":rcvbuf,
                       "sozu_sndbuf_forced":[forced.0.unwrap_or(-1), forced.1.unwrap_or(-1)],"fin_pause_ms":fin_pause,"resume_pause_ms":resume_pause,
                       "final_read":[fin_chunk, fin_delay],"notes":notes,
                       "slow_client_reader":d == 1,"slow_backend_reader":d == 0,
                       "seed":seed.to_string()});
    Ok((reset, [e1, e2, e3, e4]))
}

fn main() {
    quiet_panics();
    let seed: u64 = arg("--seed", "1").parse().unwrap_or(1);
    let runs: usize = arg("--runs", "60").parse().unwrap_or(60);
    let threads: usize = arg("--threads", "6").parse().unwrap_or(6);
    let big = arg("--big", "0") == "1";
    let out_path = arg("--out", "/tmp/c18_trace.ndjson");
    // paced sessions are numbered runs+1 .. runs+paced
    let paced: usize = arg("--paced", "0").parse().unwrap_or(0);
    // re-run of one session alone (same seed = same parameters), usually with more patience
    let only: usize = arg("--only", "0").parse().unwrap_or(0);
    PATIENCE.store(arg("--patience", "1").parse().unwrap_or(1), Ordering::Relaxed);
    let threads = if only > 0 { 1 } else { threads };
    let t0 = Instant::now();

    let mut w = Worker::start_empty("c18drive");
    let mut lanes: Vec<Lane> = Vec::new();
    let mut setup_err: Option<String> = None;
    'setup: for t in 0..threads {
        let mut clusters = Vec::new();
        for mode in ["plain", "send", "relay", "expect"] {
            match kit::add_tcp_cluster(&mut w, &format!("c18d-{mode}-{t}"), kit::mode_of(mode), false, None) {
                Ok(cl) => match TcpListener::bind(cl.back) {
                    Ok(l) => clusters.push((mode.to_string(), cl, l)),
                    Err(e) => {
                        setup_err = Some(format!("backend bind: {e}"));
                        break 'setup;
                    }
                },
                Err(e) => {
                    setup_err = Some(e);
                    break 'setup;
                }
            }
        }
        // an HTTP listener whose sessions become pipes after a WebSocket upgrade
        {
            let front = kit::free_addr_fam(false);
            let back = kit::free_addr_fam(false);
            let id = format!("c18d-ws-{t}");
            let tmo = Duration::from_secs(5);
            let okk = w.add_http_listener(front, tmo)
                && vh::worker::ok(&w.request(RequestType::AddCluster(Worker::default_cluster(&id)), tmo))
                && vh::worker::ok(&w.request(RequestType::AddHttpFrontend(Worker::http_frontend(&id, front, "localhost", "/")), tmo))
                && vh::worker::ok(&w.request(RequestType::AddBackend(Worker::backend(&id, &format!("{id}-b"), back)), tmo));
            match (okk, TcpListener::bind(back)) {
                (true, Ok(l)) => clusters.push(("ws".to_string(), kit::ClusterAddrs { id, front, back }, l)),
                _ => {
                    setup_err = Some("websocket cluster setup failed".into());
                    break 'setup;
                }
            }
        }
        lanes.push(Lane { clusters });
    }
    let results: Arc<Mutex<Vec<(usize, Result<(Value, [Vec<Value>; 4]), String>)>>> = Arc::new(Mutex::new(Vec::new()));
    let worker = Arc::new(Mutex::new(w));
    let dead = Arc::new(AtomicBool::new(false));
    if setup_err.is_none() {
        let next = Arc::new(AtomicUsize::new(0));
        let mut hs = Vec::new();
        for lane in lanes {
            let (next, results, dead, worker) = (next.clone(), results.clone(), dead.clone(), worker.clone());
            hs.push(std::thread::spawn(move || {
                loop {
                    if dead.load(Ordering::SeqCst) {
                        return;
                    }
                    let k = next.fetch_add(1, Ordering::SeqCst);
                    // paced sessions first: they sleep a lot and overlap with the busy ones
                    let k = if only > 0 {
                        if k > 0 {
                            return;
                        }
                        only - 1
                    } else if k >= runs + paced {
                        return;
                    } else if k < paced {
                        runs + k
                    } else {
                        k - paced
                    };
                    let rseed = seed.wrapping_mul(0x2545_F491_4F6C_DD1D) ^ (k as u64 + 1).wrapping_mul(0x9E37_79B9_7F4A_7C15);
                    let r = if k >= runs { run_paced(&lane, k as u64 + 1, rseed, big) } else { run_session(&lane, k as u64 + 1, rseed, big) };
                    if r.is_err() && worker.lock().unwrap().is_finished() {
                        dead.store(true, Ordering::SeqCst);
                    }
                    results.lock().unwrap().push((k, r));
                }
            }));
        }
        for h in hs {
            let _ = h.join();
        }
    }
    // worker health
    let mut worker_problem: Option<String> = None;
    {
        let mut w = worker.lock().unwrap();
        if w.is_finished() {
            worker_problem = Some(match w.join_within(Duration::from_millis(200)) {
                Err(m) => format!("worker thread panicked: {m}"),
                Ok(_) => "worker thread exited".to_string(),
            });
        } else if w.request(RequestType::Status(Status {}), Duration::from_secs(5)).is_none() {
            worker_problem = Some("worker does not answer Status within 5 s".to_string());
        }
    }
    let mut res = results.lock().unwrap();
    res.sort_by_key(|x| x.0);
    let mut f = std::io::BufWriter::new(std::fs::File::create(&out_path).expect("trace file"));
    let mut n_events = 0usize;
    let mut n_runs = 0usize;
    let mut errors: Vec<String> = Vec::new();
    let mut bytes_total: u64 = 0;
    let mut by_scenario: std::collections::BTreeMap<String, usize> = Default::default();
    for (_, r) in res.iter() {
        match r {
            Ok((reset, evs)) => {
                n_runs += 1;
                *by_scenario.entry(format!("{}/{}", reset["mode"].as_str().unwrap(), reset["scenario"].as_str().unwrap())).or_default() += 1;
                bytes_total += reset["n_c"].as_u64().unwrap() + reset["n_b"].as_u64().unwrap();
                writeln!(f, "{}", reset).unwrap();
                n_events += 1;
                for q in evs.iter() {
                    for e in q {
                        writeln!(f, "{}", e).unwrap();
                        n_events += 1;
                    }
                }
            }
            Err(e) => errors.push(e.clone()),
        }
    }
    writeln!(f, "{}", json!({"ev":"reset","run":-1,"n":[0,0,0,0]})).unwrap();
    n_events += 1;
    f.flush().unwrap();
    emit(&json!({"kind":"summary","runs":n_runs,"events":n_events,"bytes":bytes_total,"by_scenario":by_scenario,
                 "errors":errors,"setup_error":setup_err,"worker_problem":worker_problem,
                 "wall_s":t0.elapsed().as_secs_f64()}));
    std::process::exit(0);
}
