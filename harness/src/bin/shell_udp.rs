//! Shell leg of C19: a REAL sozu worker (vh::worker) with a UDP listener, mock UDP backends and
//! clients played by this process, driven in lock step; who-received-what is recorded as an ndjson
//! trace validated by TLC against spec/Trace_UdpShell.tla (the UdpFlows handlers composed the way
//! lib/src/udp.rs composes them: SelectBackend is answered at once by BackendResolved).
//!
//! Every datagram carries its identity ("<id>:" + padding); backends and clients are plain
//! blocking sockets with deadlines. Conclusions of the form "nothing arrived" are only drawn after
//! `--quiet-ms` (default 700 ms; loopback delivery takes microseconds) and only where the spec
//! itself predicts a drop.
//!
//! --out <file>: trace. stdout: violations (worker panic, unreadable datagram) and a summary.

use std::collections::BTreeMap;
use std::io::{BufWriter, Write};
use std::net::{SocketAddr, UdpSocket};
use std::time::{Duration, Instant};

use rand::{RngExt, SeedableRng, rngs::StdRng};
use serde_json::{Value, json};
use sozu_command_lib::proto::command::{
    ActivateListener, Cluster, ListenerType, LoadBalancingAlgorithms, RequestUdpFrontend, UdpAffinityKey, UdpClusterConfig,
    UdpListenerConfig, UpdateUdpListenerConfig, request::RequestType,
};
use vh::worker::{Worker, free_addr, ok};

const CLUSTER: &str = "cluster-1";
const T: Duration = Duration::from_secs(10);

fn payload(id: i64, len: usize) -> Vec<u8> {
    let mut v = format!("{id}:").into_bytes();
    while v.len() < len {
        v.push(b'a' + ((id as usize * 7 + v.len()) % 26) as u8);
    }
    v
}

/// (id, intact): the identity a datagram claims and whether its bytes are exactly what was sent
fn parse(b: &[u8]) -> (i64, bool) {
    let pos = match b.iter().position(|&c| c == b':') {
        Some(p) => p,
        None => return (-1, false),
    };
    let id: i64 = std::str::from_utf8(&b[..pos]).ok().and_then(|s| s.parse().ok()).unwrap_or(-1);
    (id, id >= 0 && payload(id, b.len()) == b)
}

struct Knobs {
    with_port: bool,
    responses: u32,
    requests: u32,
}

fn cluster(k: &Knobs) -> Cluster {
    Cluster {
        load_balancing: LoadBalancingAlgorithms::RoundRobin.into(),
        udp: Some(UdpClusterConfig {
            affinity_key: Some(if k.with_port { UdpAffinityKey::SourceIpPort } else { UdpAffinityKey::SourceIp }.into()),
            responses: Some(k.responses),
            requests: Some(k.requests),
            ..Default::default()
        }),
        ..Worker::default_cluster(CLUSTER)
    }
}

fn cfg_t(k: &Knobs, timeout: u32) -> Value {
    json!([1, k.with_port as i64, k.responses, k.requests, timeout, timeout, 0, 0])
}

struct Shell {
    worker: Worker,
    front: SocketAddr,
    backends: Vec<UdpSocket>,
    clients: Vec<UdpSocket>,
    quiet: Duration,
}

impl Shell {
    /// wait for one datagram on any backend socket: (backend index 1.., upstream port, bytes)
    fn backend_recv(&self, wait: Duration) -> Option<(i64, i64, Vec<u8>)> {
        let deadline = Instant::now() + wait;
        let mut buf = [0u8; 4096];
        loop {
            for (i, b) in self.backends.iter().enumerate() {
                if let Ok((n, from)) = b.recv_from(&mut buf) {
                    return Some((i as i64 + 1, from.port() as i64, buf[..n].to_vec()));
                }
            }
            if Instant::now() >= deadline {
                return None;
            }
        }
    }
    fn client_recv(&self, wait: Duration) -> Option<(i64, Vec<u8>)> {
        let deadline = Instant::now() + wait;
        let mut buf = [0u8; 4096];
        loop {
            for (i, c) in self.clients.iter().enumerate() {
                if let Ok((n, _)) = c.recv_from(&mut buf) {
                    return Some((i as i64 + 1, buf[..n].to_vec()));
                }
            }
            if Instant::now() >= deadline {
                return None;
            }
        }
    }
}

fn setup(name: &str, k: &Knobs, max_flows: u32, max_rx: u32, timeout: u32, n_clients: usize, quiet: Duration) -> Result<Shell, String> {
    let mut worker = Worker::start_empty(name);
    let front = free_addr();
    let l = UdpListenerConfig {
        address: front.into(),
        public_address: None,
        front_timeout: timeout,
        back_timeout: timeout,
        max_rx_datagram_size: max_rx,
        max_flows,
        active: false,
    };
    let steps = [
        RequestType::AddUdpListener(l),
        RequestType::ActivateListener(ActivateListener { address: front.into(), proxy: ListenerType::Udp.into(), from_scm: false }),
        RequestType::AddCluster(cluster(k)),
        RequestType::AddUdpFrontend(RequestUdpFrontend { cluster_id: CLUSTER.into(), address: front.into(), tags: Default::default() }),
    ];
    for rt in steps {
        let what = format!("{rt:?}");
        if !ok(&worker.request(rt, T)) {
            return Err(format!("setup request failed: {}", &what[..what.len().min(80)]));
        }
    }
    let mut backends = Vec::new();
    for i in 1..=2 {
        let addr = free_addr();
        let s = UdpSocket::bind(addr).map_err(|e| e.to_string())?;
        s.set_read_timeout(Some(Duration::from_millis(5))).unwrap();
        if !ok(&worker.request(RequestType::AddBackend(Worker::backend(CLUSTER, &format!("b{i}"), addr)), T)) {
            return Err("AddBackend failed".into());
        }
        backends.push(s);
    }
    let mut clients = Vec::new();
    for _ in 0..n_clients {
        let s = UdpSocket::bind("127.0.0.1:0").map_err(|e| e.to_string())?;
        s.set_read_timeout(Some(Duration::from_millis(5))).unwrap();
        clients.push(s);
    }
    Ok(Shell { worker, front, backends, clients, quiet })
}

/// One lock-step run. Returns (events written, worker panic message if any).
fn one_run(rng: &mut StdRng, run: u64, steps: usize, w: &mut BufWriter<std::fs::File>, cover: &mut BTreeMap<String, u64>, quiet: Duration,
           flips: bool) -> Result<(u64, Option<String>), String> {
    // odd runs start in the configuration where flows can share a backend (3 per-port flows over 2
    // backends): the case where a shell that picked the upstream socket by destination would alias
    let crowded = run % 2 == 1;
    let mut k = Knobs {
        with_port: crowded || rng.random_bool(0.6),
        responses: if crowded { 0 } else { [0, 0, 2][rng.random_range(0..3)] },
        requests: if crowded { 0 } else { [0, 0, 3][rng.random_range(0..3)] },
    };
    let mut cap: u32 = if crowded { 3 } else { rng.random_range(1..4) };
    let max_rx: u32 = 48;
    let timeout = 120u32;
    let mut sh = setup(&format!("c19-{run}"), &k, cap, max_rx, timeout, 3, quiet)?;
    let mut events = 0u64;
    let mut ev = |w: &mut BufWriter<std::fs::File>, v: Value| {
        writeln!(w, "{}", v).expect("write trace");
    };
    ev(w, json!({"ev":"reset","run":run,"cluster":cfg_t(&k, timeout),"maxFlows":cap,"maxRx":max_rx,
                 "clients": sh.clients.iter().map(|c| c.local_addr().unwrap().port()).collect::<Vec<_>>() }));
    events += 1;
    let mut next_id = 0i64;
    // upstream ports seen at the backends, newest last: (port, backend)
    let mut upstreams: Vec<(i64, i64)> = Vec::new();
    let mut bump = |c: &mut BTreeMap<String, u64>, k: &str| *c.entry(k.to_string()).or_default() += 1;
    for step in 0..steps {
        if sh.worker.is_finished() {
            break;
        }
        let warmup = crowded && step < 2 * sh.clients.len();
        let roll = if warmup { 0 } else { rng.random_range(0..100u32) };
        match roll {
            0..50 => {
                // a client datagram; sometimes empty-ish (too long for max_rx)
                let c = if warmup { step % sh.clients.len() } else { rng.random_range(0..sh.clients.len()) };
                next_id += 1;
                let len = if !warmup && rng.random_bool(0.1) { max_rx as usize + 5 } else { rng.random_range(8..=max_rx as usize) };
                let bytes = payload(next_id, len);
                sh.clients[c].send_to(&bytes, sh.front).map_err(|e| e.to_string())?;
                let got = sh.backend_recv(sh.quiet);
                let obs = match &got {
                    None => json!({"got":0}),
                    Some((b, u, data)) => {
                        let (id, intact) = parse(data);
                        if !upstreams.iter().any(|x| x.0 == *u) {
                            upstreams.push((*u, *b));
                        }
                        json!({"got":1,"backend": b, "up": u, "id": id, "intact": intact})
                    }
                };
                bump(cover, if got.is_some() { "c2b:delivered" } else { "c2b:nothing" });
                // a second copy must never follow
                let dup = sh.backend_recv(Duration::from_millis(30)).is_some() as i64;
                ev(w, json!({"ev":"c2b","run":run,"client":c as i64 + 1,"port":sh.clients[c].local_addr().unwrap().port(),
                             "pl":{"id":next_id,"len":len},"obs":obs,"dup":dup}));
                events += 1;
            }
            50..80 => {
                // a backend replies on one of the upstream sockets it has seen (usually its own)
                if upstreams.is_empty() {
                    continue;
                }
                let (u, owner) = upstreams[rng.random_range(0..upstreams.len())];
                let foreign = rng.random_bool(0.2);
                let b = if foreign { 3 - owner } else { owner };
                next_id += 1;
                let len = rng.random_range(8..=max_rx as usize);
                let bytes = payload(next_id, len);
                let dst = SocketAddr::new(sh.front.ip(), u as u16);
                let _ = sh.backends[b as usize - 1].send_to(&bytes, dst);
                let got = sh.client_recv(sh.quiet);
                let obs = match &got {
                    None => json!({"got":0}),
                    Some((c, data)) => {
                        let (id, intact) = parse(data);
                        json!({"got":1,"client": c, "id": id, "intact": intact})
                    }
                };
                bump(cover, if foreign { "b2c:foreign" } else if got.is_some() { "b2c:delivered" } else { "b2c:nothing" });
                let dup = sh.client_recv(Duration::from_millis(30)).is_some() as i64;
                ev(w, json!({"ev":"b2c","run":run,"backend":b,"up":u,"foreign":foreign,"pl":{"id":next_id,"len":len},"obs":obs,"dup":dup}));
                events += 1;
            }
            80..90 => {
                // reconfigure the cluster's UDP knobs (optionally the affinity key)
                if flips && rng.random_bool(0.4) {
                    k.with_port = !k.with_port;
                }
                k.responses = [0, 0, 2][rng.random_range(0..3)];
                k.requests = [0, 0, 3][rng.random_range(0..3)];
                let r = sh.worker.request(RequestType::AddCluster(cluster(&k)), T);
                if !ok(&r) && !sh.worker.is_finished() {
                    return Err("AddCluster not acknowledged".into());
                }
                bump(cover, "cfg:cluster");
                ev(w, json!({"ev":"cfg","run":run,"what":"SetCluster","cfg":cfg_t(&k, timeout)}));
                events += 1;
            }
            90..97 => {
                cap = rng.random_range(1..4);
                let r = sh.worker.request(RequestType::UpdateUdpListener(UpdateUdpListenerConfig {
                    address: sh.front.into(), max_flows: Some(cap), ..Default::default() }), T);
                if !ok(&r) && !sh.worker.is_finished() {
                    return Err("UpdateUdpListener not acknowledged".into());
                }
                bump(cover, "cfg:maxflows");
                // update_listener re-sends SetCluster, SetMaxFlows and SetMaxRx
                ev(w, json!({"ev":"cfg","run":run,"what":"SetMaxFlows","v":cap}));
                events += 1;
            }
            _ => {
                // remove and re-add the frontend: routing disappears, existing flows stay
                let f = RequestUdpFrontend { cluster_id: CLUSTER.into(), address: sh.front.into(), tags: Default::default() };
                let r1 = sh.worker.request(RequestType::RemoveUdpFrontend(f.clone()), T);
                if !ok(&r1) && !sh.worker.is_finished() {
                    return Err("RemoveUdpFrontend not acknowledged".into());
                }
                ev(w, json!({"ev":"cfg","run":run,"what":"SetCluster","cfg":[0, 0, 0, 0, 30, 30, 0, 0]}));
                events += 1;
                // one datagram while unrouted: must go nowhere
                let c = rng.random_range(0..sh.clients.len());
                next_id += 1;
                let bytes = payload(next_id, 16);
                sh.clients[c].send_to(&bytes, sh.front).map_err(|e| e.to_string())?;
                let got = sh.backend_recv(sh.quiet);
                let obs = match &got {
                    None => json!({"got":0}),
                    Some((b, u, data)) => json!({"got":1,"backend": b, "up": u, "id": parse(data).0, "intact": parse(data).1}),
                };
                ev(w, json!({"ev":"c2b","run":run,"client":c as i64 + 1,"port":sh.clients[c].local_addr().unwrap().port(),
                             "pl":{"id":next_id,"len":16},"obs":obs,"dup":0}));
                events += 1;
                let r2 = sh.worker.request(RequestType::AddUdpFrontend(f), T);
                if !ok(&r2) && !sh.worker.is_finished() {
                    return Err("AddUdpFrontend not acknowledged".into());
                }
                bump(cover, "cfg:unroute");
                ev(w, json!({"ev":"cfg","run":run,"what":"SetCluster","cfg":cfg_t(&k, timeout)}));
                events += 1;
            }
        }
    }
    // stop the worker: HardStop tears every flow down and ends the thread
    if !sh.worker.is_finished() {
        let _ = sh.worker.send_type(RequestType::HardStop(Default::default()));
    }
    match sh.worker.join_within(Duration::from_secs(10)) {
        Ok(true) => Ok((events, None)),
        Ok(false) => Err("worker did not stop within 10 s after HardStop".into()),
        Err(p) => Ok((events, Some(p))),
    }
}

fn main() {
    vh::util::quiet_panics();
    let args: Vec<String> = std::env::args().collect();
    let arg = |name: &str, def: &str| -> String {
        args.iter().position(|a| a == name).and_then(|i| args.get(i + 1)).cloned().unwrap_or(def.to_string())
    };
    let seed: u64 = arg("--seed", "1").parse().unwrap();
    let runs: u64 = arg("--runs", "3").parse().unwrap();
    let steps: usize = arg("--steps", "40").parse().unwrap();
    let quiet = Duration::from_millis(arg("--quiet-ms", "700").parse().unwrap());
    let flips = arg("--flips", "0") == "1";
    let out = arg("--out", "/dev/null");
    let mut w = BufWriter::new(std::fs::File::create(&out).expect("create trace file"));
    let mut rng = StdRng::seed_from_u64(seed ^ 0x5C19);
    let mut cover = BTreeMap::new();
    let mut events = 0u64;
    let mut panics: Vec<String> = Vec::new();
    for run in 1..=runs {
        match one_run(&mut rng, run, steps, &mut w, &mut cover, quiet, flips) {
            Ok((n, p)) => {
                events += n;
                if let Some(p) = p {
                    vh::util::emit(&json!({"kind":"violation","class":"shell:panic","detail":{"run":run,"panic":p,"trace":out}}));
                    panics.push(p);
                }
            }
            Err(e) => {
                eprintln!("shell_udp: tool problem in run {run}: {e}");
                std::process::exit(3);
            }
        }
    }
    w.flush().expect("flush");
    vh::util::emit(&json!({"kind":"summary","runs":runs,"events":events,"panics":panics,"cover":cover,"trace":out}));
}
