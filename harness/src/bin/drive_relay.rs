//! C01 I->S driver (spec/Relay.tla, validated by spec/Trace_Relay.tla).
//!
//! A real sozu worker with an HTTP listener (HTTP/1.1 clients) and an HTTPS listener (HTTP/2 over TLS
//! clients), an HTTP/1.1 cluster and two h2c clusters: all four protocol pairs. Every body is
//! position-coded (byte i of message (run, stream, direction) is a fixed function of those), so whatever
//! a peer receives is summarised as (offset, length, first bad offset). Each message has two observers,
//! its sender and its receiver, each a single thread: Sent / EndSent and Rcvd / EndRcvd / Stall events
//! are recorded in that thread's program order and never merged by a clock.
//!
//! Output (--out): ndjson; per message a `msg` line (counts ns, nr and the plan) followed by the ns
//! sender events and the nr receiver events; a final `msg` with run -1. stdout: one summary line.

#[path = "../c01kit.rs"]
mod kit;
#[path = "../c01peers.rs"]
mod peers;
#[path = "../c01h2.rs"]
mod h2peer;
#[path = "../c01rig.rs"]
mod rig;

use std::io::Write;
use std::sync::atomic::{AtomicUsize, Ordering};
use std::sync::{Arc, Mutex};
use std::time::Instant;

use serde_json::{Value, json};

use kit::*;
use rig::*;

fn arg(name: &str, default: &str) -> String {
    let a: Vec<String> = std::env::args().collect();
    a.iter().position(|x| x == name).and_then(|i| a.get(i + 1).cloned()).unwrap_or_else(|| default.to_string())
}

fn main() {
    vh::util::quiet_panics();
    vh::h2kit::steal_stdout();
    let seed: u64 = arg("--seed", "1").parse().unwrap_or(1);
    let runs: usize = arg("--runs", "100").parse().unwrap_or(100);
    let lanes: usize = arg("--lanes", "5").parse().unwrap_or(5);
    let big = arg("--big", "0") == "1";
    let aborts = arg("--aborts", "1") == "1";
    let buffer_size: u64 = arg("--buffer-size", "16393").parse().unwrap_or(16393);
    let out_path = arg("--out", "/tmp/c01_trace.ndjson");
    let only_pair = arg("--pair", "");
    let plan_file = arg("--plan-file", "");
    let plans_out = arg("--plans-out", "");
    let only_run: i64 = arg("--only-run", "-1").parse().unwrap_or(-1);
    let fixed: Option<Arc<Vec<RunPlan>>> = if plan_file.is_empty() { None } else {
        let txt = std::fs::read_to_string(&plan_file).expect("plan file");
        Some(Arc::new(txt.lines().filter_map(|l| serde_json::from_str::<RunPlan>(l).ok()).filter(|p| only_run < 0 || p.run as i64 == only_run).collect()))
    };
    let extra_file = arg("--extra-plans", "");
    let extra: Arc<Vec<RunPlan>> = Arc::new(if extra_file.is_empty() { Vec::new() } else {
        std::fs::read_to_string(&extra_file).map(|t| t.lines().filter_map(|l| serde_json::from_str::<RunPlan>(l).ok()).collect()).unwrap_or_default()
    });
    // full-duplex schedules (rig::make_duplex_plan): appended to the extra plans, i.e. first in the queue
    let duplex: usize = arg("--duplex", "0").parse().unwrap_or(0);
    let extra: Arc<Vec<RunPlan>> = if duplex == 0 || fixed.is_some() { extra } else {
        let mut v: Vec<RunPlan> = (*extra).clone();
        for k in 0..duplex {
            let dseed = mix(seed.wrapping_mul(0x9E37_79B9_7F4A_7C15) ^ 0xD0 ^ ((k as u64 + 1) << 20));
            v.push(make_duplex_plan(200_000 + k as u64, dseed, k));
        }
        Arc::new(v)
    };
    let generated = fixed.as_ref().map(|f| f.len()).unwrap_or(runs);
    let runs = generated + extra.len();
    let all_plans: Arc<Mutex<Vec<RunPlan>>> = Arc::new(Mutex::new(Vec::new()));
    let t0 = Instant::now();

    let sozu_log = arg("--sozu-log", "");
    if !sozu_log.is_empty() {
        // sozu's log goes to fd 1 (kept with VH_KEEP_SOZU_LOG=1, /dev/null otherwise)
        let _ = sozu_command_lib::logging::setup_default_logging(false, &sozu_log, "C01");
    }
    let parks_out = arg("--parks-out", "");
    install_park_sink(if parks_out.is_empty() { None } else { Some(parks_out.as_str()) });
    let rig = match Rig::start("c01drive", buffer_size) {
        Ok(r) => Arc::new(r),
        Err(e) => {
            vh::h2kit::emit_out(&json!({"kind":"summary","setup_error":e}));
            std::process::exit(0);
        }
    };
    let results: Arc<Mutex<Vec<(usize, RunResult)>>> = Arc::new(Mutex::new(Vec::new()));
    let next = Arc::new(AtomicUsize::new(0));
    let mut hs = Vec::new();
    for _ in 0..lanes {
        let (rig, results, next, only_pair, fixed, all_plans) = (rig.clone(), results.clone(), next.clone(), only_pair.clone(), fixed.clone(), all_plans.clone());
        let extra = extra.clone();
        hs.push(std::thread::spawn(move || {
            loop {
                let k = next.fetch_add(1, Ordering::SeqCst);
                if k >= runs || rig.worker_dead() {
                    return;
                }
                let k_seed = k.wrapping_sub(extra.len());
                let rseed = mix(seed.wrapping_mul(0x2545_F491_4F6C_DD1D) ^ (k_seed as u64).wrapping_add(1).wrapping_mul(0x9E37_79B9_7F4A_7C15));
                // the extra (regression) plans go first: they contain the runs that are expected to stall
                let k_gen = k.wrapping_sub(extra.len());
                let mut plan = if k < extra.len() { extra[k].clone() } else { match fixed.as_ref() { Some(f) => f[k_gen].clone(), None => make_plan((k_gen as u64).wrapping_add(1), rseed, k_gen, buffer_size, big, aborts) } };
                if fixed.is_none() && !only_pair.is_empty() && k >= extra.len() {
                    plan.front_h2 = only_pair.starts_with("h2");
                    plan.back_h2 = only_pair.ends_with("h2");
                    fix_plan(&mut plan);
                }
                all_plans.lock().unwrap().push(plan.clone());
                let r = rig.execute(plan);
                results.lock().unwrap().push((k, r));
            }
        }));
    }
    for h in hs {
        let _ = h.join();
    }
    let worker_problem = rig.worker_problem();
    if !plans_out.is_empty() {
        let mut pf = std::io::BufWriter::new(std::fs::File::create(&plans_out).expect("plans file"));
        let mut ps = all_plans.lock().unwrap();
        ps.sort_by_key(|p| p.run);
        for p in ps.iter() {
            writeln!(pf, "{}", serde_json::to_string(p).unwrap()).unwrap();
        }
    }
    let mut res = results.lock().unwrap();
    res.sort_by_key(|x| x.0);
    let mut f = std::io::BufWriter::new(std::fs::File::create(&out_path).expect("trace file"));
    let (mut n_events, mut n_runs, mut n_msgs, mut bytes_total, mut inconclusive) = (0usize, 0usize, 0usize, 0u64, 0usize);
    let mut errors: Vec<String> = Vec::new();
    let mut by_kind: std::collections::BTreeMap<String, usize> = Default::default();
    let mut classes: std::collections::BTreeSet<String> = Default::default();
    let mut samples: Vec<Value> = Vec::new();
    let mut stalled: Vec<Value> = Vec::new();
    for (_, r) in res.iter() {
        if let Some(e) = &r.error {
            errors.push(e.clone());
            continue;
        }
        if r.inconclusive {
            inconclusive += 1;
            continue;
        }
        n_runs += 1;
        *by_kind.entry(r.kind.clone()).or_default() += 1;
        for c in &r.classes {
            classes.insert(c.clone());
        }
        if r.summary["outcome"] == "Stalled" && stalled.len() < 8 {
            stalled.push(r.summary.clone());
        }
        if samples.len() < 6 && r.bytes > 100_000 {
            samples.push(r.summary.clone());
        }
        bytes_total += r.bytes;
        for (hdr, sev, rev) in &r.msgs {
            writeln!(f, "{}", hdr).unwrap();
            n_events += 1;
            n_msgs += 1;
            for e in sev.iter().chain(rev.iter()) {
                writeln!(f, "{}", e).unwrap();
                n_events += 1;
            }
        }
    }
    writeln!(f, "{}", json!({"ev":"msg","run":-1,"s":0,"d":"req","ns":0,"nr":0,"companion_aborted":false,"park_hol":false,"budget_kill":false,"no_aborts":false,"pair":""})).unwrap();
    n_events += 1;
    f.flush().unwrap();
    vh::h2kit::emit_out(&json!({"kind":"summary","runs":n_runs,"messages":n_msgs,"events":n_events,"bytes":bytes_total,"by_kind":by_kind,
        "distinct_classes":classes.len(),"inconclusive":inconclusive,"errors":errors,"setup_error":Value::Null,"worker_problem":worker_problem,
        "samples":samples,"stalled":stalled,"parks":{"snapshots":park_counts().0,"written":park_counts().1,"distinct":park_counts().2,"half_frame_wu_pending":half_frame_counts().0,"half_frame_zero_deferred":half_frame_counts().1},"backend_connections":rig.sh.backend_conns.load(Ordering::Relaxed),"wall_s":t0.elapsed().as_secs_f64()}));
    std::process::exit(0);
}
