"""C01 - proxied HTTP bodies arrive complete, unmodified and in order (spec/Relay.tla).

1. TLC, design level, no deviation: P_C01_Safety (in-order duplicate-free prefix, clean end only after the
   sender's clean end and the whole body, cuts only when a sender gave up), Quiescent_OK / Park_OK (no lost
   wake-up at any park point), P_C01_RefinesObs, and under fairness P_C01_Live, for the four protocol
   pairs, one and two streams, B,K in {1,2}, windows <= 3, write sizes 1..2.
2. Every open deviation (known_findings.json) switched on alone must give a TLC counterexample; thorough
   re-checks that the repaired / hypothetical ones still do.
3. S->I: TLC -simulate on Relay_gen (lock-step schedules of peer writes / reads / window grants);
   harness/replay_relay executes them on a real worker and compares what the peers can observe after
   every step with what the specification delivers.
4. I->S black-box: harness/drive_relay relays position-coded bodies through a real worker (H1 and
   TLS+H2 clients, H1 and h2c backends; Content-Length / chunked / close-delimited / DATA with and
   without padding; 1..8 streams, keep-alive sequences; slow readers, small windows, paced writers,
   aborts) and records per-observer events; TLC validates the trace against Trace_Relay with the open
   deviations on, then with each reproduced deviation off (must then be rejected exactly there).
   Full-duplex schedules (rig::make_duplex_plan): position-coded bodies in both directions at once on one HTTP/2
   connection whose peer stops reading its socket for a while (the h2c backend answers early and reads the upload
   late / the HTTP/2 client does not read a big download while it uploads on another stream): sozu's write blocks
   inside a DATA frame while the control frames it owes (WINDOW_UPDATE, PING ACK) queue up behind it.
5. I->S white-box: every distinct projection of the mux_ready_exit snapshots is validated against
   Relay!ParkRecOK by Trace_RelayPark.
6. Canaries: a skipped byte in the trace and a parked writer without WRITABLE in the snapshots must be
   rejected, otherwise exit 2.
"""
import concurrent.futures
import json
import os
import re

import vlib
from props import h2wire

PID = "C01"
OPEN_CLASS = {"HolBlocking": ("h2-head-of-line-deadlock", "park_hol"), "LoopBudgetKill": ("loop-budget-kills-session", "budget_kill")}
OLD_DEVS = ["CloseDelimKeepsOpen", "DeadBackendSpin", "KeepAliveEosStale", "FinalizeDropsWritable", "NoArmAfterRead"]

CFG = """SPECIFICATION %(spec)s
CONSTANTS
  N = %(n)d
  FrontProto = "%(front)s"
  BackProto = "%(back)s"
  Req1 = %(req1)d
  Req2 = %(req2)d
  Resp1 = %(resp1)d
  Resp2 = %(resp2)d
  RespClose = %(close)s
  B = %(b)d
  K = %(k)d
  W0 = %(w0)d
  Ws = %(ws)s
  Aborts = %(aborts)s
  EarlyResp = %(early)s
  Deviations = %(dev)s
%(extra)s
CHECK_DEADLOCK FALSE
"""
SAFE = "INVARIANTS TypeOK P_C01_Safety Quiescent_OK Park_OK\nPROPERTIES P_C01_RefinesObs"
LIVE = "INVARIANTS TypeOK P_C01_Safety Quiescent_OK Park_OK\nPROPERTIES P_C01_RefinesObs P_C01_Live"
TRACE = "CONSTRAINT Track\nINVARIANTS T_C01_Prefix T_C01_CleanEnd\nPROPERTIES T_C01_Obs\nPOSTCONDITION TraceAccepted"
PARK = "CONSTRAINT Track\nPOSTCONDITION TraceAccepted"
ACTIONS = ["Peer_Write", "Peer_Close", "Peer_Read", "Peer_Grant", "Epoll_Edge", "Mux_Readable", "Mux_Writable"]


def tla_set(xs):
    return "{" + ", ".join('"%s"' % x if isinstance(x, str) else str(x) for x in xs) + "}"


def cfg(wd, name, spec="Spec", n=1, front="h1", back="h1", req=(2, 0), resp=(3, 0), close=(), b=1, k=2, w0=2, ws=(1, 2),
        aborts=False, dev=(), extra=SAFE, early=False):
    path = os.path.join(wd, name)
    with open(path, "w") as f:
        f.write(CFG % dict(spec=spec, n=n, front=front, back=back, req1=req[0], req2=req[1], resp1=resp[0], resp2=resp[1],
                           close=tla_set(close), b=b, k=k, w0=w0, ws=tla_set(ws), aborts="TRUE" if aborts else "FALSE", early="TRUE" if early else "FALSE",
                           dev=tla_set(dev), extra=extra))
    return path


def mc_jobs(wd, thorough):
    """(name, module, cfg path, wants-coverage)"""
    jobs = []
    pairs = [("h1", "h1"), ("h2", "h1"), ("h1", "h2"), ("h2", "h2")]
    for fr, bk in pairs:
        tag = fr + bk
        # one exchange, both directions
        jobs.append(("n1_" + tag, cfg(wd, "mc_n1_%s.cfg" % tag, front=fr, back=bk, req=(2, 0), resp=(3, 0), b=1, k=2, w0=2)))
    # liveness under fairness (small instances; thorough has all pairs)
    jobs.append(("live_h1h1", cfg(wd, "mc_live_h1h1.cfg", spec="FairSpec", req=(2, 0), resp=(3, 0), b=1, k=2, extra=LIVE)))
    jobs.append(("live_h2h2", cfg(wd, "mc_live_h2h2.cfg", spec="FairSpec", front="h2", back="h2", req=(1, 0), resp=(2, 0), b=1, k=2, w0=1, extra=LIVE)))
    # close-delimited response towards an HTTP/1.1 client
    jobs.append(("close", cfg(wd, "mc_close.cfg", spec="FairSpec", req=(1, 0), resp=(2, 0), close=(1,), b=1, k=2, extra=LIVE)))
    # two streams in opposite directions over shared connections (the shape of the head-of-line finding)
    if thorough:
        jobs.append(("n2_h2h2", cfg(wd, "mc_n2_h2h2.cfg", n=2, front="h2", back="h2", req=(3, 0), resp=(0, 3), b=1, k=2, w0=1)))
        jobs.append(("n2_h2h1", cfg(wd, "mc_n2_h2h1.cfg", n=2, front="h2", back="h1", req=(2, 0), resp=(0, 2), b=1, k=2, w0=1)))
    else:
        jobs.append(("n2_h2h2", cfg(wd, "mc_n2_h2h2.cfg", n=2, front="h2", back="h2", req=(2, 0), resp=(0, 2), b=1, k=2, w0=1)))
        jobs.append(("n2_h2h1", cfg(wd, "mc_n2_h2h1.cfg", n=2, front="h2", back="h1", req=(1, 0), resp=(0, 2), b=1, k=2, w0=1)))
    # full duplex on one stream: the backend answers while the request is still arriving (EarlyResp)
    jobs.append(("early_h1h2", cfg(wd, "mc_early_h1h2.cfg", front="h1", back="h2", req=(2, 0), resp=(2, 0), b=1, k=2, w0=1, early=True)))
    jobs.append(("early_h2h2", cfg(wd, "mc_early_h2h2.cfg", front="h2", back="h2", req=(2, 0), resp=(2, 0), b=1, k=2, w0=1, early=True)))
    if thorough:
        jobs.append(("early_h2h2_live", cfg(wd, "mc_early_h2h2_live.cfg", spec="FairSpec", front="h2", back="h2", req=(2, 0), resp=(2, 0), b=1, k=2, w0=1, early=True, extra=LIVE)))
        jobs.append(("early_h2h1_live", cfg(wd, "mc_early_h2h1_live.cfg", spec="FairSpec", front="h2", back="h1", req=(2, 0), resp=(2, 0), b=1, k=2, w0=1, early=True, extra=LIVE)))
        jobs.append(("early_h1h2_big", cfg(wd, "mc_early_h1h2_big.cfg", front="h1", back="h2", req=(3, 0), resp=(3, 0), b=1, k=2, w0=2, early=True)))
    # senders that give up
    jobs.append(("aborts", cfg(wd, "mc_aborts.cfg", front="h2", back="h1", req=(2, 0), resp=(2, 0), b=2, k=1, w0=1, ws=(1,), aborts=True)))
    if thorough:
        for fr, bk in pairs:
            tag = fr + bk
            jobs.append(("n1live_" + tag, cfg(wd, "mc_n1live_%s.cfg" % tag, spec="FairSpec", front=fr, back=bk, req=(2, 0), resp=(3, 0), b=1, k=2, w0=2, extra=LIVE)))
            jobs.append(("n1b_" + tag, cfg(wd, "mc_n1b_%s.cfg" % tag, spec="FairSpec", front=fr, back=bk, req=(3, 0), resp=(4, 0), b=2, k=2, w0=3, extra=LIVE)))
            jobs.append(("n1c_" + tag, cfg(wd, "mc_n1c_%s.cfg" % tag, spec="FairSpec", front=fr, back=bk, req=(4, 0), resp=(2, 0), b=2, k=1, w0=1, ws=(1,), extra=LIVE)))
        jobs.append(("n2_h1h1", cfg(wd, "mc_n2_h1h1.cfg", spec="FairSpec", n=2, req=(1, 1), resp=(2, 2), b=1, k=2, extra=LIVE)))
        jobs.append(("n2_h2h1_b", cfg(wd, "mc_n2_h2h1_b.cfg", n=2, front="h2", back="h1", req=(2, 1), resp=(1, 2), b=1, k=2, w0=1)))
        jobs.append(("n2_h1h2", cfg(wd, "mc_n2_h1h2.cfg", n=2, front="h1", back="h2", req=(2, 1), resp=(1, 2), b=1, k=2, w0=1)))
        jobs.append(("n2_h2h2_live", cfg(wd, "mc_n2_h2h2_live.cfg", spec="FairSpec", n=2, front="h2", back="h2", req=(2, 0), resp=(0, 2), b=1, k=2, w0=1, extra=LIVE)))
        jobs.append(("n2_h2h2_big", cfg(wd, "mc_n2_h2h2_big.cfg", n=2, front="h2", back="h2", req=(3, 1), resp=(1, 3), b=1, k=2, w0=2)))
        jobs.append(("aborts_h2h2", cfg(wd, "mc_aborts_h2h2.cfg", front="h2", back="h2", req=(2, 0), resp=(2, 0), b=1, k=2, w0=1, aborts=True)))
    return jobs


def dev_cfg(wd, d):
    """a small instance on which deviation d alone must break a checked property"""
    if d == "HolBlocking":
        return cfg(wd, "dev_%s.cfg" % d, n=2, front="h2", back="h2", req=(3, 0), resp=(0, 3), b=1, k=2, w0=1, dev=[d])
    if d == "LoopBudgetKill":
        return cfg(wd, "dev_%s.cfg" % d, front="h2", back="h1", req=(2, 0), resp=(2, 0), b=1, k=2, w0=2, dev=[d])
    if d == "CloseDelimKeepsOpen":
        return cfg(wd, "dev_%s.cfg" % d, spec="FairSpec", req=(1, 0), resp=(2, 0), close=(1,), dev=[d], extra=LIVE)
    if d == "DeadBackendSpin":
        # four units: two unread in the client's kernel queue (WRITABLE withdrawn), one buffered, one parking the backend
        # reader, the backend's end behind it (with three units - the instance used before - the guard of Dev_SpinKill is
        # unreachable in the present model and the thorough tier ended with a tool error)
        return cfg(wd, "dev_%s.cfg" % d, front="h2", back="h1", req=(0, 0), resp=(4, 0), b=1, k=2, w0=3, dev=[d])
    if d == "KeepAliveEosStale":
        return cfg(wd, "dev_%s.cfg" % d, n=2, front="h1", back="h2", req=(0, 0), resp=(1, 1), b=1, k=2, w0=2, dev=[d])
    return cfg(wd, "dev_%s.cfg" % d, front="h2", back="h2", req=(2, 0), resp=(3, 0), b=1, k=2, w0=2, dev=[d])


def trace_cfg(wd, name, dev, extra=TRACE, spec="TraceSpec"):
    return cfg(wd, name, spec=spec, req=(0, 0), resp=(0, 0), b=1, k=1, w0=1, ws=(1,), aborts=True, dev=dev, extra=extra)


def load_trace(path):
    """[(header, [events])]"""
    msgs = []
    with open(path) as f:
        for line in f:
            o = json.loads(line)
            if o["ev"] == "msg":
                msgs.append((o, []))
            elif msgs:
                msgs[-1][1].append(o)
    return msgs


def write_trace(path, msgs):
    with open(path, "w") as f:
        for h, evs in msgs:
            f.write(json.dumps(h) + "\n")
            for e in evs:
                f.write(json.dumps(e) + "\n")


def stuck(out):
    m = re.search(r'"STUCK-RUN",\s*(-?\d+)', out)
    run = int(m.group(1)) if m else None
    m = re.search(r'"STUCK-EVENT",\s*(.*?)>>\s*(?:\n[A-Z0-9]|$)', out, re.S)
    ev = re.sub(r"\s+", " ", m.group(1))[:500] if m else ""
    return run, ev


def event_kind(ev_text):
    m = re.search(r'k \|-> "(\w+)"', ev_text)
    if not m and re.search(r'ev \|-> "msg"', ev_text):
        return "incomplete"       # stuck at the next header: a cleanly ended message did not arrive completely (MsgComplete)
    k = m.group(1) if m else "?"
    if k == "rcvd" and re.search(r"bad \|-> \d", ev_text):
        return "corrupt"
    if k == "endrcvd":
        m2 = re.search(r'kind \|-> "(\w+)"', ev_text)
        return "end-" + (m2.group(1) if m2 else "?")
    return k


def gen_behaviours(wd, thorough, rep):
    beh = os.path.join(wd, "behaviours.ndjson")
    seen = set()
    num = 600 if thorough else 45
    with open(beh, "w") as f:
        for fr, bk in [("h1", "h1"), ("h2", "h1"), ("h1", "h2"), ("h2", "h2")]:
            c = cfg(wd, "gen_%s%s.cfg" % (fr, bk), spec="GenSpec", front=fr, back=bk, req=(3, 0), resp=(4, 0), b=1, k=2, w0=2,
                    extra="  Depth = %d\nINVARIANTS EmitBehaviour\nCONSTRAINT Done" % (16 if thorough else 14))

            def sink(o):
                key = json.dumps(o, sort_keys=True)
                if key not in seen:
                    seen.add(key)
                    f.write(key + "\n")
            g = vlib.tlc("Relay_gen", c, PID, workers=2, timeout=600, simulate="num=%d" % num, depth=400, want_replay=True, replay_sink=sink)
            rep.add_tlc(g)
            if g["violated"]:
                raise vlib.ToolError("generator run reported a violation: %s" % g["violated"])
    return beh, len(seen)


def run(tier, replay=None):
    rep = vlib.Report(PID, tier)
    wd = vlib.workdir(PID)
    thorough = tier == "thorough"
    bins = vlib.cargo_build(["drive_relay", "replay_relay"])
    devs = vlib.open_deviations(PID)
    seed = vlib.seed()

    # ---- replay of one saved violation: re-execute its plan and validate ------------------------------
    if replay:
        if replay.endswith(".plans"):
            trace = os.path.join(wd, "replay_trace.ndjson")
            out = vlib.run_harness(bins["drive_relay"], ["--plan-file", replay, "--lanes", "1", "--out", trace], timeout=1200)
            print(json.dumps([o for o in out if o.get("kind") == "summary"][:1], indent=1)[:3000])
        else:
            trace = replay
        r = vlib.tlc_trace("Trace_Relay", trace_cfg(wd, "trace_replay.cfg", devs), PID, trace, timeout=900)
        if not r["accepted"]:
            run_id, ev = stuck(r["out"])
            rep.violation("trace:replayed", "trace rejected at run %s: %s" % (run_id, ev), r["out"][-3000:])
        rep.cov["traces_validated_against_impl"] = 1
        rep.finish()

    # ---- 1. design level -----------------------------------------------------------------------------
    jobs = mc_jobs(wd, thorough)

    def mc(job):
        name, path = job
        return name, vlib.tlc("Relay", path, PID, workers=4 if thorough else 3, timeout=3000 if thorough else 900, xmx="6g" if thorough else "3g")
    with concurrent.futures.ThreadPoolExecutor(max_workers=3 if thorough else 4) as ex:
        results = list(ex.map(mc, jobs))
    for name, r in results:
        rep.add_tlc(r)
        if r["violated"]:
            rep.violation("spec:" + r["violated"], "Relay.tla (%s) violates %s without any deviation" % (name, r["violated"]), r["out"][-4000:],
                          name="spec_%s.txt" % name)
    if thorough:
        rc = vlib.tlc("Relay", cfg(wd, "mc_cov.cfg", front="h2", back="h2", req=(2, 0), resp=(2, 0), b=1, k=2, w0=1), PID, workers=4, timeout=1500, coverage=True)
        vlib.require_actions_covered(rc, ACTIONS)

    # ---- 2. deviations ---------------------------------------------------------------------------------
    for d in devs + (OLD_DEVS if thorough else ["NoArmAfterRead"]):
        rd = vlib.tlc("Relay", dev_cfg(wd, d), PID, workers=4, timeout=900)
        rep.add_tlc(rd)
        if not rd["violated"]:
            raise vlib.ToolError("deviation %s does not violate any property of Relay.tla in the model" % d)
        vlib.log("deviation %s: TLC counterexample to %s as expected" % (d, rd["violated"]))

    # ---- 2b. the writer below the frames (spec/H2Wire.tla): whole frames only ------------------------------
    h2wire.check(rep, wd, PID, thorough, deviations=None if thorough else ["WuInsideFrame", "ZeroOverwrites"])

    # ---- 3. S->I ---------------------------------------------------------------------------------------
    beh, n_beh = gen_behaviours(wd, thorough, rep)
    out = vlib.run_harness(bins["replay_relay"], ["--seed", str(seed), "--units", "1,1000,16384,20000" if thorough else "1000,16384",
                                                  "--max", "4000" if thorough else "130"], stdin_path=beh, timeout=3000)
    rs = [o for o in out if o.get("kind") == "summary"]
    if not rs:
        raise vlib.ToolError("replay_relay produced no summary")
    rs = rs[0]
    if rs.get("setup_error"):
        raise vlib.ToolError("replay_relay: %s" % rs["setup_error"])
    if rs.get("worker_problem"):
        rep.violation("relay:worker", rs["worker_problem"], rs)
    for v in out:
        if v.get("kind") == "violation":
            rep.violation(v["class"], "unit %s: %s" % (v.get("unit"), v.get("detail")), v)
    vlib.log("replay_relay: %d/%d behaviours executed (%d steps), %d unrealised, %.1fs" % (
        rs["executed"], rs["behaviours"], rs["steps"], rs["unrealised"], rs["wall_s"]))
    if rs["behaviours"] and rs["unrealised"] * 2 > rs["behaviours"]:
        raise vlib.ToolError("more than half of the schedules could not be realised: %s" % rs.get("unrealised_why"))
    rep.cov["evaluations"] += rs["steps"]
    rep.extra["replayed_schedules"] = {"generated": n_beh, "executed": rs["executed"], "unrealised": rs["unrealised"], "by_pair": rs["by_pair"], "units": rs["units"]}

    # ---- 4. I->S black-box ------------------------------------------------------------------------------
    trace = os.path.join(wd, "trace.ndjson")
    plans = os.path.join(wd, "plans.ndjson")
    parks = os.path.join(wd, "parks.ndjson")
    runs = 700 if thorough else 110
    dout = vlib.run_harness(bins["drive_relay"], ["--seed", str(seed), "--runs", str(runs), "--lanes", "6" if thorough else "5",
                                                  "--big", "1" if thorough else "0", "--duplex", "40" if thorough else "8", "--out", trace, "--plans-out", plans,
                                                  "--parks-out", parks, "--extra-plans", os.path.join(vlib.ROOT, "assets", "c01_known.plans")],
                           timeout=3400)
    ds = [o for o in dout if o.get("kind") == "summary"]
    if not ds:
        raise vlib.ToolError("drive_relay produced no summary")
    ds = ds[0]
    if ds.get("setup_error"):
        raise vlib.ToolError("drive_relay: setup failed: %s" % ds["setup_error"])
    if ds.get("worker_problem"):
        rep.violation("relay:worker", ds["worker_problem"], ds)
    if ds["errors"]:
        if ds.get("worker_problem"):
            pass
        else:
            raise vlib.ToolError("drive_relay: %d runs could not connect: %s" % (len(ds["errors"]), ds["errors"][:2]))
    if ds["inconclusive"] * 4 > max(1, ds["runs"] + ds["inconclusive"]):
        raise vlib.ToolError("the machine is too loaded to tell stalls from slowness (%d of %d runs inconclusive)" % (
            ds["inconclusive"], ds["runs"] + ds["inconclusive"]))
    vlib.log("drive_relay: %d runs (%s), %d messages, %d events, %.1f MB relayed, %d inconclusive, %.1fs" % (
        ds["runs"], ds["by_kind"], ds["messages"], ds["events"], ds["bytes"] / 1e6, ds["inconclusive"], ds["wall_s"]))
    half = (ds.get("parks", {}).get("half_frame_wu_pending", 0), ds.get("parks", {}).get("half_frame_zero_deferred", 0))
    vlib.log("full-duplex schedules: %d park snapshots with a half-written stream frame and WINDOW_UPDATEs queued behind it, %d with an "
             "answer deferred in the zero buffer" % half)

    plan_of = {}
    with open(plans) as f:
        for line in f:
            p = json.loads(line)
            plan_of[p["run"]] = line
    msgs = load_trace(trace)
    accepted_runs = 0
    cur = msgs
    cur_path = trace
    rejected_runs = []
    for attempt in range(6):
        tv = vlib.tlc_trace("Trace_Relay", trace_cfg(wd, "trace.cfg", devs), PID, cur_path, timeout=1500)
        rep.add_tlc(tv)
        if tv["accepted"]:
            break
        run_id, ev = stuck(tv["out"])
        if run_id is None or run_id in rejected_runs:
            raise vlib.ToolError("trace validation stuck without a run: %s" % tv["out"][-600:])
        rejected_runs.append(run_id)
        bad = [(h, e) for h, e in cur if h["run"] == run_id]
        hdr = next((h for h, e in bad if any(x.get("k") in ("stall", "sendstall", "missing") or x.get("bad", -1) != -1 for x in e)), bad[0][0])
        m = re.search(r'"STUCK-MSG",\s*<<(-?\d+), (\d+), "(\w+)", "([^"]*)">>', tv["out"])
        pair, d = (m.group(4), m.group(3)) if m else (hdr.get("pair"), hdr.get("d"))
        klass = "trace:%s/%s/%s" % (pair, d, event_kind(ev))
        path = rep.save_replay("run_%s.plans" % run_id, plan_of.get(run_id, ""))
        rep.save_replay("run_%s.ndjson" % run_id, "".join(json.dumps(x) + "\n" for h, e in bad for x in [h] + e)
                        + json.dumps({"ev": "msg", "run": -1, "s": 0, "d": "req", "ns": 0, "nr": 0, "companion_aborted": False,
                                      "park_hol": False, "budget_kill": False, "no_aborts": False, "pair": ""}) + "\n")
        rep.violation(klass, "run %s not explained by Relay.tla (%s of %s lines): %s" % (run_id, tv["consumed"], tv["total"], ev[:300]),
                      plan_of.get(run_id, ""), name="run_%s.plans" % run_id)
        cur = [(h, e) for h, e in cur if h["run"] != run_id]
        cur_path = os.path.join(wd, "trace_minus_%d.ndjson" % attempt)
        write_trace(cur_path, cur)
        _ = path
    runs_in_trace = {h["run"] for h, e in cur if h["run"] >= 0}
    accepted_runs = len(runs_in_trace) if tv["accepted"] else 0

    # the open findings, reproduced: without the deviation the same trace must be rejected at a flagged message
    if tv["accepted"]:
        for d in devs:
            fid, flag = OPEN_CLASS.get(d, (None, None))
            if not fid:
                continue
            flagged = [(h, e) for h, e in cur if h.get(flag) and any(x.get("k") in ("stall", "sendstall", "missing") for x in e)]
            flagged += [(h, e) for h, e in cur if h.get(flag) and any(x.get("k") == "endrcvd" and x.get("kind") == "abort" for x in e)
                        and any(x.get("k") == "endsent" and x.get("kind") == "clean" for x in e) and not h.get("companion_aborted")]
            if not flagged:
                # no event that only the deviation explains; the hook-derived flag alone shows that the code path ran
                # (e.g. the iteration budget cut uploads in progress: their senders never ended cleanly)
                runs_flagged = {h["run"] for h, e in cur if h.get(flag)}
                if runs_flagged:
                    rep.known_finding_seen(fid)
                    rep.known[fid]["n"] += len(runs_flagged) - 1
                continue
            t0 = vlib.tlc_trace("Trace_Relay", trace_cfg(wd, "trace_no_%s.cfg" % d, [x for x in devs if x != d]), PID, cur_path, timeout=1500)
            rep.add_tlc(t0)
            if t0["accepted"]:
                raise vlib.ToolError("%d messages carry %s but the trace is accepted without deviation %s" % (len(flagged), flag, d))
            run_id, ev = stuck(t0["out"])
            hdrs = [h for h, e in cur if h["run"] == run_id]
            if not hdrs or not any(h.get(flag) for h in hdrs):
                rep.violation("trace:undeviated-rejection-elsewhere", "without %s the trace is rejected at run %s, which does not carry %s: %s" % (
                    d, run_id, flag, ev[:300]), plan_of.get(run_id, ""))
            else:
                n_runs = len({h["run"] for h, e in flagged})
                rep.known_finding_seen(fid)
                rep.known[fid]["n"] += n_runs - 1
                rep.extra.setdefault("open_finding_samples", {})[fid] = {"run": run_id, "pair": hdrs[0].get("pair"), "streams": hdrs[0].get("nstreams")}

    # ---- 5. white-box: park snapshots -----------------------------------------------------------------------
    pk = ds.get("parks", {})
    if pk.get("written", 0) > 0:
        pv = vlib.tlc_trace("Trace_RelayPark", trace_cfg(wd, "park.cfg", devs, extra=PARK, spec="ParkSpec"), PID, parks, timeout=900)
        rep.add_tlc(pv)
        if not pv["accepted"]:
            _, ev = stuck(pv["out"])
            m = re.search(r"eps \|-> <<(.*?)>>,", pv["out"], re.S)
            eps = re.sub(r"\s+", " ", m.group(1)) if m else ev
            if "halfzero |-> TRUE" in eps:
                rep.violation("park:control-marked-inside-frame", "the control-frame buffer of an HTTP/2 connection is marked for writing while a stream "
                              "frame is only partly on the wire (H2Wire!P_Markers): %s" % eps[:400], pv["out"][-4000:], name="park_violation.txt")
            else:
                rep.violation("park:lost-wakeup", "a session was parked with pending output and nobody to wake its writer: %s" % eps[:400],
                              pv["out"][-4000:], name="park_violation.txt")
    else:
        raise vlib.ToolError("no mux_ready_exit snapshot was recorded (hook missing?)")

    # ---- 6. canaries -----------------------------------------------------------------------------------------
    if tv["accepted"]:
        lines = open(cur_path).read().splitlines()
        idx = [i for i, l in enumerate(lines) if '"k":"rcvd"' in l or '"k": "rcvd"' in l]
        if idx:
            kx = idx[(seed * 7919) % len(idx)]
            o = json.loads(lines[kx])
            o["off"] += 1
            lines[kx] = json.dumps(o)
            can = os.path.join(wd, "canary.ndjson")
            open(can, "w").write("\n".join(lines) + "\n")
            tc = vlib.tlc_trace("Trace_Relay", trace_cfg(wd, "trace_canary.cfg", devs), PID, can, timeout=1500)
            if tc["accepted"]:
                raise vlib.ToolError("canary: a trace with a skipped byte was accepted by Trace_Relay")
            rep.extra["canary_rejected_at_run"] = stuck(tc["out"])[0]
        plines = open(parks).read().splitlines()
        for i, l in enumerate(plines):
            o = json.loads(l)
            hit = [r for r in o["eps"] if r["wint"] and not r["winblocked"]]
            if hit:
                hit[0]["wint"] = False
                plines[i] = json.dumps(o)
                pc = os.path.join(wd, "park_canary.ndjson")
                open(pc, "w").write("\n".join(plines) + "\n")
                pcv = vlib.tlc_trace("Trace_RelayPark", trace_cfg(wd, "park_canary.cfg", devs, extra=PARK, spec="ParkSpec"), PID, pc, timeout=900)
                if pcv["accepted"]:
                    raise vlib.ToolError("canary: a parked writer without WRITABLE was accepted by Trace_RelayPark")
                rep.extra["park_canary_rejected"] = True
                break

    # vacuity guard of the full-duplex schedules (never in the way of a violation)
    if not rep.violations and half[0] == 0:
        raise vlib.ToolError("the full-duplex schedules never blocked a write inside a frame with WINDOW_UPDATEs pending "
                             "(mux_ready_exit hook: ew >= 0 and wu > 0 never seen): machine too slow / socket buffers changed?")
    rep.extra["half_written_frame_with_pending_window_updates_snapshots"] = half[0]
    rep.extra["half_written_frame_with_deferred_zero_answer_snapshots"] = half[1]

    # ---- evidence ----------------------------------------------------------------------------------------------
    rep.cov["traces_validated_against_impl"] = rs["executed"] + accepted_runs + (pk.get("written", 0) if pk else 0)
    rep.cov["distinct_nontrivial"] = ds.get("distinct_classes", 0) + rs["executed"]
    rep.cov["exhaustive"] = False
    rep.cov["rule"] = ("trace leg: distinct (protocol pair, direction, framing, size class relative to buffer_size / 16384 / 65535, "
                       "slow-or-windowed reader) message classes among %d recorded messages of %d runs; replay leg: distinct lock-step "
                       "schedules generated by TLC and executed on the real worker; distinct_nontrivial = message classes + schedules executed"
                       % (ds["messages"], ds["runs"]))
    rep.add_samples([{"relay_run": {k: s.get(k) for k in ("run", "pair", "streams", "bytes", "sizes", "outcome")}} for s in ds.get("samples", [])], 3)
    rep.extra["relay"] = {"runs": ds["runs"], "by_pair": ds["by_kind"], "messages": ds["messages"], "events": ds["events"], "bytes": ds["bytes"],
                          "inconclusive_runs": ds["inconclusive"], "backend_connections": ds.get("backend_connections")}
    rep.extra["park_snapshots"] = pk
    excused = 0
    for h, e in cur:
        if any(x.get("k") in ("stall", "sendstall") for x in e) and not h.get("park_hol") and not h.get("budget_kill"):
            excused += 1
    rep.extra["hangs_after_a_sender_abort"] = excused
    rep.assumptions += [
        "one model unit is concretised as 1 / 1000 / 16384 / 20000 bytes; TLC's bounds (<= 2 streams, bodies <= 4 units, B,K <= 2, windows <= 3) are tiny, real sizes come from the sampled trace leg",
        "a stall is only declared after 12 s without a byte moving on the connection, 40 fruitless waits, and the worker thread asleep in >= 95% of the scheduler samples of the last 10 s; a run that cannot be judged is dropped and counted (exit 2 when more than a quarter are)",
        "an exchange one of whose senders gave up (harness-planned abort) is only checked for safety: C01 says nothing about how the cut reaches the other peer",
        "HTTP/2 clients acknowledge SETTINGS before sending DATA (like real clients); the listeners' flood thresholds and timeouts are raised so that only the relay is under test",
        "TLS record boundaries and kernel segmentation are not controlled; would-block points are provoked with small SO_RCVBUF, slow readers, small HTTP/2 windows and paced writers",
    ]
    rep.finish()
