"""C13 - backends see the client's request plus truthful, unspoofable proxy metadata (spec/HeaderEdit.tla).

1. One TLC run enumerates every header-token list up to the bound x listener configuration x peer class x
   frontend/backend protocol; on each case it checks P_C13 with no deviation (design level) and, for the
   cases selected by the seed, prints a REPLAY line with the predictions of the code-as-it-is (open
   deviations on): backend header list / trailer list / cookie crumbs, client-side response header list.
2. Every open deviation must still break P_C13 in the model: a witness case per deviation is evaluated by
   an ASSUME of the spec in every run; the thorough tier also re-runs TLC with each deviation switched on
   and requires a counterexample.
3. harness/replay_headers concretises every case and sends it through REAL sozu workers (one listener per
   listener configuration) to recording H1 / h2c backends, and compares what the backend parsed and what the
   client received with the prediction, modulo the freedom the spec leaves (position of proxy-added
   fields, cookie re-crumbing, the optional sticky cookie).
"""
import json
import os

import vlib

PID = "C13"

CFG = """SPECIFICATION Spec
CONSTANTS
  MaxReq = %(req)d
  MaxTr = %(tr)d
  MaxResp = %(resp)d
  Deviations = %(dev)s
  CheckDeviations = %(cdev)s
  Emit = %(emit)s
  SampleMod = %(mod)d
  SampleRes = %(res)d
  Shape = "%(shape)s"
%(checks)s
CHECK_DEADLOCK FALSE
"""


def tla_set(xs):
    return "{" + ", ".join('"%s"' % x for x in xs) + "}"


def write_cfg(wd, name, req, tr, resp, dev, cdev, emit, mod, res, shape):
    path = os.path.join(wd, name)
    with open(path, "w") as f:
        f.write(CFG % {"req": req, "tr": tr, "resp": resp, "dev": tla_set(dev), "cdev": tla_set(cdev),
                       "emit": "TRUE" if emit else "FALSE", "mod": mod, "res": res, "shape": shape,
                       "checks": "INVARIANTS TypeOK P_C13 EmitCase" if emit else "INVARIANTS TypeOK P_C13"})
    return path


# number of cases TLC enumerates within the bounds (measured; only used to size the replayed sample)
ENUMERATED = {"quick": 318696, "thorough": 2544408}
# deviation switches of HeaderEdit.tla that are not findings: TLC must refute each (self-test of the property)
SELF_TEST = ["ConnFieldToH2Backend", "ConnFieldToH2Client"]


def replay_cases(wd, path):
    """--replay accepts a violation file written by this check (its "case" is replayed) or a cases ndjson."""
    with open(path) as f:
        text = f.read()
    try:
        obj = json.loads(text)
    except ValueError:
        return path
    case = obj.get("case", obj)
    out = os.path.join(wd, "replay_case.ndjson")
    with open(out, "w") as f:
        f.write(json.dumps(case) + "\n")
    return out


def run(tier, replay=None):
    rep = vlib.Report(PID, tier)
    wd = vlib.workdir(PID)
    bins = vlib.cargo_build(["replay_headers"])
    devs = vlib.open_deviations(PID)
    thorough = tier == "thorough"
    workers = 16 if thorough else 8
    bounds = (3, 2, 3, "thorough") if thorough else (2, 1, 2, "quick")

    # 1. design level (no deviation) + generator (predictions with the open deviations), one enumeration
    target = 100000 if thorough else 24000
    mod = max(1, ENUMERATED[bounds[3]] // target)
    cases = os.path.join(wd, "cases.ndjson")
    with open(cases, "w") as f:
        g = vlib.tlc("HeaderEdit", write_cfg(wd, "mc_gen.cfg", *bounds[:3], devs, [], True, mod, vlib.seed() % mod, bounds[3]),
                     PID, workers=workers, timeout=3000 if thorough else 600, want_replay=True,
                     replay_sink=lambda o: f.write(json.dumps(o) + "\n"))
    rep.add_tlc(g)
    if g["violated"]:
        rep.violation("spec:" + g["violated"], "the specification itself violates %s" % g["violated"], g["out"])
    vlib.log("generator: %d cases selected out of %d (1 in %d)" % (g["n_replays"], g["distinct"], mod))
    if g["n_replays"] == 0:
        raise vlib.ToolError("generator produced no case")
    if replay:
        cases = replay_cases(wd, replay)
    # 2. each open deviation must still break the property in the model (witness ASSUME ran above)
    # ... and so must the self-test switches of the defect class "a field of the fixed connection-specific list
    # crosses into HTTP/2" (toward a backend / toward a client): witnesses in every run, full TLC run in thorough
    if thorough:
        for d in devs + SELF_TEST:
            rd = vlib.tlc("HeaderEdit", write_cfg(wd, "mc_dev.cfg", 2, 1, 1, devs, [d], False, 1, 0, "quick"), PID,
                          workers=workers, timeout=900)
            rep.add_tlc(rd)
            if not rd["violated"]:
                raise vlib.ToolError("deviation %s no longer violates P_C13 in the model" % d)
            vlib.log("deviation %s: TLC counterexample to %s as expected" % (d, rd["violated"]))

    # 3. replay through real workers
    out = vlib.run_harness(bins["replay_headers"],
                           ["--cases", cases, "--seed", str(vlib.seed()), "--workers", "8" if thorough else "6",
                            "--clients", "32" if thorough else "24"],
                           timeout=3000 if thorough else 900)
    summ = [o for o in out if o.get("kind") == "summary"]
    if not summ:
        raise vlib.ToolError("replay_headers produced no summary")
    summ = summ[0]
    if summ["inconclusive"]:
        raise vlib.ToolError("%d exchanges timed out twice: the run cannot tell" % summ["inconclusive"])
    for v in out:
        if v.get("kind") != "violation":
            continue
        probs = v.get("detail", {}).get("problems", [])
        rep.violation(v["class"], " | ".join(probs)[:280], v)
    for d, n in summ.get("deviation_explained", {}).items():
        for e in rep.findings:
            if e.get("status") == "open" and e.get("deviation") == d and n:
                rep.known_finding_seen(e["id"])
                rep.known[e["id"]]["n"] += n - 1
    rep.cov["traces_validated_against_impl"] = summ["cases"]
    rep.cov["evaluations"] = summ["exchanges"]
    rep.cov["distinct_nontrivial"] = summ["distinct_token_lists"]
    rep.cov["exhaustive"] = False
    rep.cov["rule"] = ("TLC enumerates every case of HeaderEdit.tla within the bounds (request lists <= %d tokens of 26, "
                       "trailer lists <= %d of 7, response lists <= %d of 12, x listener configuration x 4 peer classes x "
                       "3 frontends x 2 backends, configuration bits that cannot interact coupled as documented in the "
                       "spec) and checks P_C13 on each; 1 case in %d (selected by a hash and VERIF_SEED) is replayed "
                       "through real workers. distinct_nontrivial = distinct (request list, trailer list, response "
                       "list, frontend protocol, backend protocol) combinations replayed" % (bounds[0], bounds[1], bounds[2], mod))
    rep.add_samples(summ.get("samples", []), 3)
    for key in ("rejects", "listeners", "workers", "empty_cookie_fields", "sticky_cookie_due", "sticky_cookie_set",
                "missing_last_chunk_before_trailers", "retried", "setup_s", "run_s"):
        rep.extra[key] = summ.get(key)
    rep.assumptions += [
        "the header language is covered through a 45-token alphabet (every connection-specific field name of RFC 9113 8.2.2 / RFC 7540 3.2.1 in both directions, each spelled in 4 cases on HTTP/1.1 legs) with 2-4 concretisations per token (name case, values with commas/quotes, cookie crumbs packed or split); byte-level parser quirks that no token exercises are out of reach",
        "addresses: 127.0.0.1 / ::1 direct peers and PROXY-v2 sources 203.0.113.7 / 2001:db8::7; the PROXY header is written in its own segment ahead of the first protocol byte",
        "request/response framing fields (host, content-length, transfer-encoding on HTTP/1.1 legs, pseudo-headers) belong to C03 and are not compared; a missing last-chunk line in front of converted HTTP/2 trailers is tolerated by the recording backend and counted",
        "the sticky Set-Cookie is optional in the relation: sozu does not announce it when a multiplexed backend connection is reused",
    ]
    if not rep.violations and not replay:
        try:
            os.remove(cases)       # large in the thorough tier
        except OSError:
            pass
    rep.finish()
