\* Exhaustive check of P_C08 (quick-tier constants; tools/props/c08.py writes the tier's variant).
SPECIFICATION Spec
CONSTANTS
  Listeners = {"hA", "tC"}
  Clusters = {"c1", "c2"}
  HFronts = {"f1", "f3"}
  TFronts = {"t1", "t2"}
  UFronts = {}
  Backends = {"b1"}
  Verbs <- VerbsCore
  MaxReq = 4
  AfterStop <- AfterStopKinds
  Deviations = {}
  Deterministic = FALSE
  Preamble <- NoPreamble
  Traffic = TRUE
  Faults = FALSE
  Emit = FALSE
VIEW MCView
INVARIANTS TypeOK P_C08_ExactlyOnce P_C08_Converged P_C08_BaseCount P_C08_NoStaleAccept
CHECK_DEADLOCK FALSE
