//! S->I replayer for spec/HealthCheck.tla (property C12, health part).
//!
//! stdin: one JSON array per line = one schedule printed by spec/Gen_HealthCheck.tla (TLC simulation):
//! outside steps (configuration command / server mode change / something a server does with a probe
//! connection / tick) alternating with `poll` steps, each with the specification's prediction of the
//! state afterwards, the probes a poll starts and the results it credits.
//!
//! Every schedule is executed in its own thread on a REAL `sozu_lib::health_check::HealthChecker`, a real
//! `BackendMap` and a real `mio::Poll`: configuration commands are applied the way lib/src/server.rs
//! applies them, the servers are sockets this thread serves itself (listening or not, answering a
//! status / a partial status line / closing / staying silent as the schedule says), mio readiness is
//! collected and handed to `HealthChecker::ready` for exactly the probes the schedule names, a tick is
//! a real sleep of `--tick-ms` (1400 ms: with polls right after the steps, the 1..3 s timeouts and 1..2 s
//! intervals of the schedules expire at exactly the tick the specification says; the clock drift is
//! measured and a schedule that drifted is inconclusive, not a verdict).
//! After every step the health records (order, id, address, healthy, streaks) and after every poll the
//! probes started (hook `hc_start`, and the connections that reached the listening sockets) and the
//! results credited (hook `hc_result`) are compared with the specification's.
//!
//! stdout: {"kind":"violation",...} lines and one {"kind":"summary",...}.

use std::cell::RefCell;
use std::collections::{BTreeMap, BTreeSet, HashMap, HashSet};
use std::io::{BufRead, Read, Write};
use std::net::{TcpListener, TcpStream};
use std::panic::{AssertUnwindSafe, catch_unwind};
use std::rc::Rc;
use std::sync::atomic::{AtomicUsize, Ordering};
use std::sync::{Arc, Mutex};
use std::time::{Duration, Instant};

use mio::{Events, Poll, Token};
use serde_json::{Value, json};
use sozu_lib::backends::{Backend, BackendMap};
use sozu_lib::health_check::HealthChecker;
use vh::c12kit::Rng;
use vh::hckit::{self, Counts, Net, RunLog, bump};

type Key = (String, String, usize); // cluster, backend id, model address

struct Rig {
    net: Net,
    poll: Poll,
    hc: HealthChecker,
    map: Rc<RefCell<BackendMap>>,
    listeners: HashMap<usize, TcpListener>,
    /// server side of the probe connections, by probe
    socks: HashMap<Key, TcpStream>,
    partial_sent: HashSet<Key>,
    tokens: HashMap<Key, Token>,
    pending: HashSet<Token>,
    log: Arc<RunLog>,
    seen_events: usize,
    hcap: u32,
}

struct Outcome {
    violation: Option<(String, String, usize)>, // class, what, step
    inconclusive: Option<String>,
    counts: Counts,
    combos: BTreeSet<String>,
    samples: Vec<String>,
    worst_drift_ms: i64,
}

fn key_of(v: &Value) -> Key {
    (v["c"].as_str().unwrap_or("").to_string(), v["id"].as_str().unwrap_or("").to_string(), v["addr"].as_u64().unwrap_or(0) as usize)
}

fn response(status: u64) -> Vec<u8> {
    format!("HTTP/1.1 {status} X\r\nContent-Length: 0\r\nConnection: close\r\n\r\n").into_bytes()
}

impl Rig {
    fn set_listening(&mut self, a: usize, on: bool) -> Result<(), String> {
        if a == self.net.unroutable {
            return Ok(());
        }
        if on {
            if !self.listeners.contains_key(&a) {
                let l = TcpListener::bind(self.net.backend(a)).map_err(|e| format!("bind {}: {e}", self.net.backend(a)))?;
                l.set_nonblocking(true).map_err(|e| e.to_string())?;
                self.listeners.insert(a, l);
            }
        } else {
            self.listeners.remove(&a);
        }
        Ok(())
    }

    /// the way lib/src/server.rs applies the worker's configuration commands
    fn command(&mut self, kind: &str, c: &str, k: &Value, id: &str, a: usize) {
        match kind {
            "SetHealthCheck" => {
                let g = |f: &str| k[f].as_u64().unwrap_or(0) as u32;
                self.map.borrow_mut().set_health_check_config(c, Some(hckit::hc_config(g("interval"), g("timeout"), g("hth"), g("uth"), g("expect"))));
            }
            "RemoveHealthCheck" | "RemoveCluster" | "AddClusterNoHc" => {
                self.hc.remove_cluster(c);
                self.map.borrow_mut().set_health_check_config(c, None);
            }
            "AddBackend" => {
                self.map.borrow_mut().add_backend(c, Backend::new(id, self.net.backend(a), None, None, None));
            }
            "RemoveBackend" => {
                let _ = self.map.borrow_mut().remove_backend(c, &self.net.backend(a));
            }
            other => panic!("harness: unknown command {other}"),
        }
    }

    fn project(&self, clusters: &[String]) -> Value {
        let map = self.map.borrow();
        let out: Vec<Value> = clusters
            .iter()
            .map(|c| {
                let list: Vec<Value> = map
                    .backends
                    .get(c)
                    .map(|l| {
                        l.backends
                            .iter()
                            .map(|b| {
                                let b = b.borrow();
                                json!({"id": b.backend_id, "addr": self.net.model_addr(&b.address.to_string()), "h": b.health.is_healthy(),
                                       "cs": b.health.consecutive_successes.min(self.hcap), "cf": b.health.consecutive_failures.min(self.hcap)})
                            })
                            .collect()
                    })
                    .unwrap_or_default();
                json!({"c": c, "hascfg": map.health_check_configs.contains_key(c), "list": list})
            })
            .collect();
        Value::Array(out)
    }

    fn pump(&mut self, wait: Duration) {
        let mut events = Events::with_capacity(64);
        let _ = self.poll.poll(&mut events, Some(wait));
        for e in events.iter() {
            if self.hc.owns_token(e.token()) {
                self.pending.insert(e.token());
            }
        }
    }

    fn server_act(&mut self, kind: &str, key: &Key, status: u64) -> Result<(), String> {
        match kind {
            "close" => {
                self.socks.remove(key).map(drop).ok_or_else(|| format!("no server-side connection for {key:?}"))
            }
            "partial" | "answer" => {
                let first = !self.partial_sent.contains(key);
                let s = self.socks.get_mut(key).ok_or_else(|| format!("no server-side connection for {key:?}"))?;
                // the request must have arrived (the schedule only lets the server act after the checker wrote it)
                let mut buf = [0u8; 1024];
                let mut got = 0usize;
                let deadline = Instant::now() + Duration::from_millis(300);
                loop {
                    match s.read(&mut buf) {
                        Ok(0) => break,
                        Ok(n) => got += n,
                        Err(e) if e.kind() == std::io::ErrorKind::WouldBlock => {
                            if got > 0 || !first || Instant::now() >= deadline {
                                break;
                            }
                            std::thread::sleep(Duration::from_millis(1));
                        }
                        Err(e) => return Err(format!("server-side read for {key:?}: {e}")),
                    }
                }
                if first && got == 0 {
                    return Err(format!("the probe request of {key:?} never reached the server"));
                }
                let r = response(status);
                let bytes: &[u8] = if kind == "partial" { &r[..9] } else if first { &r[..] } else { &r[9..] };
                s.write_all(bytes).map_err(|e| format!("server-side write for {key:?}: {e}"))?;
                if kind == "partial" {
                    self.partial_sent.insert(key.clone());
                } else {
                    self.partial_sent.remove(key);
                }
                Ok(())
            }
            other => Err(format!("unknown server action {other}")),
        }
    }
}

fn health_combo(pre: Option<&Value>, k: &Value) -> String {
    format!("{}|hth{} uth{}|{}", pre.map(|p| format!("h{} cs{} cf{}", p["h"], p["cs"], p["cf"])).unwrap_or_else(|| "absent".into()),
            k["hth"], k["uth"], if k["ok"].as_bool().unwrap_or(false) { "ok" } else { "fail" })
}

fn replay(index: usize, hist: &[Value], tick_ms: u64, hcap: u32, base: u64, delay_ms: u64) -> Outcome {
    let mut out = Outcome { violation: None, inconclusive: None, counts: Counts::new(), combos: BTreeSet::new(), samples: Vec::new(), worst_drift_ms: 0 };
    vh::c12kit::quiet_logs();
    let name = std::thread::current().name().unwrap_or("").to_string();
    let log = hckit::register_log(&name);
    let poll = match Poll::new() {
        Ok(p) => p,
        Err(e) => {
            out.inconclusive = Some(format!("mio::Poll::new: {e}"));
            return out;
        }
    };
    let mut rig = Rig {
        net: Net::for_index(base + index as u64, 3),
        poll,
        hc: HealthChecker::new(),
        map: Rc::new(RefCell::new(BackendMap::new())),
        listeners: HashMap::new(),
        socks: HashMap::new(),
        partial_sent: HashSet::new(),
        tokens: HashMap::new(),
        pending: HashSet::new(),
        log,
        seen_events: 0,
        hcap,
    };
    std::thread::sleep(Duration::from_millis(delay_ms));
    let clusters: Vec<String> = hist[0]["post"]["clusters"].as_array().map(|a| a.iter().map(|c| c["c"].as_str().unwrap_or("").to_string()).collect()).unwrap_or_default();
    let t0 = Instant::now();
    let mut ticks = 0u64;
    let mut prev_post: Value = Value::Null;

    for (i, entry) in hist.iter().enumerate() {
        let step = &entry["step"];
        let op = step["op"].as_str().unwrap_or("");
        bump(&mut out.counts, op);
        let mut fail: Option<(String, String)> = None;
        let res = catch_unwind(AssertUnwindSafe(|| -> Result<(), (String, String)> {
            match op {
                "init" => {
                    for m in step["modes"].as_array().into_iter().flatten() {
                        let a = m["addr"].as_u64().unwrap_or(0) as usize;
                        rig.set_listening(a, m["m"] != "refuse").map_err(|e| ("harness:bind".to_string(), e))?;
                    }
                    for cl in entry["post"]["clusters"].as_array().into_iter().flatten() {
                        let c = cl["c"].as_str().unwrap_or("");
                        for b in cl["list"].as_array().into_iter().flatten() {
                            rig.command("AddBackend", c, &Value::Null, b["id"].as_str().unwrap_or(""), b["addr"].as_u64().unwrap_or(0) as usize);
                        }
                    }
                    for ck in step["cfg"].as_array().into_iter().flatten() {
                        if ck["k"]["interval"].as_u64().unwrap_or(0) > 0 {
                            rig.command("SetHealthCheck", ck["c"].as_str().unwrap_or(""), &ck["k"], "", 0);
                        }
                    }
                }
                "cfg" => {
                    let kind = step["kind"].as_str().unwrap_or("");
                    bump(&mut out.counts, &format!("cfg_{kind}"));
                    rig.command(kind, step["c"].as_str().unwrap_or(""), &step["k"], step["id"].as_str().unwrap_or(""), step["addr"].as_u64().unwrap_or(0) as usize);
                }
                "mode" => {
                    rig.set_listening(step["addr"].as_u64().unwrap_or(0) as usize, step["m"] != "refuse").map_err(|e| ("harness:bind".to_string(), e))?;
                }
                "srv" => {
                    let kind = step["kind"].as_str().unwrap_or("");
                    bump(&mut out.counts, &format!("srv_{kind}"));
                    rig.server_act(kind, &key_of(step), step["status"].as_u64().unwrap_or(0)).map_err(|e| ("replay:server".to_string(), e))?;
                }
                "tick" => {
                    ticks += 1;
                    let due = t0 + Duration::from_millis(ticks * tick_ms);
                    let now = Instant::now();
                    if due > now {
                        std::thread::sleep(due - now);
                    }
                }
                "poll" => {
                    // 1. readiness the schedule reports: the tokens must have been reported by mio
                    rig.pump(Duration::from_millis(0));
                    let mut ready: Vec<Token> = Vec::new();
                    for r in step["ready"].as_array().into_iter().flatten() {
                        let key = key_of(r);
                        let Some(tok) = rig.tokens.get(&key).copied() else {
                            return Err(("replay:started".to_string(), format!("the schedule reports the probe of {key:?} ready, but the checker never started it")));
                        };
                        let deadline = Instant::now() + Duration::from_millis(400);
                        while !rig.pending.contains(&tok) && Instant::now() < deadline {
                            rig.pump(Duration::from_millis(5));
                        }
                        if !rig.pending.remove(&tok) {
                            return Err(("harness:readiness".to_string(), format!("mio never reported the socket of {key:?} ready")));
                        }
                        ready.push(tok);
                    }
                    // 2. the clock: poll must run within the tolerance after the tick it belongs to
                    let drift = t0.elapsed().as_millis() as i64 - (ticks * tick_ms) as i64;
                    out.worst_drift_ms = out.worst_drift_ms.max(drift);
                    if drift > 150 {
                        return Err(("harness:timing".to_string(), format!("poll {drift} ms after its tick")));
                    }
                    // 3. the real call
                    for t in ready {
                        rig.hc.ready(t);
                    }
                    rig.hc.poll(&rig.map, rig.poll.registry());
                    // 4. what the checker did, by its own account
                    let events: Vec<hckit::Hook> = {
                        let g = rig.log.events.lock().unwrap_or_else(|p| p.into_inner());
                        g[rig.seen_events..].to_vec()
                    };
                    rig.seen_events += events.len();
                    let mut started: Vec<Key> = Vec::new();
                    let mut credits: Vec<(Key, bool)> = Vec::new();
                    let mut finished: Vec<Token> = Vec::new();
                    for e in &events {
                        let key = (e.s("cluster"), e.s("backend"), rig.net.model_addr(&e.s("address")));
                        match e.kind {
                            "hc_start" => {
                                rig.tokens.insert(key.clone(), Token(e.num("token") as usize));
                                started.push(key);
                            }
                            "hc_done" => finished.push(Token(e.num("token") as usize)),
                            "hc_result" => credits.push((key, e.num("success") == 1)),
                            _ => {}
                        }
                    }
                    for t in finished {
                        rig.pending.remove(&t);
                        rig.tokens.retain(|_, v| *v != t);
                    }
                    // started: same probes, same order within a cluster (clusters come in hash order)
                    let want: Vec<Key> = step["started"].as_array().into_iter().flatten().map(key_of).collect();
                    for c in &clusters {
                        let a: Vec<&Key> = started.iter().filter(|k| &k.0 == c).collect();
                        let b: Vec<&Key> = want.iter().filter(|k| &k.0 == c).collect();
                        if a != b {
                            return Err(("replay:started".to_string(), format!("cluster {c}: the checker started probes for {a:?}, the specification for {b:?}")));
                        }
                    }
                    out.counts.insert("probes_started".into(), out.counts.get("probes_started").copied().unwrap_or(0) + started.len() as u64);
                    // credits: the same multiset of (probe, outcome)
                    let mut got: Vec<String> = credits.iter().map(|(k, ok)| format!("{k:?} {ok}")).collect();
                    let mut exp: Vec<String> = step["credits"].as_array().into_iter().flatten().map(|k| format!("{:?} {}", key_of(k), k["ok"].as_bool().unwrap_or(false))).collect();
                    got.sort();
                    exp.sort();
                    if got != exp {
                        return Err(("replay:credits".to_string(), format!("the checker recorded the results {got:?}, the specification {exp:?}")));
                    }
                    for k in step["credits"].as_array().into_iter().flatten() {
                        bump(&mut out.counts, if k["ok"].as_bool().unwrap_or(false) { "result_ok" } else { "result_fail" });
                        let pre = prev_post["clusters"].as_array().and_then(|cs| cs.iter().find(|c| c["c"] == k["c"]))
                            .and_then(|c| c["list"].as_array()).and_then(|l| l.iter().find(|b| b["id"] == k["id"] && b["addr"] == k["addr"]));
                        out.combos.insert(health_combo(pre, k));
                    }
                    // 5. the connection attempts reached the listening sockets, in the order they were made
                    for key in &started {
                        if let Some(l) = rig.listeners.get(&key.2) {
                            match l.accept() {
                                Ok((s, _)) => {
                                    let _ = s.set_nonblocking(true);
                                    let _ = s.set_nodelay(true);
                                    rig.partial_sent.remove(key);
                                    rig.socks.insert(key.clone(), s);
                                }
                                Err(e) => return Err(("replay:connections".to_string(), format!("no connection arrived at address {} for the probe of {key:?}: {e}", key.2))),
                            }
                        }
                    }
                    for (a, l) in &rig.listeners {
                        if l.accept().is_ok() {
                            return Err(("replay:connections".to_string(), format!("an extra connection arrived at address {a}")));
                        }
                    }
                    // 6. the quick server acts on its own
                    for s in step["autos"].as_array().into_iter().flatten() {
                        let kind = s["kind"].as_str().unwrap_or("");
                        bump(&mut out.counts, &format!("auto_{kind}"));
                        rig.server_act(kind, &key_of(s), s["status"].as_u64().unwrap_or(0)).map_err(|e| ("replay:server".to_string(), e))?;
                    }
                }
                other => return Err(("harness:format".to_string(), format!("unknown step {other}"))),
            }
            // the health records after the step
            let real = rig.project(&clusters);
            if real != entry["post"]["clusters"] {
                return Err(("replay:state".to_string(), format!("after {}: real {} specification {}", step, real, entry["post"]["clusters"])));
            }
            Ok(())
        }));
        match res {
            Ok(Ok(())) => {}
            Ok(Err(e)) => fail = Some(e),
            Err(p) => fail = Some(("panic:health_checker".to_string(), vh::util::panic_message(p))),
        }
        if let Some((class, what)) = fail {
            if class.starts_with("harness:") {
                out.inconclusive = Some(format!("{class}: {what}"));
            } else {
                out.violation = Some((class, what, i + 1));
            }
            break;
        }
        // flips, for the statistics
        if op == "poll" {
            for (cl_now, cl_before) in entry["post"]["clusters"].as_array().into_iter().flatten().zip(prev_post["clusters"].as_array().into_iter().flatten()) {
                for b in cl_now["list"].as_array().into_iter().flatten() {
                    if let Some(p) = cl_before["list"].as_array().and_then(|l| l.iter().find(|x| x["id"] == b["id"] && x["addr"] == b["addr"])) {
                        if p["h"] != b["h"] {
                            bump(&mut out.counts, if b["h"] == true { "flip_up" } else { "flip_down" });
                            if out.samples.is_empty() {
                                out.samples.push(format!("schedule {index} step {}: {} {}@{} marked {} (cs {} cf {}) by the real checker as predicted",
                                    i + 1, cl_now["c"], b["id"], b["addr"], if b["h"] == true { "UP" } else { "DOWN" }, b["cs"], b["cf"]));
                            }
                        }
                    }
                }
            }
        }
        prev_post = entry["post"].clone();
    }
    hckit::forget_log(&name);
    out
}

fn main() {
    vh::util::quiet_panics();
    let a: Vec<String> = std::env::args().collect();
    let (mut seed, mut threads, mut tick_ms, mut hcap) = (1u64, 200usize, 1400u64, 3u32);
    let mut i = 1;
    while i + 1 < a.len() {
        match a[i].as_str() {
            "--seed" => seed = a[i + 1].parse().unwrap(),
            "--threads" => threads = a[i + 1].parse().unwrap(),
            "--tick-ms" => tick_ms = a[i + 1].parse().unwrap(),
            "--hcap" => hcap = a[i + 1].parse().unwrap(),
            _ => {}
        }
        i += 2;
    }
    let hooked = hckit::install_sink();
    let watchdog = hckit::Watchdog::start();
    let mut hists: Vec<Vec<Value>> = Vec::new();
    for line in std::io::stdin().lock().lines() {
        let Ok(line) = line else { break };
        if let Ok(Value::Array(h)) = serde_json::from_str::<Value>(&line) {
            hists.push(h);
        }
    }
    let hists = Arc::new(hists);
    let base = (std::process::id() as u64 * 173 + 200_000) % 400_000;
    let next = Arc::new(AtomicUsize::new(0));
    let results: Arc<Mutex<BTreeMap<usize, Outcome>>> = Arc::new(Mutex::new(BTreeMap::new()));
    let t0 = Instant::now();
    let mut rng = Rng(seed ^ 0x4843);
    let mut handles = Vec::new();
    for t in 0..threads.max(1).min(hists.len().max(1)) {
        let (next, results, hists) = (next.clone(), results.clone(), hists.clone());
        let delay = rng.below(tick_ms.max(1));
        handles.push(
            std::thread::Builder::new()
                .name(format!("rh{t}"))
                .spawn(move || {
                    let mut first = true;
                    loop {
                        let n = next.fetch_add(1, Ordering::SeqCst);
                        if n >= hists.len() {
                            break;
                        }
                        let o = replay(n, &hists[n], tick_ms, hcap, base, if first { delay } else { 0 });
                        first = false;
                        results.lock().unwrap().insert(n, o);
                    }
                })
                .expect("spawn"),
        );
    }
    for h in handles {
        let _ = h.join();
    }
    let res = results.lock().unwrap();
    let mut total = Counts::new();
    let mut combos: BTreeSet<String> = BTreeSet::new();
    let mut samples: Vec<String> = Vec::new();
    let (mut done, mut inconclusive, mut worst_drift) = (0u64, 0u64, 0i64);
    let mut first_inconclusive = String::new();
    for (n, o) in res.iter() {
        for (k, v) in &o.counts {
            *total.entry(k.clone()).or_insert(0) += v;
        }
        combos.extend(o.combos.iter().cloned());
        worst_drift = worst_drift.max(o.worst_drift_ms);
        if let Some(s) = o.samples.first() {
            if samples.len() < 4 {
                samples.push(s.clone());
            }
        }
        if let Some((class, what, step)) = &o.violation {
            vh::util::emit(&json!({"kind": "violation", "class": class, "detail": {"behaviour": n + 1, "step": step, "what": what}}));
        } else if let Some(why) = &o.inconclusive {
            inconclusive += 1;
            if first_inconclusive.is_empty() {
                first_inconclusive = format!("schedule {}: {why}", n + 1);
            }
        } else {
            done += 1;
        }
    }
    vh::util::emit(&json!({"kind": "summary", "hooked": hooked, "histories": hists.len(), "completed": done, "inconclusive": inconclusive,
                           "first_inconclusive": first_inconclusive, "counts": total, "distinct_combinations": combos.len(), "samples": samples,
                           "worst_drift_ms": worst_drift, "worst_stall_ms": watchdog.worst(), "wall_s": t0.elapsed().as_secs_f64()}));
    std::process::exit(0);
}
