#!/bin/bash
# tools/seed_import_round.sh <property> <n> : import + meta fill + worktree removal for /tmp/seed-<P>-<n>
P="$1"; N="$2"
/verif/tools/seed_import.sh $P $N
git -C /repo worktree remove --force /tmp/seed-$P-$N 2>/dev/null; rm -rf /tmp/seed-$P-$N; git -C /repo worktree prune
python3 - "$P" "$N" <<'PY'
import glob, json, os, re, sys
P,N=sys.argv[1:]
for d in sorted(glob.glob('/verif/seeded/%s-%s?'%(P,N))):
    rp=os.path.join(d,'README.md'); mp=os.path.join(d,'meta.json')
    if not os.path.exists(rp): continue
    txt=open(rp).read(); m=json.load(open(mp))
    def section(pat):
        mm=re.search(r'^#+ [^\n]*(?:%s)[^\n]*\n(.*?)(?=^#+ |\Z)'%pat, txt, re.S|re.M|re.I)
        if not mm: return None
        s=re.sub(r'\s+',' ',mm.group(1)).strip()
        return s[:600]+('…' if len(s)>600 else '')
    n=section(r'need|manifest')
    if n: m['needs_to_manifest']=n
    t=re.search(r'^# (.*)$', txt, re.M); w=section(r'the change')
    m['what']=(((t.group(1).strip()+' — ') if t else '')+(w or ''))[:500]
    json.dump(m,open(mp,'w'),indent=1)
PY
cd /verif && git add seeded/$P-$N? && git commit -qm "seeded: import $P-${N}x" -q
