------------------------------ MODULE Handover ------------------------------
(***************************************************************************)
(* Worker hand-over (upgrade) and soft stop of a sozu worker.              *)
(*                                                                         *)
(* Code:  lib/src/server.rs   read_channel_messages_and_notify (SoftStop,  *)
(*                            ReturnListenSockets), return_listen_sockets, *)
(*                            notify_activate_listener, shut_down_sessions *)
(*        lib/src/{http,https,tcp,udp}.rs  give_back_listeners, soft_stop  *)
(*        lib/src/protocol/mux/mod.rs      Mux::shutting_down              *)
(*        lib/src/protocol/mux/h2.rs       graceful_goaway + deadline      *)
(*        command/src/scm_socket.rs        send_listeners/receive_listeners*)
(*        bin/src/command/upgrade.rs, e2e/src/sozu/worker.rs (Worker::     *)
(*        upgrade): the master-side orchestration                          *)
(*                                                                         *)
(* One action per run-to-completion step of the code; the master, the      *)
(* clients, the backend, the clock and the death of the old worker are     *)
(* separate, independently enabled actions.                                *)
(***************************************************************************)
EXTENDS ScmManifest, FiniteSets, TLC

CONSTANTS Addrs,        \* listening addresses (<= 3)
          Reqs,         \* connection slots on the old worker (2)
          Successor,    \* TRUE: hand-over to a successor; FALSE: plain soft stop
          Alphabet,     \* "request": the slots start in (and only move through) the stages of the REQUEST;
                        \* "response": they start awaiting / receiving the RESPONSE and the delivery actions are
                        \* enabled (exhaustive configurations side by side instead of one product: see InitSlots);
                        \* "flow": they start in the stages of an exchange that has MORE steps than "request, then
                        \* response" (body withheld until 100 Continue, 103 Early Hints, upgrade handshake, early
                        \* final response, a second request pipelined behind the one in flight) and the interim
                        \* actions are enabled; "trace": every action is enabled (trace validation)
          Deviations    \* switchable defect classes, modelled as the code would behave:
                        \*   "QuiescedBeforeFlushed": a pass of shut_down_sessions takes a session whose response was
                        \*   read to its end from the backend for finished although its tail is still buffered in the
                        \*   worker (Stream::is_quiesced / Mux::shutting_down without the "nothing left to write"
                        \*   conjuncts). No open finding uses it: it is the self-test of P_C10b (TLC must refute it).
                        \*   "ClosedAfterInterim": once a pass of shut_down_sessions has seen a session with a
                        \*   request in flight, the next "message complete" on it - which an interim response (100
                        \*   Continue, 103 Early Hints) is - ends the session: the exchange is cut in its middle
                        \*   (e.g. Mux::shutting_down flagging Linked streams `closing`, tested by
                        \*   ConnectionH1::writable before the 1xx cases). Self-test as well.

Protos == {"http", "https", "tcp", "udp"}
FdStates == {"old", "inFlightToMaster", "master", "inFlightToNew", "newHeld", "new", "closed"}
OldPhases == {"serving", "returned", "softStopping", "acked", "exited", "dead"}
LiveOld == {"serving", "returned", "softStopping"}
\* stage of the connection slot, as the OLD worker sees it
Stages == {"none",            \* free slot
           "preHeaders",      \* accepted, request head incomplete (field partial: some bytes were read)
           "midBody",         \* head complete and forwarded, body incomplete
           "awaitResp",       \* request complete, backend has not answered
           "idleKeepAlive",   \* no request in flight
           "h2Open",          \* H2 stream with complete head, END_STREAM not received
           "h2Await",         \* H2 stream complete, backend has not answered
           \* the response on its way to the client (H1 / H2 stream):
           "respStreaming",   \* response head (and some body) forwarded, the backend is still sending (stream Linked)
           "respTail",        \* the backend has finished (and, if it closed, was released: stream Unlinked); the rest
                              \* of the response is buffered in the worker, waiting for the client to read
           "h2RespStreaming",
           "h2RespTail",
           \* an exchange with more steps than "request, then response" (the stream is Linked in all of them):
           "expectHead",      \* head with `Expect: 100-continue` forwarded, the client withholds the body until the
                              \* interim response
           "hinted",          \* request complete, an interim response (103 Early Hints) was relayed, the final
                              \* response is still to come
           "h2Hinted",
           "upgrading",       \* upgrade handshake: head with `Upgrade` forwarded, the 101 is still to come (after it
                              \* the connection is a tunnel, which a stop closes like a TCP relay)
           "pipelined"}       \* request complete and in flight, and the NEXT request of the connection is already in
                              \* the worker's buffer (not parsed, not forwarded)
TailStages == {"respTail", "h2RespTail"}
RespStages == {"respStreaming", "h2RespStreaming"} \cup TailStages
FlowStages == {"expectHead", "hinted", "h2Hinted", "upgrading", "pipelined"}
HeadComplete(s) == s \in {"midBody", "awaitResp", "h2Open", "h2Await"} \cup RespStages \cup FlowStages
IsH2(s) == s \in {"h2Open", "h2Await", "h2RespStreaming", "h2RespTail", "h2Hinted"}
RespEnabled == Alphabet \in {"response", "trace"}
FlowEnabled == Alphabet \in {"flow", "trace"}

VARIABLES
  proto,      \* [Addrs -> Protos]
  fd,         \* [Addrs -> FdStates]   who holds the listening socket of address a
  sock,       \* [Addrs -> Addrs]      the socket that travels under label a is bound to sock[a]
  closedBy,   \* [Addrs -> {"-","death","stop"}]
  manifest,   \* sequence of addresses of the SCM message in flight (<<>> if none)
  oldPhase, newPhase,
  mpc,        \* master: "idle","askedReturn","received","failed"
  chan,       \* commands sent to the old worker and not yet processed
  resp,       \* responses of the old worker not yet read by the master
  stopSent,
  req,        \* [Reqs -> [stage, partial, st, why]]
  draining,   \* first GOAWAY sent on the H2 connections (graceful deadline armed)
  deadlinePassed,
  acks,       \* terminal answers to SoftStop written by the old worker
  acceptedAfterStop

vars == <<proto, fd, sock, closedBy, manifest, oldPhase, newPhase, mpc, chan, resp, stopSent, req,
          draining, deadlinePassed, acks, acceptedAfterStop>>

FreeSlot == [stage |-> "none", partial |-> FALSE, st |-> "open", why |-> "-"]
Slot(s, p) == [stage |-> s, partial |-> p, st |-> "open", why |-> "-"]
InitSlots ==
  IF Alphabet = "request"
  THEN {FreeSlot, Slot("preHeaders", FALSE), Slot("preHeaders", TRUE), Slot("midBody", FALSE),
        Slot("awaitResp", FALSE), Slot("idleKeepAlive", FALSE), Slot("h2Open", FALSE), Slot("h2Await", FALSE)}
  ELSE IF Alphabet = "flow"
  THEN {FreeSlot, Slot("expectHead", FALSE), Slot("awaitResp", FALSE), Slot("upgrading", FALSE),
        Slot("midBody", FALSE), Slot("pipelined", FALSE), Slot("h2Await", FALSE), Slot("h2Open", FALSE)}
  ELSE {FreeSlot, Slot("idleKeepAlive", FALSE), Slot("awaitResp", FALSE), Slot("h2Await", FALSE),
        Slot("respStreaming", FALSE), Slot("respTail", FALSE), Slot("h2RespStreaming", FALSE),
        Slot("h2RespTail", FALSE)}

Occupied(r) == req[r].stage # "none" /\ req[r].st = "open"

\* nominal (worst) textual length of a listening address, for the manifest size
AddrTextLen == AddrLen("v6x")
SeqOf(S) == CHOOSE s \in [1..Cardinality(S) -> S] : \A i, j \in 1..Cardinality(S) : i # j => s[i] # s[j]
ManifestOk(m) == ReceiveOk(Len(m), ManifestBytes([i \in 1..Len(m) |-> AddrTextLen]))

Init ==
  /\ proto \in [Addrs -> Protos]
  /\ fd = [a \in Addrs |-> "old"]
  /\ sock = [a \in Addrs |-> a]
  /\ closedBy = [a \in Addrs |-> "-"]
  /\ manifest = <<>>
  /\ oldPhase = "serving" /\ newPhase = "none" /\ mpc = "idle"
  /\ chan = <<>> /\ resp = <<>> /\ stopSent = FALSE
  /\ req \in [Reqs -> InitSlots]
  /\ draining = FALSE /\ deadlinePassed = FALSE /\ acks = 0 /\ acceptedAfterStop = 0

---------------------------------------------------------------------------
(* Master (bin/src/command/upgrade.rs; e2e Worker::upgrade) *)

Master_AskReturn ==
  /\ Successor /\ mpc = "idle" /\ ~stopSent
  /\ chan' = Append(chan, "Return") /\ mpc' = "askedReturn"
  /\ UNCHANGED <<proto, fd, sock, closedBy, manifest, oldPhase, newPhase, resp, stopSent, req, draining,
                 deadlinePassed, acks, acceptedAfterStop>>

\* reads the Ok of ReturnListenSockets, then scm.receive_listeners()
Master_ReceiveListeners ==
  /\ mpc = "askedReturn" /\ resp # <<>> /\ Head(resp) = "ReturnOk"
  /\ resp' = Tail(resp)
  /\ IF ManifestOk(manifest)
     THEN /\ fd' = [a \in Addrs |-> IF fd[a] = "inFlightToMaster" THEN "master" ELSE fd[a]]
          /\ mpc' = "received"
     ELSE \* decode error: the descriptors were taken out of the socket and are owned by nobody
          /\ fd' = [a \in Addrs |-> IF fd[a] = "inFlightToMaster" THEN "master" ELSE fd[a]]
          /\ mpc' = "failed"
  /\ manifest' = <<>>
  /\ UNCHANGED <<proto, sock, closedBy, oldPhase, newPhase, chan, stopSent, req, draining, deadlinePassed, acks,
                 acceptedAfterStop>>

\* launch_new_worker(Some(listeners)): send_listeners on the successor's scm socket, then listeners.close()
Master_StartSuccessor ==
  /\ mpc = "received" /\ newPhase = "none"
  /\ manifest' = SeqOf({a \in Addrs : fd[a] = "master"})
  /\ fd' = [a \in Addrs |-> IF fd[a] = "master" THEN "inFlightToNew" ELSE fd[a]]
  /\ newPhase' = "starting"
  /\ UNCHANGED <<proto, sock, closedBy, oldPhase, mpc, chan, resp, stopSent, req, draining, deadlinePassed, acks,
                 acceptedAfterStop>>

\* SoftStop goes out once the listeners are safe in the master (hand-over), or at any time (plain stop)
Master_SendSoftStop ==
  /\ ~stopSent /\ (Successor => mpc = "received")
  /\ chan' = Append(chan, "SoftStop") /\ stopSent' = TRUE
  /\ UNCHANGED <<proto, fd, sock, closedBy, manifest, oldPhase, newPhase, mpc, resp, req, draining,
                 deadlinePassed, acks, acceptedAfterStop>>

---------------------------------------------------------------------------
(* Successor *)

\* Server::try_new_from_config: scm.receive_listeners() into scm_listeners
New_Start ==
  /\ newPhase = "starting"
  /\ IF ManifestOk(manifest)
     THEN /\ fd' = [a \in Addrs |-> IF fd[a] = "inFlightToNew" THEN "newHeld" ELSE fd[a]]
          /\ newPhase' = "running"
     ELSE /\ fd' = fd /\ newPhase' = "failed"
  /\ manifest' = <<>>
  /\ UNCHANGED <<proto, sock, closedBy, oldPhase, mpc, chan, resp, stopSent, req, draining, deadlinePassed, acks,
                 acceptedAfterStop>>

\* notify_activate_listener: takes the descriptor of that address out of scm_listeners
New_Activate(a) ==
  /\ newPhase = "running" /\ fd[a] = "newHeld"
  /\ fd' = [fd EXCEPT ![a] = "new"]
  /\ UNCHANGED <<proto, sock, closedBy, manifest, oldPhase, newPhase, mpc, chan, resp, stopSent, req, draining,
                 deadlinePassed, acks, acceptedAfterStop>>

---------------------------------------------------------------------------
(* Old worker *)

\* return_listen_sockets: every proxy gives its listeners back, one SCM message, Ok
Old_ReturnListenSockets ==
  /\ oldPhase \in LiveOld /\ chan # <<>> /\ Head(chan) = "Return"
  /\ chan' = Tail(chan)
  /\ manifest' = SeqOf({a \in Addrs : fd[a] = "old"})
  /\ fd' = [a \in Addrs |-> IF fd[a] = "old" THEN "inFlightToMaster" ELSE fd[a]]
  /\ oldPhase' = IF oldPhase = "serving" THEN "returned" ELSE oldPhase
  /\ resp' = Append(resp, "ReturnOk")
  /\ UNCHANGED <<proto, sock, closedBy, newPhase, mpc, stopSent, req, draining, deadlinePassed, acks,
                 acceptedAfterStop>>

\* ready() on a listen token: accept + create_sessions
Old_Accept(a, r) ==
  /\ oldPhase \in LiveOld /\ fd[a] = "old" /\ proto[a] \in {"http", "https"}
  /\ req[r].stage = "none"
  /\ req' = [req EXCEPT ![r] = Slot("preHeaders", FALSE)]
  /\ acceptedAfterStop' = IF oldPhase = "softStopping" THEN acceptedAfterStop + 1 ELSE acceptedAfterStop
  /\ UNCHANGED <<proto, fd, sock, closedBy, manifest, oldPhase, newPhase, mpc, chan, resp, stopSent, draining,
                 deadlinePassed, acks>>

\* SoftStop: shutting_down = Some(id); every proxy's soft_stop() drops the listeners it still owns; "Processing"
Old_SoftStop ==
  /\ oldPhase \in {"serving", "returned"} /\ chan # <<>> /\ Head(chan) = "SoftStop"
  /\ chan' = Tail(chan)
  /\ oldPhase' = "softStopping"
  /\ fd' = [a \in Addrs |-> IF fd[a] = "old" THEN "closed" ELSE fd[a]]
  /\ closedBy' = [a \in Addrs |-> IF fd[a] = "old" THEN "stop" ELSE closedBy[a]]
  /\ resp' = Append(resp, "StopProcessing")
  /\ UNCHANGED <<proto, sock, manifest, newPhase, mpc, stopSent, req, draining, deadlinePassed, acks,
                 acceptedAfterStop>>

\* one pass of shut_down_sessions at the end of a loop iteration while shutting_down is set:
\* every session's shutting_down() is polled (Mux::shutting_down for http/https):
\*   no request in flight (front initial, nothing buffered)      -> closed now
\*   request head incomplete                                     -> closed now (what the code does) or kept:
\*                                                                  the property protects complete heads only
\*   request head complete                                       -> kept (closing = true), H2: first GOAWAY
\*   H2 and the graceful deadline elapsed                        -> forced close
\* and when no session is left the worker answers Ok once.
\*   response being delivered (backend still sending, or  -> kept until the client has everything
\*   finished with the tail buffered in the worker)          (H2: or the graceful deadline elapsed)
\*   exchange in one of its intermediate stages (body     -> kept, like any request in flight: an interim
\*   withheld, interim relayed, upgrade pending, next         response, a 101, the end of the first of two pipelined
\*   request buffered)                                        exchanges are not the end of the session
\* The result is a SET: the code has a legitimate choice for partial heads; the deviation is one more choice.
PassOnSet(s) ==
  IF s.stage = "none" \/ s.st # "open" THEN {s}
  ELSE IF s.stage = "idleKeepAlive" THEN {[s EXCEPT !.st = "closed"]}
  ELSE IF s.stage = "preHeaders" THEN (IF s.partial THEN {s} ELSE {}) \cup {[s EXCEPT !.st = "closed"]}
  ELSE IF IsH2(s.stage) /\ deadlinePassed THEN {[s EXCEPT !.st = "cut", !.why = "deadline"]}
  ELSE IF s.stage \in TailStages /\ "QuiescedBeforeFlushed" \in Deviations
       \* the buffered tail is dropped: the client sees either a clean end of a short body (response delimited
       \* by the close, or END_STREAM after less than was sent) or an abort (declared length not met)
       THEN {[s EXCEPT !.st = "short", !.why = "stop"], [s EXCEPT !.st = "cut", !.why = "stop"]}
  ELSE {s}

Old_ShutDownSessions ==
  /\ oldPhase = "softStopping"
  /\ \E after \in {f \in [Reqs -> UNION {PassOnSet(req[r]) : r \in Reqs}] : \A r \in Reqs : f[r] \in PassOnSet(req[r])} :
     LET left == {r \in Reqs : after[r].stage # "none" /\ after[r].st = "open"}
     IN /\ req' = after
        /\ draining' = (draining \/ \E r \in left : IsH2(after[r].stage))
        /\ IF left = {}
           THEN /\ acks' = acks + 1 /\ oldPhase' = "acked" /\ resp' = Append(resp, "StopOk")
           ELSE /\ UNCHANGED <<acks, oldPhase, resp>>
                /\ (after # req \/ draining' # draining)      \* no stuttering pass
  /\ UNCHANGED <<proto, fd, sock, closedBy, manifest, newPhase, mpc, chan, stopSent, deadlinePassed,
                 acceptedAfterStop>>

\* run() returns right after the answer was written
Old_Exit ==
  /\ oldPhase = "acked" /\ oldPhase' = "exited"
  /\ UNCHANGED <<proto, fd, sock, closedBy, manifest, newPhase, mpc, chan, resp, stopSent, req, draining,
                 deadlinePassed, acks, acceptedAfterStop>>

\* the old worker dies (crash, kill, channel closed): everything it still owns goes with it
Old_Die ==
  /\ oldPhase \in LiveOld \cup {"acked"}
  /\ oldPhase' = "dead"
  /\ fd' = [a \in Addrs |-> IF fd[a] = "old" THEN "closed" ELSE fd[a]]
  /\ closedBy' = [a \in Addrs |-> IF fd[a] = "old" THEN "death" ELSE closedBy[a]]
  /\ req' = [r \in Reqs |-> IF Occupied(r) THEN [req[r] EXCEPT !.st = "cut", !.why = "death"] ELSE req[r]]
  /\ chan' = <<>>
  /\ UNCHANGED <<proto, sock, manifest, newPhase, mpc, resp, stopSent, draining, deadlinePassed, acks,
                 acceptedAfterStop>>

---------------------------------------------------------------------------
(* Clients, backend, clock - as seen by the old worker *)

ReqStep(r, s2, p2) ==
  /\ oldPhase \in LiveOld /\ Occupied(r)
  /\ req' = [req EXCEPT ![r].stage = s2, ![r].partial = p2]
  /\ UNCHANGED <<proto, fd, sock, closedBy, manifest, oldPhase, newPhase, mpc, chan, resp, stopSent, draining,
                 deadlinePassed, acks, acceptedAfterStop>>

Client_SendPartialHead(r) == req[r].stage = "preHeaders" /\ ~req[r].partial /\ ReqStep(r, "preHeaders", TRUE)
Client_SendHead(r)        == req[r].stage = "preHeaders" /\ ReqStep(r, "midBody", FALSE)
Client_FinishBody(r)      == \/ req[r].stage = "midBody" /\ ReqStep(r, "awaitResp", FALSE)
                             \/ req[r].stage = "h2Open"  /\ ReqStep(r, "h2Await", FALSE)
Client_NewRequest(r)      == req[r].stage = "idleKeepAlive" /\ ReqStep(r, "preHeaders", TRUE)

\* the backend answers, the old worker relays the whole response; afterwards the connection is idle
\* (and is closed by the next pass if the worker is stopping)
\* With the flow stages: the final response may also come after interim ones (hinted), be the 101 of an upgrade
\* (the exchange the property protects is the handshake), overtake the body (midBody, h2Open, expectHead: the
\* backend answered from the head; the worker closes the connection after the response), or end the first of two
\* pipelined exchanges - the connection then carries a request that was read but not parsed nor forwarded, which
\* is the state "preHeaders with bytes" (kept or closed by a pass; served if the client is lucky).
RespondStages == {"awaitResp", "h2Await"} \cup
                 (IF FlowEnabled THEN {"hinted", "h2Hinted", "upgrading", "midBody", "h2Open", "expectHead", "pipelined"} ELSE {})
Backend_Respond(r) ==
  /\ oldPhase \in LiveOld /\ Occupied(r) /\ req[r].stage \in RespondStages
  /\ req' = [req EXCEPT ![r] = IF @.stage = "pipelined" THEN Slot("preHeaders", TRUE) ELSE [@ EXCEPT !.st = "done"]]
  /\ UNCHANGED <<proto, fd, sock, closedBy, manifest, oldPhase, newPhase, mpc, chan, resp, stopSent, draining,
                 deadlinePassed, acks, acceptedAfterStop>>

\* an interim response is relayed: 100 Continue to a client that withholds its body (which it now sends: midBody),
\* 103 Early Hints before the final response. For the worker a complete message went through; the exchange goes on.
\* Deviation ClosedAfterInterim: in a stopping worker (a pass has flagged the session) that message ends the
\* session - H1 only, the H2 front does not consult the flag.
InterimStages == {"expectHead", "awaitResp", "h2Await"}
AfterInterim(s) == IF s = "expectHead" THEN "midBody" ELSE IF s = "awaitResp" THEN "hinted" ELSE "h2Hinted"
Backend_Interim(r) ==
  /\ FlowEnabled /\ oldPhase \in LiveOld /\ Occupied(r) /\ req[r].stage \in InterimStages
  /\ \/ req' = [req EXCEPT ![r].stage = AfterInterim(req[r].stage)]
     \/ /\ "ClosedAfterInterim" \in Deviations /\ oldPhase = "softStopping" /\ ~IsH2(req[r].stage)
        /\ req' = [req EXCEPT ![r] = [@ EXCEPT !.stage = AfterInterim(req[r].stage), !.st = "cut", !.why = "stop"]]
  /\ UNCHANGED <<proto, fd, sock, closedBy, manifest, oldPhase, newPhase, mpc, chan, resp, stopSent, draining,
                 deadlinePassed, acks, acceptedAfterStop>>

\* Response delivery (enabled in the "response" alphabet). The worker relays what the backend sends as far as the
\* client reads; what the client has not read yet is buffered (kawa storage, H2 frames, TLS records, socket).
\*   Backend_SendPart : the response head and a first part of the body went through to the client
\*   Backend_Finish   : the backend wrote the end of the response (and closed, or not); the worker has read it all:
\*                      for the backend the exchange is over, the tail waits in the worker for the client
\*   Client_ReadSome  : the client reads; the step that matters is the one after which it has everything
Backend_SendPart(r) ==
  /\ RespEnabled /\ oldPhase \in LiveOld /\ Occupied(r) /\ req[r].stage \in {"awaitResp", "h2Await"}
  /\ req' = [req EXCEPT ![r].stage = IF req[r].stage = "awaitResp" THEN "respStreaming" ELSE "h2RespStreaming"]
  /\ UNCHANGED <<proto, fd, sock, closedBy, manifest, oldPhase, newPhase, mpc, chan, resp, stopSent, draining,
                 deadlinePassed, acks, acceptedAfterStop>>

Backend_Finish(r) ==
  /\ RespEnabled /\ oldPhase \in LiveOld /\ Occupied(r) /\ req[r].stage \in {"respStreaming", "h2RespStreaming"}
  /\ req' = [req EXCEPT ![r].stage = IF req[r].stage = "respStreaming" THEN "respTail" ELSE "h2RespTail"]
  /\ UNCHANGED <<proto, fd, sock, closedBy, manifest, oldPhase, newPhase, mpc, chan, resp, stopSent, draining,
                 deadlinePassed, acks, acceptedAfterStop>>

Client_ReadSome(r) ==
  /\ RespEnabled /\ oldPhase \in LiveOld /\ Occupied(r) /\ req[r].stage \in TailStages
  /\ req' = [req EXCEPT ![r] = [@ EXCEPT !.st = "done"]]
  /\ UNCHANGED <<proto, fd, sock, closedBy, manifest, oldPhase, newPhase, mpc, chan, resp, stopSent, draining,
                 deadlinePassed, acks, acceptedAfterStop>>

Tick_Deadline ==
  /\ oldPhase = "softStopping" /\ draining /\ ~deadlinePassed
  /\ deadlinePassed' = TRUE
  /\ UNCHANGED <<proto, fd, sock, closedBy, manifest, oldPhase, newPhase, mpc, chan, resp, stopSent, req, draining,
                 acks, acceptedAfterStop>>

---------------------------------------------------------------------------

MasterNext == Master_AskReturn \/ Master_ReceiveListeners \/ Master_StartSuccessor \/ Master_SendSoftStop
NewNext    == New_Start \/ \E a \in Addrs : New_Activate(a)
OldNext    == Old_ReturnListenSockets \/ Old_SoftStop \/ Old_ShutDownSessions \/ Old_Exit
              \/ \E a \in Addrs, r \in Reqs : Old_Accept(a, r)
EnvNext    == \E r \in Reqs : Client_SendPartialHead(r) \/ Client_SendHead(r) \/ Client_FinishBody(r)
                              \/ Client_NewRequest(r) \/ Backend_Respond(r)
                              \/ Backend_SendPart(r) \/ Backend_Finish(r) \/ Client_ReadSome(r)
                              \/ Backend_Interim(r)
Progress   == MasterNext \/ NewNext \/ Old_ReturnListenSockets \/ Old_SoftStop \/ Old_ShutDownSessions \/ Old_Exit
              \/ Tick_Deadline
              \/ \E r \in Reqs : Client_SendHead(r) \/ Client_FinishBody(r) \/ Backend_Respond(r)
                              \/ Backend_Finish(r) \/ Client_ReadSome(r) \/ Backend_Interim(r)

Next == MasterNext \/ NewNext \/ OldNext \/ EnvNext \/ Tick_Deadline \/ Old_Die

Spec == Init /\ [][Next]_vars
\* liveness: everything but the faults and the optional client moves is eventually done
FairSpec == Spec /\ WF_vars(Progress)

---------------------------------------------------------------------------
(* Properties *)

TypeOK ==
  /\ proto \in [Addrs -> Protos] /\ fd \in [Addrs -> FdStates] /\ sock \in [Addrs -> Addrs]
  /\ oldPhase \in OldPhases /\ newPhase \in {"none", "starting", "running", "failed"}
  /\ mpc \in {"idle", "askedReturn", "received", "failed"}
  /\ \A r \in Reqs : req[r].stage \in Stages /\ req[r].st \in {"open", "done", "cut", "closed", "short"}
                   /\ req[r].why \in {"-", "death", "deadline", "stop"}
  /\ acks \in 0..2 /\ acceptedAfterStop \in 0..8

\* (a) no listener is closed by the hand-over: a listening socket only disappears with a worker that died
\*     while it still owned it (or, without a successor, with the soft stop itself); once given back it is
\*     never closed, whatever happens to the old worker; it stays bound to its address
P_C10a_NoListenerLost ==
  /\ \A a \in Addrs : fd[a] = "closed" => closedBy[a] = "death" \/ (~Successor /\ closedBy[a] = "stop")
  /\ \A a \in Addrs : sock[a] = a
  /\ mpc # "failed" /\ newPhase # "failed"
\*     ... and at the end every address is owned (and served) by the successor
HandedOver == \A a \in Addrs : fd[a] = "new" /\ sock[a] = a
P_C10a_EndsInSuccessor == (Successor /\ oldPhase = "returned") ~> HandedOver

\* (b) a request whose head was complete on the old worker is not cut, wherever it is in its life (request body,
\*     waiting for the backend, response being delivered), unless the graceful deadline passed (H2 only) or the
\*     worker died
P_C10b_NoRequestCut ==
  \A r \in Reqs : (req[r].st = "cut" /\ HeadComplete(req[r].stage)) =>
                     \/ req[r].why = "death" /\ oldPhase = "dead"
                     \/ req[r].why = "deadline" /\ IsH2(req[r].stage) /\ deadlinePassed
\*     and closing a connection without cutting is only done to connections with no request in flight
P_C10b_OnlyIdleClosed ==
  \A r \in Reqs : req[r].st = "closed" => req[r].stage \in {"idleKeepAlive", "preHeaders"}

\*     and a response never ends "clean but short" (completed as far as the client can tell, truncated in
\*     fact): a response is delivered completely or aborted explicitly
P_C10b_NoShortResponse == \A r \in Reqs : req[r].st # "short"

\* (c) nothing is accepted once the stop is being processed (a fortiori after it was acknowledged)
P_C10c_NoAcceptAfterStop == acceptedAfterStop = 0

\* (d) exactly one acknowledgement, only when no session is left, then exit
P_C10d_OneAck ==
  /\ acks <= 1
  /\ oldPhase \in LiveOld => acks = 0
  /\ oldPhase \in {"acked", "exited"} => acks = 1 /\ \A r \in Reqs : ~Occupied(r)
P_C10d_StopTerminates == (oldPhase = "softStopping") ~> (oldPhase \in {"exited", "dead"})

\* the size arithmetic of ScmManifest, as a state-level formula (TLC reports a false constant-level invariant as an
\* evaluation error instead of a violation)
P_C10_Manifest == manifest = manifest /\ P_C10_ManifestFits

P_C10 == P_C10a_NoListenerLost /\ P_C10b_NoRequestCut /\ P_C10b_OnlyIdleClosed /\ P_C10b_NoShortResponse
         /\ P_C10c_NoAcceptAfterStop /\ P_C10d_OneAck
=============================================================================
