"""C19 - UDP flows are sticky, isolated, bounded and torn down once (spec/UdpFlows.tla).

1. TLC model-checks P_C19_* (six action properties + four structural invariants) on the spec with no
   deviation, for three families of small universes (affinity / limits / pp).
2. For every open deviation TLC is re-run with it switched on: the listed sub-property must be violated
   (the known finding is still what the spec says it is) and everything else, including the sub-property
   modulo the precise finding, must still hold (a different breakage is not hidden).
3. S->I, exhaustive: generator configs (deviations on = the spec as the code behaves) print EVERY transition of
   the explored state graphs; harness/replay_udp rebuilds the graphs and executes every transition on the real
   UdpManager after a shortest history, comparing the exact output sequence and the visible state.
4. S->I, sampled: TLC -simulate prints long random behaviours of a larger universe; replay_udp executes them
   step by step with the same comparison.
5. I->S: harness/drive_udp drives the real UdpManager with seeded random runs (the repository simulator's
   grammar) and records an ndjson trace; TLC validates it against spec/Trace_UdpFlows.tla (every event must be
   the spec's step for that input, all invariants and P_C19 step properties evaluated at every event).
   A canary (one corrupted event) must be rejected.
"""
import json
import os
import random
from concurrent.futures import ThreadPoolExecutor

import vlib

PID = "C19"

CFG = """SPECIFICATION Spec
CONSTANTS
  Deviations = %(dev)s
  Family = "%(family)s"
  MaxInputs = %(inputs)d
  MaxTime = %(time)d
  Emit = "%(emit)s"
%(view)s
%(checks)s
CHECK_DEADLOCK FALSE
"""
INVS = "INVARIANTS TypeOK TableOK TimerCoherent NoImmortal"
PROPS = ["P_C19_Sticky", "P_C19_Isolation", "P_C19_Integrity", "P_C19_Cap", "P_C19_Teardown", "P_C19_Timer"]
# sub-property each open deviation must break, and its "modulo the finding" replacement
DEV_BREAKS = {"AffinityRekey": ("P_C19_Sticky", "P_C19_StickyModuloRekey", "affinity-rekey")}
# self-test switches (never open findings): defect classes the model checker must refute on every run -
# switch -> (property that must be violated, family, inputs, time)
SELFTESTS = {"CapFloorsAtLive": ("P_C19_Cap", "cap", 3, 0)}

TRACE_CFG = """SPECIFICATION TraceSpec
CONSTANTS
  Deviations = %(dev)s
  Family = "trace"
  MaxInputs = 0
  MaxTime = 0
  Emit = "none"
CONSTRAINT Track
INVARIANTS TypeOK TableOK TimerCoherent NoImmortal
PROPERTIES %(props)s
POSTCONDITION TraceAccepted
CHECK_DEADLOCK FALSE
"""

# the vacuity guard: every one of these must occur among the replayed transitions / trace events
NEED_COVER = ["op:ClientDatagram", "op:BackendDatagram", "op:BackendResolved", "op:Config.SetCluster",
              "op:Config.SetMaxFlows", "op:Config.SetMaxRx", "op:Config.Drain", "op:Timeout", "op:Abort",
              "op:CloseAll", "out:SelectBackend", "out:OpenUpstream", "out:SendToBackend", "out:SendToBackend+pp",
              "out:SendToClient", "out:ArmTimer", "out:CloseFlow", "out:Drop.Shed", "out:Drop.UnknownFlow",
              "out:Drop.Truncated", "out:Drop.Invalid", "out:Drop.NoBackend", "out:Metric.FlowShed",
              "close-by:Timeout", "close-by:Abort", "close-by:CloseAll", "close-by:ClientDatagram",
              "close-by:BackendDatagram", "close-by:BackendResolved"]


def tla_set(xs):
    return "{" + ", ".join('"%s"' % x for x in xs) + "}"


def write_cfg(wd, name, family, inputs, time, dev, emit="none", props=None, view=True):
    if emit == "edges":
        checks = "ACTION_CONSTRAINT EmitEdge\n" + INVS + "\nPROPERTIES " + " ".join(props or PROPS)
    elif emit == "hist":
        checks = "INVARIANTS EmitHist"
    else:
        checks = INVS + "\nPROPERTIES " + " ".join(props or PROPS)
    path = os.path.join(wd, name)
    with open(path, "w") as f:
        f.write(CFG % {"dev": tla_set(dev), "family": family, "inputs": inputs, "time": time, "emit": emit,
                       "view": "VIEW View" if (view and emit != "hist") else "", "checks": checks})
    return path


def merge_cover(total, part):
    for k, v in part.items():
        total[k] = total.get(k, 0) + v


def run(tier, replay=None):
    rep = vlib.Report(PID, tier)
    try:
        _run(rep, tier, replay)
    except vlib.ToolError as e:
        # a tool problem never hides a violation that was already established
        if not rep.violations:
            raise
        vlib.log("tool error after violations were found (reported as violations): %s" % e)
        rep.finish()


def _run(rep, tier, replay):
    wd = vlib.workdir(PID)
    bins = vlib.cargo_build(["replay_udp", "drive_udp", "shell_udp"])
    devs = vlib.open_deviations(PID)
    thorough = tier == "thorough"
    workers = 16 if thorough else 8
    seed = vlib.seed()

    if replay:
        return run_replay(rep, wd, bins, devs, replay)

    # The TLC jobs of steps 1-3 are independent: they run concurrently (a few workers each), the shell leg
    # (mostly waiting on sockets) runs beside everything; results are applied to the report in order.
    pool = ThreadPoolExecutor(max_workers=6)
    shell_future = pool.submit(shell_run, wd, bins, devs, seed, 8 if thorough else 3, 40 if thorough else 28)
    sim_future = pool.submit(sim_job, wd, bins, devs, seed, thorough)
    trace_future = pool.submit(trace_job, wd, bins, devs, seed, thorough)
    tw = 5 if thorough else 3

    # ---- 1. design level, no deviation: (family, inputs, time)
    # (when no deviation is open, step 3 is this very check on the same universes)
    mc_jobs = []
    if devs:
        mc = ([("affinity", 5, 3), ("limits", 4, 3), ("pp", 5, 3), ("cap", 7, 1)] if thorough
              else [("affinity", 4, 2), ("limits", 3, 1), ("pp", 3, 2), ("cap", 5, 0)])
        for fam, ni, nt in mc:
            mc_jobs.append((fam, pool.submit(vlib.tlc, "UdpFlows", write_cfg(wd, "mc_%s.cfg" % fam, fam, ni, nt, []), PID,
                                             workers=tw, timeout=3000 if thorough else 600)))

    # ---- 2. open deviations: each must still break exactly the sub-property its finding names
    props = list(PROPS)
    dev_jobs = []
    for d in devs:
        broken, modulo, fid = DEV_BREAKS[d]
        dev_jobs.append((d, pool.submit(vlib.tlc, "UdpFlows",
                                        write_cfg(wd, "dev_%s.cfg" % d, "affinity", 5 if thorough else 4, 3, [d], props=[broken]),
                                        PID, workers=2, timeout=900)))
        props = [modulo if p == broken else p for p in props]

    # self-test switches: TLC must produce a counterexample to the named property
    self_jobs = [(d, t, pool.submit(vlib.tlc, "UdpFlows", write_cfg(wd, "self_%s.cfg" % d, t[1], t[2], t[3], [d], props=[t[0]]),
                                    PID, workers=1, timeout=600)) for d, t in SELFTESTS.items()]

    # ---- 3. the spec as the code behaves (open deviations on): model-checked against everything the findings do
    #         not excuse, and at the same time printed transition by transition and executed on the real manager
    gen = ([("affinity", 5, 2), ("limits", 4, 2), ("pp", 5, 2), ("cap", 7, 1)] if thorough
           else [("affinity", 4, 2), ("limits", 3, 2), ("pp", 4, 2), ("cap", 6, 0)])

    def gen_job(k, fam, ni, nt):
        path = os.path.join(wd, "edges_%s.ndjson" % fam)
        with open(path, "w") as f:
            g = vlib.tlc("UdpFlows", write_cfg(wd, "gen_%s.cfg" % fam, fam, ni, nt, devs, emit="edges", props=props), PID,
                         workers=tw, timeout=3000, want_replay=True,
                         replay_sink=lambda o: f.write(json.dumps(o, separators=(",", ":")) + "\n"))
        if g["violated"] or g["n_replays"] == 0:
            return g, None
        return g, replay_run(bins, path, seed * 3 + k)

    gen_jobs = [(k, fam, pool.submit(gen_job, k, fam, ni, nt)) for k, (fam, ni, nt) in enumerate(gen)]

    for fam, fut in mc_jobs:
        r = fut.result()
        rep.add_tlc(r)
        if r["violated"]:
            rep.violation("spec:" + r["violated"], "the specification itself violates %s (family %s)" % (r["violated"], fam),
                          r["out"], name="spec_%s.txt" % fam)
    for d, fut in dev_jobs:
        broken, modulo, fid = DEV_BREAKS[d]
        rd = fut.result()
        rep.add_tlc(rd)
        if rd["violated"] != broken:
            raise vlib.ToolError("deviation %s no longer violates %s in the model (got %s)" % (d, broken, rd["violated"]))
        rep.known_finding_seen(fid)
        vlib.log("deviation %s: TLC counterexample to %s as expected" % (d, broken))

    for d, t, fut in self_jobs:
        rd = fut.result()
        rep.add_tlc(rd)
        if rd["violated"] != t[0]:
            raise vlib.ToolError("self-test switch %s is not refuted by %s in the model (got %s)" % (d, t[0], rd["violated"]))
        vlib.log("self-test %s: TLC counterexample to %s as expected" % (d, t[0]))

    cover = {}
    total_edges = total_nodes = total_beh = total_steps = 0
    exhaustive = True
    for k, fam, fut in gen_jobs:
        g, res = fut.result()
        rep.add_tlc(g)
        if g["violated"]:
            rep.violation("spec:" + g["violated"],
                          "the specification (deviations %s on) violates %s beyond the listed findings (family %s)" % (devs, g["violated"], fam),
                          g["out"], name="spec_dev_%s.txt" % fam)
            continue
        if g["n_replays"] == 0:
            raise vlib.ToolError("generator run for %s printed nothing" % fam)
        if g["queue"] != 0:
            exhaustive = False
        summ = replay_apply(rep, res, "edges_%s" % fam)
        if summ["unreachable"] or summ["edges"] != g["n_replays"]:
            raise vlib.ToolError("replayer lost transitions: %s" % {x: summ[x] for x in ("edges", "unreachable", "nodes")})
        total_edges += summ["replayed"]
        total_nodes += summ["nodes"]
        merge_cover(cover, summ["cover"])
        if k == 0:
            rep.add_samples(summ["samples"], 2)
        vlib.log("replay %s: %d states, %d transitions executed on the real UdpManager, %d skipped below a failure, classes %s"
                 % (fam, summ["nodes"], summ["replayed"], summ["skipped_below_failure"], summ["classes"]))

    # ---- 4. S->I sampled: long random behaviours of the big universe (job started at the beginning)
    g, simout = sim_future.result()
    if g["violated"] or g["n_replays"] == 0:
        raise vlib.ToolError("simulation generator failed (%s, %d behaviours)" % (g["violated"], g["n_replays"]))
    summ = replay_apply(rep, simout, "behaviours")
    total_beh += summ["behaviours"]
    total_steps += summ["behaviour_steps"]
    merge_cover(cover, summ["cover"])
    vlib.log("replay behaviours: %d behaviours, %d steps, %d fully conformant" % (summ["behaviours"], summ["behaviour_steps"], summ["behaviours_ok"]))

    missing = [c for c in NEED_COVER if not cover.get(c)]
    if missing and not rep.violations:
        raise vlib.ToolError("vacuous generator: never produced %s" % missing)

    # ---- 5. I->S: seeded random runs of the real manager validated by TLC (job started at the beginning)
    tj = trace_future.result()
    dsum, tr = tj["dsum"], tj["tr"]
    for v in tj["out"]:
        if v.get("kind") == "violation":
            rep.violation(v["class"], json.dumps(v["detail"])[:250], v, name="drive_%s.json" % v["class"].replace(":", "_"))
    rep.add_tlc(tr)
    if not tr["accepted"]:
        record_trace_rejection(rep, tr, tj["trace"], "trace")
    else:
        rep.cov["traces_validated_against_impl"] += dsum["runs"]
        if tj["canary_problem"]:
            raise vlib.ToolError(tj["canary_problem"])
    vlib.log("trace validation: %d runs, %d events, accepted=%s (%.1fs)" % (dsum["runs"], dsum["events"], tr["accepted"], tr["wall_s"]))
    merge_cover(cover, dsum.get("cover", {}))
    rep.add_samples([json.dumps(s_) for s_ in dsum.get("samples", [])], 2)

    # ---- 6. shell leg: real worker, UDP listener, mock clients and backends, lock step (started at the beginning)
    shell_apply(rep, shell_future.result(), cover)
    pool.shutdown()

    rep.cov["traces_validated_against_impl"] += total_edges + total_beh
    rep.cov["evaluations"] += total_edges + total_steps + dsum["events"]
    rep.cov["distinct_nontrivial"] = total_nodes
    rep.cov["exhaustive"] = exhaustive
    rep.extra["transitions_replayed"] = total_edges
    rep.extra["behaviours_replayed"] = total_beh
    rep.extra["trace_runs"] = dsum["runs"]
    rep.extra["trace_events"] = dsum["events"]
    rep.extra["cover"] = {k: cover[k] for k in sorted(cover)}
    rep.cov["rule"] = ("distinct_nontrivial = distinct states of UdpFlows.tla (code-faithful variant) whose every outgoing transition "
                       "was executed on the real UdpManager after a shortest history (families %s; inputs: client datagram from 3 "
                       "sources of which 2 share an IP, backend datagram / resolution / abort for flow ids 0..2 incl. stale and "
                       "never-allocated ones, SetCluster / SetMaxFlows / SetMaxRx / Drain, Timeout, CloseAll, clock ticks); "
                       "each execution compares the exact output sequence and the state visible through flow(id)/flow_count/"
                       "poll_timeout/max_flows/is_draining/affinity_with_port. traces_validated = transitions + simulated "
                       "behaviours + random driver runs accepted by TLC" % ", ".join("%s<=%d inputs,t<=%d" % g_ for g_ in gen))
    rep.assumptions += [
        "the slab crate reuses vacant slots most-recently-freed first (flow ids are compared exactly)",
        "model universes are small: 3 sources, 2 backends, caps 0..2 (0..3 in simulation), time 0..3; the random driver uses 4 IPs x 3 ports, 3 backends, caps 0..6, millisecond clocks",
        "BackendDatagram(flow) means 'arrived on the upstream socket registered for that flow id': the shell's socket<->flow map is not part of this check",
        "PROXY-protocol prefixes are only checked for presence, well-formedness and destination (C18 owns their content)",
    ]
    rep.finish()


SHELL_CFG = """SPECIFICATION TraceSpec
CONSTANTS
  Deviations = %(dev)s
  Family = "trace"
  MaxInputs = 0
  MaxTime = 0
  Emit = "none"
CONSTRAINT Track
INVARIANTS TypeOK TableOK TimerCoherent NoImmortal UpstreamsDistinct
PROPERTIES %(props)s
POSTCONDITION TraceAccepted
CHECK_DEADLOCK FALSE
"""


# schedule classes the shell leg must have exercised (observed, not assumed), else the run is vacuous
SHELL_NEED = ["batch:held", "batch:new-then-established:ip", "batch:new-then-established:port", "batch:new-then-established:held",
              "batch:both-directions", "batch:replies-to-several-clients", "batch:several-replies-to-one-client", "c2b:delivered"]


def shell_cfg(wd, name, devs):
    props = ["S_C19_Sticky", "S_C19_Isolation", "S_C19_Integrity", "S_C19_Cap", "S_C19_Teardown"]
    for d in devs:
        if d in DEV_BREAKS:
            broken, modulo, _ = DEV_BREAKS[d]
            props = [modulo.replace("P_C19", "S_C19") if p == broken.replace("P_C19", "S_C19") else p for p in props]
    cfg = os.path.join(wd, name)
    with open(cfg, "w") as f:
        f.write(SHELL_CFG % {"dev": tla_set(devs), "props": " ".join(props)})
    return cfg


def shell_run(wd, bins, devs, seed, runs, steps):
    """A real sozu worker with a UDP listener; this process plays 4 clients (3 source IPs) and 2 backends:
    lock-step steps (cluster reconfiguration incl. affinity flips, cap changes, routing removal) and BATCHES
    (several datagrams of several flows and backend replies of several flows queued on the worker's sockets
    while it is held before poll, or as a burst). Who received what through which upstream socket, in which
    order, is validated by TLC against Trace_UdpShell.tla. 'Nothing arrived' is only concluded after 2 s."""
    trace = os.path.join(wd, "shell.ndjson")
    out = vlib.run_harness(bins["shell_udp"], ["--seed", str(seed), "--runs", str(runs), "--steps", str(steps), "--quiet-ms", "2000",
                                               "--flips", "1", "--out", trace], timeout=1500)
    summ = [o for o in out if o.get("kind") == "summary"]
    if not summ:
        raise vlib.ToolError("shell_udp produced no summary")
    summ = summ[0]
    cfg = shell_cfg(wd, "shell.cfg", devs)
    tr = vlib.tlc_trace("Trace_UdpShell", cfg, PID, trace, timeout=600)
    canary_problem = None
    reproduced = None
    if not tr["accepted"] and tr["consumed"] is not None:
        # observations of a real worker on a loaded machine: the run that holds the rejected event is driven again,
        # alone, with 4x the patience; a rejection is only reported when the same schedule is rejected again
        lines = open(trace).read().splitlines()
        bad_run = json.loads(lines[min(tr["consumed"], len(lines) - 1)]).get("run", 1)
        redo = os.path.join(wd, "shell_redo.ndjson")
        vlib.run_harness(bins["shell_udp"], ["--seed", str(seed), "--runs", str(runs), "--steps", str(steps), "--quiet-ms", "8000",
                                             "--flips", "1", "--only", str(bad_run), "--out", redo], timeout=1500)
        rr = vlib.tlc_trace("Trace_UdpShell", cfg, PID, redo, timeout=600)
        reproduced = not rr["accepted"]
        vlib.log("shell leg: run %d rejected at event %s; driven again alone with 4x patience: %s"
                 % (bad_run, tr["consumed"], "rejected again" if reproduced else "ACCEPTED (not reproduced)"))
    if tr["accepted"]:
        lines = open(trace).read().splitlines()
        missing = [c for c in SHELL_NEED if not summ["cover"].get(c)]
        if missing and not summ["panics"]:
            canary_problem = "vacuous shell leg: schedule classes never observed: %s" % missing
        # self-test of the batch semantics: under the switch that models "the upstream socket of a datagram is
        # resolved from per-pass state" the very same recorded run of a correct shell must be rejected, at a batch
        st = vlib.tlc_trace("Trace_UdpShell", shell_cfg(wd, "shell_stale.cfg", devs + ["StaleInFlightUpstream"]), PID, trace, timeout=600)
        if st["accepted"] or st["consumed"] is None or json.loads(lines[st["consumed"]])["ev"] != "batch":
            canary_problem = canary_problem or ("shell self-test: the recorded run is not rejected at a batch under StaleInFlightUpstream "
                                                "(accepted=%s consumed=%s)" % (st["accepted"], st["consumed"]))
        else:
            vlib.log("shell self-test: StaleInFlightUpstream refuted by the recorded run at event %d (a batch)" % st["consumed"])
        # canary: a datagram of an established flow observed at the other backend must be rejected
        cands, seen = [], set()
        for i, l in enumerate(lines):
            ev = json.loads(l)
            if ev["ev"] == "reset":
                seen = set()
            elif ev["ev"] == "batch":
                seen.update(o["up"] for q in ev["at"] for o in q)
            elif ev["ev"] == "c2b" and ev["obs"]["got"] == 1:
                if ev["obs"]["up"] in seen:
                    cands.append(i)
                seen.add(ev["obs"]["up"])
        if cands:
            i = cands[len(cands) // 2]
            ev = json.loads(lines[i])
            ev["obs"]["backend"] = 3 - ev["obs"]["backend"]
            lines[i] = json.dumps(ev, separators=(",", ":"))
            canary = os.path.join(wd, "shell_canary.ndjson")
            with open(canary, "w") as f:
                f.write("\n".join(lines) + "\n")
            cr = vlib.tlc_trace("Trace_UdpShell", cfg, PID, canary, timeout=600)
            if cr["accepted"] or cr["consumed"] != i:
                canary_problem = canary_problem or "shell canary: a datagram moved to the other backend (event %d) was not rejected there (consumed %s)" % (i, cr["consumed"])
    return {"out": out, "summ": summ, "tr": tr, "trace": trace, "canary_problem": canary_problem, "reproduced": reproduced}


def shell_apply(rep, res, cover):
    summ, tr = res["summ"], res["tr"]
    for v in res["out"]:
        if v.get("kind") == "violation":
            rep.violation(v["class"], "the worker thread panicked: %s" % v["detail"].get("panic", "")[:200], v, name="shell_panic.json")
    rep.add_tlc(tr)
    if not tr["accepted"]:
        if res.get("reproduced") is False and not rep.violations:
            raise vlib.ToolError("shell leg: a run was rejected (event %s) but accepted when driven again alone with 4x patience: "
                                 "inconclusive (timing on a loaded machine?), see %s" % (tr["consumed"], res["trace"]))
        record_trace_rejection(rep, tr, res["trace"], "shell")
    else:
        rep.cov["traces_validated_against_impl"] += summ["runs"]
        if res["canary_problem"]:
            raise vlib.ToolError(res["canary_problem"])
    merge_cover(cover, {"shell:" + k: v for k, v in summ["cover"].items()})
    rep.extra["shell_runs"] = summ["runs"]
    rep.extra["shell_events"] = summ["events"]
    rep.cov["evaluations"] += summ["events"]
    vlib.log("shell leg: %d runs, %d events, accepted=%s, cover %s" % (summ["runs"], summ["events"], tr["accepted"], summ["cover"]))


def sim_job(wd, bins, devs, seed, thorough):
    nsim = 400 if thorough else 25
    simlen = (24, 8) if thorough else (16, 6)
    path = os.path.join(wd, "behaviours.ndjson")
    with open(path, "w") as f:
        g = vlib.tlc("UdpFlows", write_cfg(wd, "sim.cfg", "all", simlen[0], simlen[1], devs, emit="hist"), PID, workers=3,
                     timeout=900, simulate="num=%d" % nsim, depth=simlen[0] + simlen[1] + 2, want_replay=True,
                     replay_sink=lambda o: f.write(json.dumps(o, separators=(",", ":")) + "\n"))
    if g["violated"] or g["n_replays"] == 0:
        return g, None
    return g, replay_run(bins, path, seed * 3 + 1)


def trace_job(wd, bins, devs, seed, thorough):
    runs = 1500 if thorough else 250
    steps = 120 if thorough else 60
    trace = os.path.join(wd, "trace.ndjson")
    out = vlib.run_harness(bins["drive_udp"], ["--seed", str(seed), "--runs", str(runs), "--steps", str(steps), "--out", trace],
                           timeout=900)
    dsum = [o for o in out if o.get("kind") == "summary"]
    if not dsum:
        raise vlib.ToolError("drive_udp produced no summary")
    tcfg = write_trace_cfg(wd, devs)
    tr = vlib.tlc_trace("Trace_UdpFlows", tcfg, PID, trace, timeout=1500 if thorough else 600)
    # canary: the binding must reject a corrupted trace exactly at the corrupted event (self-test of the
    # trace specification; only meaningful on a trace that is accepted as recorded)
    canary_problem = None
    if tr["accepted"]:
        canary = os.path.join(wd, "canary.ndjson")
        where = corrupt_trace(trace, canary, seed)
        ccfg = os.path.join(wd, "canary.cfg")
        with open(ccfg, "w") as f:
            f.write(open(tcfg).read())
        cr = vlib.tlc_trace("Trace_UdpFlows", ccfg, PID, canary, timeout=600)
        if cr["accepted"] or cr["consumed"] != where:
            canary_problem = ("canary: corrupted trace (event %d) was not rejected there (accepted=%s consumed=%s)"
                              % (where, cr["accepted"], cr["consumed"]))
        else:
            vlib.log("canary: corrupted event %d rejected (consumed %s)" % (where, cr["consumed"]))
    return {"out": out, "dsum": dsum[0], "tr": tr, "trace": trace, "canary_problem": canary_problem}


def replay_run(bins, path, seed):
    return vlib.run_harness(bins["replay_udp"], ["--seed", str(seed), "--threads", "8"], stdin_path=path, timeout=1800)


def replay_apply(rep, out, tag):
    summ = [o for o in out if o.get("kind") == "summary"]
    if not summ:
        raise vlib.ToolError("replay_udp produced no summary")
    summ = summ[0]
    for v in out:
        if v.get("kind") == "violation":
            rep.violation(v["class"], json.dumps(v["detail"]["step"])[:200] + " expected/got differ: " + v["class"], v,
                          name="%s_%s_%d.json" % (tag, v["class"].replace(":", "_").replace("/", "_"), len(rep.violations)))
    # only a few examples per class are detailed; every mismatch is counted
    if summ["classes"]:
        vlib.log("%s: mismatching transitions/behaviours per class: %s" % (tag, summ["classes"]))
    return summ


def write_trace_cfg(wd, devs):
    props = [p for p in PROPS]
    for d in devs:
        broken, modulo, _ = DEV_BREAKS[d]
        props = [modulo if p == broken else p for p in props]
    props = [p.replace("P_C19", "T_C19") for p in props]
    path = os.path.join(wd, "trace.cfg")
    with open(path, "w") as f:
        f.write(TRACE_CFG % {"dev": tla_set(devs), "props": " ".join(props)})
    return path


def record_trace_rejection(rep, tr, trace, tag):
    consumed = tr["consumed"] or 0
    lines = open(trace).read().splitlines()
    # cut the replay file to the run that contains the rejected event
    start = consumed
    while start > 0 and '"ev":"reset"' not in lines[start]:
        start -= 1
    bad = lines[consumed] if consumed < len(lines) else "(end of trace)"
    klass = ("shell:" if tag == "shell" else "trace:") + (tr["violated"] or "unexplained-event")
    outl = tr["out"].splitlines()
    mism = [" ".join(x.strip() for x in outl[j:j + (3 if "inside the batch" in l else 1)]) for j, l in enumerate(outl) if "MISMATCH" in l]
    rep.violation(klass, "event %d of the recorded run is not a step of the spec: %s %s" % (consumed - start, bad[:160], " ".join(mism)[:300]),
                  "\n".join(lines[start:consumed + 1]) + "\n", name="%s_rejected.ndjson" % tag)


def corrupt_trace(src, dst, seed):
    """Copy the first runs of the trace, flipping one output field of one event. Returns the
    0-based index of the corrupted event."""
    rnd = random.Random(seed)
    lines = open(src).read().splitlines()[:600]
    cands = [i for i, l in enumerate(lines) if '"k":"SendTo' in l]
    if not cands:
        raise vlib.ToolError("canary: no SendTo* event in the first 600 trace lines")
    i = rnd.choice(cands)
    ev = json.loads(lines[i])
    for o in ev["out"]:
        if o["k"] == "SendToBackend":
            o["dst"] = o["dst"] % 3 + 1
            break
        if o["k"] == "SendToClient":
            o["client"]["port"] += 1
            break
    lines[i] = json.dumps(ev, separators=(",", ":"))
    with open(dst, "w") as f:
        f.write("\n".join(lines) + "\n")
    return i


def run_replay(rep, wd, bins, devs, replay):
    """./check C19 --replay <file>: re-evaluate a file written by this check against the current tree.
    *.ndjson = a recorded run (trace prefix; of the pure manager or of the real worker): validated again by TLC as it
               stands (what was observed on the wire is part of the file: the decision is re-derived, the run is not re-driven).
    *.json   = a replayer violation: its history is executed again on the real UdpManager and the last
               step is compared with the stored prediction of the spec."""
    if replay.endswith(".ndjson"):
        # a run of the real worker (shell leg: its reset line names the clients) or of the pure manager
        shell = '"clients"' in open(replay).readline()
        if shell:
            tr = vlib.tlc_trace("Trace_UdpShell", shell_cfg(wd, "shell.cfg", devs), PID, replay, timeout=600)
        else:
            tr = vlib.tlc_trace("Trace_UdpFlows", write_trace_cfg(wd, devs), PID, replay, timeout=600)
        print(tr["out"][-3000:])
        if not tr["accepted"]:
            record_trace_rejection(rep, tr, replay, "shell" if shell else "replayed")
        else:
            rep.cov["traces_validated_against_impl"] += 1
    else:
        v = json.load(open(replay))
        d = v["detail"]
        if "panic" in d and "step" not in d:      # a panic found by the random driver: history of (inp, now)
            init = [0, 0, d["maxRx"], 0, [], d["cluster"], [], [-1, d["maxFlows"], 0, d["cluster"][1], []]]
            steps = [{"inp": h["inp"], "now": h["now"]} for h in d["history"]]
            seed = None
        else:
            init = d["init"]
            steps = [{"inp": h["inp"], "now": h.get("now")} for h in d["history"]]
            last = {"inp": d["step"]["inp"], "now": d["step"]["now"], "out": d["expected"]["out"],
                    "post": [0, d["step"]["now"], 0, 0, [], [], [], d["expected"]["obs"]]}
            steps.append(last)
            seed = d["concretisation"].get("seed")
        for st in steps:
            if st.get("now") is None:
                st.pop("now", None)
        path = os.path.join(wd, "single.ndjson")
        with open(path, "w") as f:
            f.write(json.dumps({"init": init, "steps": steps}) + "\n")
        if seed is None:
            # driver concretisation (ms clock, byte lengths): replay_udp variant 2 is the closest; only panics matter here
            seed = 2
        out = vlib.run_harness(bins["replay_udp"], ["--seed", str(seed), "--threads", "1"], stdin_path=path, timeout=300)
        for o in out:
            if o.get("kind") == "violation":
                print(json.dumps(o["detail"], indent=1)[:6000])
                rep.violation(o["class"], json.dumps(o["detail"]["step"])[:200], o)
        summ = [o for o in out if o.get("kind") == "summary"][0]
        rep.cov["traces_validated_against_impl"] += summ["behaviours_ok"]
        rep.cov["evaluations"] = summ["behaviour_steps"]
    rep.cov["rule"] = "re-evaluation of one stored violation file"
    rep.finish()
