//! S->I replayer and I->S driver for spec/TimerWheel.tla (property C16, timer part).
//!
//! The objects under test are the REAL `sozu_lib::timer::Timer<Token>` (built with `Builder`: few slots,
//! a short tick) installed as the thread-local `sozu_lib::server::TIMER`, and real `TimeoutContainer`s on it.
//! Only public APIs are used; a `Timeout` handle's slab key / tick and a container's fields are read from
//! their `Debug` output (a projection, not an oracle).
//!
//! Time.  `Timer` reads `Instant::now()` and rounds to ticks ((ms + tick/2) / tick).  The harness keeps
//! the clock in the MIDDLE of a tick window whenever it calls into the timer: it brackets the wheel's
//! private start instant between two clock reads around `build()`, sleeps to `start + n * tick`, and after
//! every call re-reads the clock; a call that may have straddled a window edge makes the whole behaviour
//! inconclusive: it is retried with a tick twice as long (30 -> 60 -> 120 ms) and, if it still fails,
//! discarded and counted.  Such behaviours never become verdicts.  One behaviour in two is run a quarter of
//! a tick before / after the middle of the window (with a tick twice as long), so that the code's rounding
//! of the clock to ticks is exercised too.
//!
//! replay mode (default): stdin = ndjson, one behaviour of spec/Gen_TimerWheel.tla per line (array of
//!   {"step":{op,args,predicted results}, "now", "npd", "conts"}).  Every step is executed; the call's result,
//!   next_poll_date (as a tick) and every container's fields are compared with the spec's prediction.
//! drive mode (`--drive`): seeded random protocol-following op sequences; every call with its arguments and
//!   what the real object answered is recorded as one ndjson event (`--out`), validated by TLC against
//!   spec/Trace_TimerWheel.tla.
//!
//! stdout: {"kind":"violation",...}* {"kind":"summary",...}

use std::collections::{BTreeMap, BTreeSet, VecDeque};
use std::io::{BufRead, BufReader, Write};
use std::panic::{AssertUnwindSafe, catch_unwind};
use std::sync::{Arc, Mutex, mpsc};
use std::time::{Duration, Instant};

use mio::Token;
use regex::Regex;
use serde_json::{Value, json};
use sozu_lib::server::TIMER;
use sozu_lib::timer::{Builder, Timeout, TimeoutContainer};
use vh::c12kit::Rng;

const INF: i64 = 1_000_000;

fn arg(name: &str, default: &str) -> String {
    let a: Vec<String> = std::env::args().collect();
    a.iter().position(|x| x == name).and_then(|i| a.get(i + 1).cloned()).unwrap_or_else(|| default.to_string())
}
fn flag(name: &str) -> bool {
    std::env::args().any(|x| x == name)
}

enum Fail {
    /// the clock left the tick window (or the wheel could not be bracketed): inconclusive
    Timing(String),
    /// the harness cannot execute the step (generator / harness bug)
    Harness(String),
    Viol { class: String, what: String },
}

struct Rig {
    t0: Instant,
    eps_ms: f64,
    tick_ms: u64,
    hs: Vec<Timeout>,
    conts: BTreeMap<String, TimeoutContainer>,
    re_h: Regex,
    re_c: Regex,
    now: i64,
    /// where inside the tick window the calls are made: -1 / 0 / +1 quarter of a tick from the middle
    phase: i64,
}

impl Rig {
    /// a fresh wheel as this thread's TIMER; its private `start` lies in [t0, t0 + eps]
    fn install(tick_ms: u64, slots: usize, phase: i64) -> Result<Rig, Fail> {
        for _ in 0..50 {
            let t0 = Instant::now();
            let timer = Builder::default().tick_duration(Duration::from_millis(tick_ms)).num_slots(slots).capacity(16).build::<Token>();
            let t1 = Instant::now();
            if t1 - t0 <= Duration::from_micros(1500) {
                TIMER.with(|t| *t.borrow_mut() = timer);
                return Ok(Rig {
                    t0,
                    eps_ms: (t1 - t0).as_secs_f64() * 1000.0,
                    tick_ms,
                    hs: Vec::new(),
                    conts: BTreeMap::new(),
                    re_h: Regex::new(r"Timeout \{ token: Token\((\d+)\), tick: (\d+) \}").unwrap(),
                    re_c: Regex::new(r"token: (None|Some\(Token\((\d+)\)\)) \}$").unwrap(),
                    now: 0,
                    phase,
                });
            }
        }
        Err(Fail::Timing("could not bracket the wheel's start instant within 1.5 ms".into()))
    }

    fn dur(&self, ticks: i64) -> Duration {
        Duration::from_millis(self.tick_ms * ticks as u64)
    }

    fn elapsed_ms(&self) -> f64 {
        self.t0.elapsed().as_secs_f64() * 1000.0
    }

    /// is the clock safely inside the window in which the code computes tick `self.now`?
    fn in_window(&self) -> Result<(), Fail> {
        let t = self.tick_ms as f64;
        let guard = 2.0 + t / 10.0;
        let e = self.elapsed_ms();
        let lo = self.now as f64 * t - t / 2.0 + guard + self.eps_ms;
        let hi = self.now as f64 * t + t / 2.0 - guard;
        if (self.now == 0 || e >= lo) && e <= hi {
            Ok(())
        } else {
            Err(Fail::Timing(format!("clock at {:.1} ms, window of tick {} is [{:.1}, {:.1}]", e, self.now, lo, hi)))
        }
    }

    /// let time pass until the middle of the window of tick `n`
    fn goto(&mut self, n: i64) -> Result<(), Fail> {
        self.now = n;
        let ms = (self.tick_ms as i64 * n + self.phase * self.tick_ms as i64 / 4).max(0);
        let target = self.t0 + Duration::from_millis(ms as u64);
        let nowi = Instant::now();
        if target > nowi {
            std::thread::sleep(target - nowi);
        }
        self.in_window()
    }

    fn h_of(&self, t: &Timeout) -> Value {
        let s = format!("{:?}", t);
        match self.re_h.captures(&s) {
            Some(c) => json!({"key": c[1].parse::<i64>().unwrap(), "tick": c[2].parse::<i64>().unwrap()}),
            None => json!({"key": -2, "tick": -2, "unparsed": s}),
        }
    }

    /// next_poll_date as a tick (INF: None or further than any wheel can reach)
    fn npd(&self) -> Value {
        let d = TIMER.with(|t| t.borrow().next_poll_date());
        match d {
            None => json!(INF),
            Some(i) => {
                let ms = i.saturating_duration_since(self.t0).as_secs_f64() * 1000.0;
                if ms > 1.0e12 { json!(INF) } else { json!((ms / self.tick_ms as f64).round() as i64) }
            }
        }
    }

    fn cont_proj(&self, name: &str) -> Value {
        match self.conts.get(name) {
            None => json!({"alive": false, "h": {"key": -1, "tick": 0}, "dur": 0, "tok": -1}),
            Some(c) => {
                let s = format!("{:?}", c);
                let h = match self.re_h.captures(&s) {
                    Some(m) => json!({"key": m[1].parse::<i64>().unwrap(), "tick": m[2].parse::<i64>().unwrap()}),
                    None => if s.contains("timeout: None") { json!({"key": -1, "tick": 0}) } else { json!({"key": -2, "tick": -2, "unparsed": s.clone()}) },
                };
                let tok = match self.re_c.captures(&s) {
                    Some(m) => m.get(2).map(|x| x.as_str().parse::<i64>().unwrap()).unwrap_or(-1),
                    None => -2,
                };
                let ms = c.duration().as_millis() as u64;
                let dur = if ms % self.tick_ms == 0 { (ms / self.tick_ms) as i64 } else { -2 };
                json!({"alive": true, "h": h, "dur": dur, "tok": tok})
            }
        }
    }

    fn conts_proj(&self, names: &[String]) -> Value {
        let mut m = serde_json::Map::new();
        for n in names {
            m.insert(n.clone(), self.cont_proj(n));
        }
        Value::Object(m)
    }

    /// execute one step (not Adv); returns what the real object answered, in the spec label's vocabulary
    fn exec(&mut self, step: &Value) -> Result<Value, Fail> {
        let op = step["op"].as_str().unwrap_or("");
        let d = step["d"].as_i64().unwrap_or(0);
        let tok = step["tok"].as_i64().unwrap_or(0);
        let c = step["c"].as_str().unwrap_or("").to_string();
        let handle = |rig: &Rig| -> Result<Timeout, Fail> {
            let i = step["hi"].as_i64().unwrap_or(0);
            rig.hs.get((i - 1) as usize).cloned().ok_or_else(|| Fail::Harness(format!("no handle {i}")))
        };
        let need = |rig: &Rig| -> Result<(), Fail> {
            if rig.conts.contains_key(&c) { Ok(()) } else { Err(Fail::Harness(format!("container {c} is not alive"))) }
        };
        Ok(match op {
            "Set" => {
                let h = TIMER.with(|t| t.borrow_mut().set_timeout(self.dur(d), Token(tok as usize)));
                let v = self.h_of(&h);
                self.hs.push(h);
                json!({"h": v})
            }
            "Cancel" => {
                let h = handle(self)?;
                let r = TIMER.with(|t| t.borrow_mut().cancel_timeout(&h));
                json!({"ret": r.map(|t| t.0 as i64).unwrap_or(-1)})
            }
            "Reset" => {
                let h = handle(self)?;
                let r = TIMER.with(|t| t.borrow_mut().reset_timeout(&h, self.dur(d)));
                match r {
                    Some(n) => {
                        let v = self.h_of(&n);
                        self.hs.push(n);
                        json!({"ok": true, "h": v})
                    }
                    None => json!({"ok": false, "h": {"key": -1, "tick": 0}}),
                }
            }
            "Poll" => {
                let r = TIMER.with(|t| t.borrow_mut().poll());
                json!({"ret": r.map(|t| t.0 as i64).unwrap_or(-1)})
            }
            "C_New" => {
                if self.conts.contains_key(&c) { return Err(Fail::Harness(format!("container {c} is alive"))); }
                let k = TimeoutContainer::new(self.dur(d), Token(tok as usize));
                self.conts.insert(c, k);
                json!({})
            }
            "C_NewEmpty" => {
                if self.conts.contains_key(&c) { return Err(Fail::Harness(format!("container {c} is alive"))); }
                self.conts.insert(c, TimeoutContainer::new_empty(self.dur(d)));
                json!({})
            }
            "C_Set" => { need(self)?; self.conts.get_mut(&c).unwrap().set(Token(tok as usize)); json!({}) }
            "C_SetDuration" => { need(self)?; let du = self.dur(d); self.conts.get_mut(&c).unwrap().set_duration(du); json!({}) }
            "C_Cancel" => { need(self)?; json!({"ret": self.conts.get_mut(&c).unwrap().cancel()}) }
            "C_Reset" => { need(self)?; json!({"ret": self.conts.get_mut(&c).unwrap().reset()}) }
            "C_Triggered" => { need(self)?; self.conts.get_mut(&c).unwrap().triggered(); json!({}) }
            "C_Take" => {
                need(self)?;
                let c2 = step["c2"].as_str().unwrap_or("").to_string();
                if self.conts.contains_key(&c2) { return Err(Fail::Harness(format!("container {c2} is alive"))); }
                let n = self.conts.get_mut(&c).unwrap().take();
                self.conts.insert(c2, n);
                json!({})
            }
            "C_Drop" => { need(self)?; drop(self.conts.remove(&c)); json!({}) }
            other => return Err(Fail::Harness(format!("unknown operation {other}"))),
        })
    }

    /// containers are dropped while this behaviour's wheel is still installed
    fn teardown(&mut self) {
        self.conts.clear();
        self.hs.clear();
    }
}

const RESULT_FIELDS: [&str; 3] = ["ret", "ok", "h"];

fn replay_one(beh: &[Value], tick_ms: u64, slots: usize, phase: i64, stats: &mut Stats) -> Result<(), Fail> {
    let mut rig = Rig::install(tick_ms, slots, phase)?;
    let r = (|| {
        for (i, snap) in beh.iter().enumerate() {
            let step = &snap["step"];
            let op = step["op"].as_str().unwrap_or("?");
            let names: Vec<String> = snap["conts"].as_object().map(|m| m.keys().cloned().collect()).unwrap_or_default();
            if op == "Adv" {
                rig.goto(snap["now"].as_i64().unwrap_or(0))?;
            } else {
                rig.in_window()?;
                let obs = rig.exec(step)?;
                rig.in_window()?;
                for f in RESULT_FIELDS {
                    if let (Some(exp), Some(got)) = (step.get(f), obs.get(f)) {
                        stats.comparisons += 1;
                        if exp != got {
                            return Err(Fail::Viol { class: format!("replay:{op}:{f}"), what: format!(
                                "step {i} {step} at clock tick {}: the call answered {f} = {got}, the spec says {exp}", rig.now) });
                        }
                    }
                }
            }
            let npd = rig.npd();
            let conts = rig.conts_proj(&names);
            rig.in_window()?;
            stats.comparisons += 1 + names.len() as u64;
            if npd != snap["npd"] {
                return Err(Fail::Viol { class: format!("replay:{op}:npd"), what: format!(
                    "after step {i} {step} at clock tick {}: next_poll_date is tick {npd}, the spec says {}", rig.now, snap["npd"]) });
            }
            for n in &names {
                if conts[n] != snap["conts"][n] {
                    return Err(Fail::Viol { class: format!("replay:{op}:container"), what: format!(
                        "after step {i} {step} at clock tick {}: container {n} is {}, the spec says {}", rig.now, conts[n], snap["conts"][n]) });
                }
            }
            stats.steps += 1;
            *stats.by_op.entry(op.to_string()).or_default() += 1;
        }
        Ok(())
    })();
    rig.teardown();
    r
}

#[derive(Default)]
struct Stats {
    steps: u64,
    comparisons: u64,
    by_op: BTreeMap<String, u64>,
}

fn quiet() {
    vh::util::quiet_panics();
    vh::c12kit::quiet_logs();
}

fn replay_main() {
    let slots: usize = arg("--slots", "4").parse().unwrap();
    let tick0: u64 = arg("--tick-ms", "30").parse().unwrap();
    let threads: usize = arg("--threads", "32").parse().unwrap();
    let mut behs: Vec<Vec<Value>> = Vec::new();
    for line in BufReader::new(std::io::stdin()).lines() {
        let line = line.expect("stdin");
        if line.starts_with('[') {
            behs.push(serde_json::from_str(&line).expect("behaviour line"));
        }
    }
    let behs = Arc::new(behs);
    // (behaviour index, attempt)
    let queue: Arc<Mutex<VecDeque<(usize, u32)>>> = Arc::new(Mutex::new((0..behs.len()).map(|i| (i, 0)).collect()));
    let (tx, rx) = mpsc::channel::<(usize, u32, Result<(), Fail>, Stats)>();
    let pending = Arc::new(Mutex::new(behs.len()));
    let mut workers = Vec::new();
    for _ in 0..threads.min(behs.len().max(1)) {
        let (queue, behs, tx, pending) = (queue.clone(), behs.clone(), tx.clone(), pending.clone());
        workers.push(std::thread::spawn(move || {
            loop {
                let job = queue.lock().unwrap().pop_front();
                let Some((i, attempt)) = job else {
                    if *pending.lock().unwrap() == 0 { break; }
                    std::thread::sleep(Duration::from_millis(5));
                    continue;
                };
                let mut st = Stats::default();
                // behaviours 1, 3 (mod 4): a quarter tick early / late, tick twice as long
                let phase = match i % 4 { 1 => -1, 3 => 1, _ => 0 };
                let tick = (tick0 << attempt) * if phase != 0 { 2 } else { 1 };
                let r = catch_unwind(AssertUnwindSafe(|| replay_one(&behs[i], tick, slots, phase, &mut st)));
                let r = match r {
                    Ok(r) => r,
                    Err(p) => {
                        // a fresh wheel for whatever comes next on this thread
                        let _ = catch_unwind(|| TIMER.with(|t| *t.borrow_mut() = Builder::default().build()));
                        Err(Fail::Viol { class: "panic".into(), what: format!("sozu panicked: {}", vh::util::panic_message(p)) })
                    }
                };
                if matches!(r, Err(Fail::Timing(_))) && attempt < 2 {
                    queue.lock().unwrap().push_back((i, attempt + 1));
                    let _ = tx.send((i, attempt, Err(Fail::Timing("retry".into())), Stats::default()));
                    continue;
                }
                *pending.lock().unwrap() -= 1;
                let _ = tx.send((i, attempt, r, st));
            }
        }));
    }
    drop(tx);
    let mut total = Stats::default();
    let (mut ok, mut retried, mut discarded, mut violations) = (0u64, 0u64, 0u64, 0u64);
    let mut distinct = BTreeSet::new();
    let mut samples = Vec::new();
    let mut timing_notes = Vec::new();
    for (i, attempt, r, st) in rx {
        match r {
            Ok(()) => {
                ok += 1;
                total.steps += st.steps;
                total.comparisons += st.comparisons;
                for (k, v) in st.by_op { *total.by_op.entry(k).or_default() += v; }
                let sig: Vec<String> = behs[i].iter().map(|s| format!("{}{}", s["step"]["op"].as_str().unwrap_or("?"), s["now"])).collect();
                distinct.insert(sig.join(" "));
                if samples.len() < 2 {
                    samples.push(format!("behaviour {} (tick {} ms): {}", i + 1, tick0 << attempt,
                        behs[i].iter().take(8).map(|s| s["step"].to_string()).collect::<Vec<_>>().join(" ")));
                }
            }
            Err(Fail::Timing(w)) => {
                if w == "retry" { retried += 1; } else { discarded += 1; if timing_notes.len() < 3 { timing_notes.push(w); } }
            }
            Err(Fail::Harness(w)) => {
                violations += 1;
                vh::util::emit(&json!({"kind":"violation","class":"harness","detail":{"what":w,"behaviour":i + 1},"input":behs[i]}));
            }
            Err(Fail::Viol { class, what }) => {
                violations += 1;
                if violations <= 30 {
                    vh::util::emit(&json!({"kind":"violation","class":class,"detail":{"what":what,"behaviour":i + 1,"tick_ms":tick0 << attempt},"input":behs[i]}));
                }
            }
        }
    }
    for w in workers { let _ = w.join(); }
    vh::util::emit(&json!({"kind":"summary","behaviours":behs.len(),"replayed":ok,"steps":total.steps,"comparisons":total.comparisons,
        "retried_timing":retried,"discarded_timing":discarded,"timing_notes":timing_notes,"violations":violations,
        "distinct":distinct.len(),"by_op":total.by_op,"samples":samples}));
}

// ---------------------------------------------------------------------------------------------
// drive mode

struct Driver {
    rig: Rig,
    rng: Rng,
    names: Vec<String>,
    live: Vec<bool>,             // raw handles: not yet cancelled / reset / fired
    raw_tok: BTreeMap<i64, usize>, // token of a live raw arming -> handle index
    cont_tok: BTreeMap<String, i64>, // token a container remembers (-1 none)
    cont_armed: BTreeMap<String, bool>, // the container holds a handle
    next_tok: i64,
    events: Vec<Value>,
    max_delay: i64,
}

impl Driver {
    fn tok(&mut self) -> i64 { self.next_tok += 1; self.next_tok }
    fn delay(&mut self) -> i64 {
        // short, one lap, two laps
        let m = self.max_delay;
        *self.rng.pick(&[0, 1, 1, 2, 2, 3, 4, 5, m / 2, m / 2 + 1, m - 1, m])
    }
    fn record(&mut self, mut ev: Value, obs: &Value) {
        for f in RESULT_FIELDS {
            if let Some(v) = obs.get(f) { ev[f] = v.clone(); }
        }
        ev["now"] = json!(self.rig.now);
        ev["npd"] = self.rig.npd();
        ev["conts"] = self.rig.conts_proj(&self.names);
        self.events.push(ev);
    }
    fn call(&mut self, step: Value) -> Result<Value, Fail> {
        self.rig.in_window()?;
        let obs = self.rig.exec(&step)?;
        self.rig.in_window()?;
        let mut ev = step.clone();
        ev["ev"] = ev["op"].take();
        ev.as_object_mut().unwrap().remove("op");
        self.record(ev, &obs);
        self.rig.in_window()?;
        Ok(obs)
    }
    fn step(&mut self) -> Result<(), Fail> {
        let live_raw: Vec<usize> = (0..self.live.len()).filter(|i| self.live[*i]).collect();
        let alive: Vec<String> = self.names.iter().filter(|n| self.rig.conts.contains_key(*n)).cloned().collect();
        let dead: Vec<String> = self.names.iter().filter(|n| !self.rig.conts.contains_key(*n)).cloned().collect();
        let r = self.rng.below(100);
        match r {
            0..=15 => {
                let k = 1 + self.rng.below(3) as i64;
                let n = self.rig.now + k;
                self.rig.goto(n)?;
                self.events.push(json!({"ev":"Adv","k":k,"now":n,"npd":self.rig.npd(),"conts":self.rig.conts_proj(&self.names)}));
                self.rig.in_window()?;
            }
            16..=42 => {
                // the event loop: poll until None; a fired container is told so before anything else happens to it
                loop {
                    let obs = self.call(json!({"op":"Poll"}))?;
                    let t = obs["ret"].as_i64().unwrap_or(-1);
                    if t < 0 { break; }
                    if let Some(i) = self.raw_tok.remove(&t) { self.live[i] = false; }
                    let owner = self.cont_tok.iter().find(|(n, v)| **v == t && self.cont_armed.get(*n) == Some(&true)).map(|(n, _)| n.clone());
                    if let Some(n) = owner {
                        self.call(json!({"op":"C_Triggered","c":n}))?;
                        self.cont_armed.insert(n, false);
                    }
                    if self.rng.chance(1, 4) { break; }   // session code runs between two polls of a drain
                }
            }
            43..=54 => {
                let (d, t) = (self.delay(), self.tok());
                self.call(json!({"op":"Set","d":d,"tok":t}))?;
                self.live.push(true);
                self.raw_tok.insert(t, self.live.len() - 1);
            }
            55..=62 if !live_raw.is_empty() => {
                let i = *self.rng.pick(&live_raw);
                let obs = self.call(json!({"op":"Cancel","hi":i + 1}))?;
                self.live[i] = false;
                self.raw_tok.remove(&obs["ret"].as_i64().unwrap_or(-1));
            }
            63..=70 if !live_raw.is_empty() => {
                let i = *self.rng.pick(&live_raw);
                let d = self.delay();
                let obs = self.call(json!({"op":"Reset","hi":i + 1,"d":d}))?;
                self.live[i] = false;
                if obs["ok"].as_bool() == Some(true) {
                    self.live.push(true);
                    let t = self.raw_tok.iter().find(|(_, v)| **v == i).map(|(k, _)| *k);
                    if let Some(t) = t { self.raw_tok.insert(t, self.live.len() - 1); }
                }
            }
            71..=76 if !dead.is_empty() => {
                let n = self.rng.pick(&dead).clone();
                if self.rng.chance(1, 4) {
                    let d = self.delay();
                    self.call(json!({"op":"C_NewEmpty","c":n,"d":d}))?;
                    self.cont_tok.insert(n.clone(), -1);
                    self.cont_armed.insert(n, false);
                } else {
                    let (d, t) = (self.delay(), self.tok());
                    self.call(json!({"op":"C_New","c":n,"d":d,"tok":t}))?;
                    self.cont_tok.insert(n.clone(), t);
                    self.cont_armed.insert(n, true);
                }
            }
            77..=98 if !alive.is_empty() => {
                let n = self.rng.pick(&alive).clone();
                match self.rng.below(11) {
                    0 | 1 => {
                        let t = self.tok();
                        self.call(json!({"op":"C_Set","c":n,"tok":t}))?;
                        self.cont_tok.insert(n.clone(), t);
                        self.cont_armed.insert(n, true);
                    }
                    2 | 3 => {
                        let d = self.delay();
                        self.call(json!({"op":"C_SetDuration","c":n,"d":d}))?;
                        let has = self.cont_tok[&n] >= 0;
                        self.cont_armed.insert(n, has);
                    }
                    4 | 5 => {
                        self.call(json!({"op":"C_Cancel","c":n}))?;
                        self.cont_armed.insert(n, false);
                    }
                    6 | 7 | 8 => {
                        let obs = self.call(json!({"op":"C_Reset","c":n}))?;
                        self.cont_armed.insert(n, obs["ret"].as_bool() == Some(true));
                    }
                    9 if !dead.is_empty() => {
                        let n2 = self.rng.pick(&dead).clone();
                        self.call(json!({"op":"C_Take","c":n,"c2":n2}))?;
                        let (t, a) = (self.cont_tok[&n], self.cont_armed[&n]);
                        self.cont_tok.insert(n2.clone(), t);
                        self.cont_armed.insert(n2, a);
                        self.cont_tok.insert(n.clone(), -1);
                        self.cont_armed.insert(n, false);
                    }
                    _ => {
                        self.call(json!({"op":"C_Drop","c":n}))?;
                        self.cont_tok.remove(&n);
                        self.cont_armed.remove(&n);
                    }
                }
            }
            _ => {}
        }
        Ok(())
    }
}

fn drive_run(seed: u64, steps: usize, tick_ms: u64, slots: usize) -> (Vec<Value>, Option<Fail>) {
    let phase = [0, -1, 0, 1][(seed % 4) as usize];
    let tick_ms = if phase != 0 { tick_ms * 2 } else { tick_ms };
    let rig = match Rig::install(tick_ms, slots, phase) {
        Ok(r) => r,
        Err(e) => return (Vec::new(), Some(e)),
    };
    let mut d = Driver {
        rig, rng: Rng(seed), names: (1..=4).map(|i| format!("c{i}")).collect(), live: Vec::new(), raw_tok: BTreeMap::new(),
        cont_tok: BTreeMap::new(), cont_armed: BTreeMap::new(), next_tok: 0, events: Vec::new(), max_delay: 2 * slots as i64 + 1,
    };
    let mut fail = None;
    for _ in 0..steps {
        let before = d.events.len();
        if let Err(e) = d.step() {
            // what the interrupted step recorded is not trustworthy: keep the prefix
            d.events.truncate(before);
            fail = Some(e);
            break;
        }
    }
    d.rig.teardown();
    (d.events, fail)
}

fn drive_main() {
    let seed: u64 = arg("--seed", "1").parse().unwrap();
    let runs: usize = arg("--runs", "40").parse().unwrap();
    let steps: usize = arg("--steps", "60").parse().unwrap();
    let slots: usize = arg("--slots", "4").parse().unwrap();
    let tick_ms: u64 = arg("--tick-ms", "30").parse().unwrap();
    let threads: usize = arg("--threads", "32").parse().unwrap();
    let out = arg("--out", "/dev/null");
    let next = Arc::new(Mutex::new(0usize));
    let results: Arc<Mutex<BTreeMap<usize, (Vec<Value>, Option<String>, bool)>>> = Arc::new(Mutex::new(BTreeMap::new()));
    let mut workers = Vec::new();
    for _ in 0..threads.min(runs.max(1)) {
        let (next, results) = (next.clone(), results.clone());
        workers.push(std::thread::spawn(move || {
            loop {
                let r = { let mut n = next.lock().unwrap(); let r = *n; *n += 1; r };
                if r >= runs { break; }
                let s = seed.wrapping_mul(0x9E37_79B9).wrapping_add(r as u64 * 7919 + 13);
                // a run the clock cut short early is done again with a longer tick (same seed, same choices)
                let res = catch_unwind(AssertUnwindSafe(|| {
                    let mut best = drive_run(s, steps, tick_ms, slots);
                    for k in 1..=2u32 {
                        if !matches!(best.1, Some(Fail::Timing(_))) { break; }
                        let again = drive_run(s, steps, tick_ms << k, slots);
                        if again.0.len() > best.0.len() || again.1.is_none() || !matches!(again.1, Some(Fail::Timing(_))) { best = again; }
                    }
                    best
                }));
                let entry = match res {
                    Ok((ev, None)) => (ev, None, false),
                    Ok((ev, Some(Fail::Timing(w)))) => (ev, Some(w), false),
                    Ok((ev, Some(Fail::Harness(w)))) | Ok((ev, Some(Fail::Viol { what: w, .. }))) => (ev, Some(format!("harness: {w}")), true),
                    Err(p) => {
                        let _ = catch_unwind(|| TIMER.with(|t| *t.borrow_mut() = Builder::default().build()));
                        (Vec::new(), Some(format!("sozu panicked: {}", vh::util::panic_message(p))), true)
                    }
                };
                results.lock().unwrap().insert(r, entry);
            }
        }));
    }
    for w in workers { let _ = w.join(); }
    let results = results.lock().unwrap();
    let mut f = std::io::BufWriter::new(std::fs::File::create(&out).expect("--out"));
    let (mut events, mut cut, mut traces) = (0u64, 0u64, 0u64);
    let mut by = BTreeMap::<String, u64>::new();
    let mut notes = Vec::new();
    let mut fired = 0u64;
    for (r, (ev, note, hard)) in results.iter() {
        if *hard {
            vh::util::emit(&json!({"kind":"violation","class":"drive:panic","detail":{"what":note,"run":r}}));
            continue;
        }
        if let Some(n) = note { cut += 1; if notes.len() < 3 { notes.push(n.clone()); } }
        if ev.is_empty() { continue; }
        traces += 1;
        writeln!(f, "{}", json!({"ev":"reset","run":r,"slots":slots})).unwrap();
        events += 1;
        for e in ev {
            writeln!(f, "{}", e).unwrap();
            events += 1;
            *by.entry(e["ev"].as_str().unwrap_or("?").to_string()).or_default() += 1;
            if e["ev"] == "Poll" && e["ret"].as_i64().unwrap_or(-1) >= 0 { fired += 1; }
        }
    }
    f.flush().unwrap();
    vh::util::emit(&json!({"kind":"summary","runs":runs,"traces":traces,"events":events,"cut_short_timing":cut,"timing_notes":notes,
        "by_action":by,"fired":fired,"slots":slots,"tick_ms":tick_ms}));
}

fn main() {
    quiet();
    if flag("--drive") { drive_main() } else { replay_main() }
}
