"""C11 - command channels deliver every message once, intact, within memory bounds (spec/Channel.tla).

Layers (all decided by the specification + TLC + conformance with the real code):
 1. TLC, exhaustive, no deviation: sender scope (every frame length, every partial write), receiver scope
    (every split of streams of well-formed and malformed frames), liveness under fairness (no wedge:
    the pipeline empties again and again).
 2. every OPEN deviation switched on must still give a TLC counterexample (the known finding is what the spec
    says it is); the switches of FIXED findings are self-tested the same way in the thorough tier.
 3. S->I: TLC -simulate prints behaviours of the spec (open deviations on) with the predicted result and
    projection after every step; harness/replay_channel executes them on two real Channel ends (send() shim for
    byte-exact partial writes, harness as the wire for byte-exact deliveries) and compares after every step.
 4. I->S: harness/drive_channel drives real channels at production sizes (and two small geometries) with seeded
    random traffic, partial writes chosen by the shim or by the kernel, forged frames; spec/Trace_Channel.tla
    validates the recorded traces with TLC.
"""
import json
import os
import subprocess
import sys
import threading
import time
from concurrent.futures import ThreadPoolExecutor

import vlib

PID = "C11"

BASE = {
    "D": 8, "InitCap": 16, "MaxCap": 64,
    "WriteSizes": [], "InjGood": [], "InjUndec": [], "InjShort": [], "InjOver": [],
    "MaxWrites": 0, "MaxInjects": 0, "MaxInFlight": 0, "MaxChunks": 1,
    "Scope": "e2e", "LazyInject": False, "Canonical": False, "Bounded": False, "Record": False,
    "History": False, "Depth": 0, "Edges": False, "Deviations": [],
}
SAFETY_TX = "TypeOK P_C11_Slices P_C11_Bounded P_C11_WriteAccepted P_C11_WriteRefused Lemma_PosHalf"
SAFETY_RX = "TypeOK P_C11_Slices P_C11_Bounded P_C11_Conservation P_C11_NoBufferFull P_C11_CanReceive Lemma_PosHalf"


def tla(v):
    if isinstance(v, bool):
        return "TRUE" if v else "FALSE"
    if isinstance(v, int):
        return str(v)
    if isinstance(v, str):
        return v if v.startswith("<-") else '"%s"' % v
    if isinstance(v, (list, tuple, set)):
        return "{" + ", ".join(tla(x) for x in v) + "}"
    raise ValueError(v)


def write_cfg(wd, name, spec, consts, invariants="", properties="", extra=""):
    c = dict(BASE)
    c.update(consts)
    lines = ["SPECIFICATION " + spec, "CONSTANTS"]
    for k, v in c.items():
        t = tla(v)
        lines.append("  %s %s" % (k, t) if t.startswith("<-") else "  %s = %s" % (k, t))
    if invariants:
        lines.append("INVARIANTS " + invariants)
    if properties:
        lines.append("PROPERTIES " + properties)
    if extra:
        lines.append(extra)
    lines.append("CHECK_DEADLOCK FALSE")
    with open(os.path.join(wd, name), "w") as f:
        f.write("\n".join(lines) + "\n")
    return os.path.join(wd, name)


def frame_sizes(init, mx, full):
    """Sender sizes: every length from D to a little above the maximum (D+1 cannot be a protobuf message)."""
    if full:
        return [8] + list(range(10, mx + 2)) + [mx + 8]
    s = {8, 10, init - 1, init, init + 1, init + 8, mx // 2, mx // 2 + 1, mx - 8, mx - 7, mx - 1, mx, mx + 1, mx + 8}
    return sorted(x for x in s if x >= 8 and x != 9)


def geometry(init, mx):
    return {"InitCap": init, "MaxCap": mx}


def rx_universe(mx, rich, init=16):
    """Frames the peer may put on the socket in the exhaustive receiver runs. A frame of exactly the initial size is
    what leaves, in a grown buffer, a small remainder that ENDS beyond the initial size with position <= capacity/2:
    the shrink-with-pending-bytes path (self-test switch ShrinkNoShift)."""
    if rich:
        good = sorted({8, 12, init, mx // 2 + 1, mx - 7, mx})
    else:
        good = sorted({8, init, mx - 7, mx})
    return {"InjGood": good, "InjUndec": [20], "InjShort": [7], "InjOver": [mx + 1]}


class ReplayPipe:
    """TLC's REPLAY lines are piped straight into replay_channel (no behaviour file: a thorough run prints GBs).

    Nothing here waits without a bound: the replayer has its own watchdog (a call into sozu that never returns is a
    `hang:*` violation and the process ends at once; a stuck harness ends with exit 4), a guard thread kills a
    replayer that refuses input for STALL seconds (a blocked write() cannot be interrupted from the writing thread),
    and when the consumer is gone the producer (TLC) is stopped through vlib.StopReplay."""

    STALL = 420

    def __init__(self, binary, out_path, threads):
        self.out_path = out_path
        self.out = open(out_path, "wb")
        self.err_path = out_path + ".err"
        self.err = open(self.err_path, "wb")      # a file, not a pipe: a full stderr pipe would block the replayer
        self.p = subprocess.Popen([binary, "--threads", str(threads)], stdin=subprocess.PIPE, stdout=self.out,
                                  stderr=self.err)
        self.n = 0
        self.gone = None
        self.stalled = False
        self.write_started = None
        self.closed = False
        threading.Thread(target=self._guard, daemon=True).start()

    def _guard(self):
        while not self.closed and self.p.poll() is None:
            time.sleep(2)
            t = self.write_started
            if t is not None and time.time() - t > self.STALL:
                self.stalled = True
                self.p.kill()
                return

    def write(self, obj):
        if self.gone:
            raise vlib.StopReplay(self.gone)
        data = (json.dumps(obj, separators=(",", ":")) + "\n").encode()
        self.write_started = time.time()
        try:
            self.p.stdin.write(data)
        except (BrokenPipeError, ValueError, OSError) as e:
            self.gone = "replay_channel is gone (%s)" % type(e).__name__
            raise vlib.StopReplay(self.gone)
        finally:
            self.write_started = None
        self.n += 1

    def abort(self):
        self.closed = True
        try:
            self.p.kill()
            self.p.wait(timeout=10)
        except Exception:
            pass

    def finish(self, timeout=900):
        self.write_started = time.time()          # flushing the last buffered lines may block too
        try:
            self.p.stdin.close()
        except OSError:
            pass
        self.write_started = None
        try:
            rc = self.p.wait(timeout=timeout)
        except subprocess.TimeoutExpired:
            self.abort()
            raise vlib.ToolError("replay_channel timed out")
        self.closed = True
        self.out.close()
        self.err.close()
        err = open(self.err_path, "rb").read()[-3000:].decode("utf-8", "replace")
        if self.stalled:
            raise vlib.ToolError("replay_channel accepted no input for %d s (harness stuck): killed" % self.STALL)
        if rc != 0:
            sys.stderr.write(err)
            raise vlib.ToolError("replay_channel exited %s%s" % (rc, " (its watchdog: harness stuck / starved)" if rc == 4 else ""))
        res = []
        for line in open(self.out_path, "rb").read().decode("utf-8", "replace").splitlines():
            if line.startswith("{"):
                try:
                    res.append(json.loads(line))
                except ValueError:
                    pass
        return res


def piped(pipe, **kw):
    """One TLC generator run streamed into a replayer; neither process survives a failure of the other."""
    try:
        g = vlib.tlc(replay_sink=pipe.write, want_replay=True, **kw)
    except BaseException:
        pipe.abort()
        raise
    return g, pipe.finish()


def check_model(rep, r, what):
    rep.add_tlc(r)
    if r["violated"]:
        rep.violation("spec:" + r["violated"], "%s: the specification itself violates %s" % (what, r["violated"]),
                      r["out"], name="spec_%s.txt" % what)


def cut_run(trace_path, consumed):
    """The run (reset .. first unexplained event) that contains event number consumed+1."""
    lines = open(trace_path).read().splitlines()
    hi = min(consumed, len(lines) - 1)
    lo = hi
    while lo > 0 and '"op": "reset"' not in lines[lo] and '"op":"reset"' not in lines[lo]:
        lo -= 1
    return "\n".join(lines[lo:hi + 1]) + "\n"


def run_replay_file(rep, bins, wd, path, devs):
    """./check C11 --replay <file>: a saved behaviour (S->I) or a saved trace (I->S)."""
    try:
        whole = json.load(open(path))
    except ValueError:
        whole = None
    if isinstance(whole, dict) and "behaviour" in whole:
        flat = os.path.join(wd, "replay_one.ndjson")
        with open(flat, "w") as f:
            f.write(json.dumps(json.load(open(path))) + "\n")
        out = vlib.run_harness(bins["replay_channel"], ["--threads", "1", "--verbose"], stdin_path=flat)
        for v in out:
            if v.get("kind") == "violation":
                rep.violation(v["class"], "; ".join(v["problems"])[:280], v)
        rep.cov["traces_validated_against_impl"] = 1
    else:
        cfg = trace_cfg(wd, devs)
        r = vlib.tlc_trace("Trace_Channel", cfg, PID, path, timeout=600)
        rep.add_tlc(r)
        if not r["accepted"]:
            rep.violation("trace", "trace not explained by the specification at event %s of %s%s" % (
                (r["consumed"] or 0) + 1, r["total"], (" (invariant %s)" % r["violated"]) if r["violated"] else ""),
                open(path).read())
        rep.cov["traces_validated_against_impl"] = 1
    rep.cov["rule"] = "single replay"
    rep.finish()


def trace_cfg(wd, devs, name="trace.cfg"):
    return write_cfg(wd, name, "TraceSpec",
                     {"InitCap": "<- TraceInitCap", "MaxCap": "<- TraceMaxCap", "MaxWrites": 1000000000,
                      "MaxInjects": 1000000000, "MaxInFlight": 1000000000, "MaxChunks": 0, "Bounded": True,
                      "History": True, "Deviations": devs},
                     invariants="TypeOK P_C11_Slices P_C11_Bounded P_C11_Conservation P_C11_NoBufferFull "
                                "P_C11_CanReceive P_C11_History",
                     extra="CONSTRAINT Track\nPOSTCONDITION TraceAccepted")


def run(tier, replay=None):
    rep = vlib.Report(PID, tier)
    wd = vlib.workdir(PID)
    thorough = tier == "thorough"
    devs = vlib.open_deviations(PID)
    seed = vlib.seed()
    pool = ThreadPoolExecutor(max_workers=12)

    build = pool.submit(vlib.cargo_build, ["replay_channel", "drive_channel"])
    if replay:
        run_replay_file(rep, build.result(), wd, replay, devs)
        return

    jobs = {}

    def tlc_job(key, module, cfg, **kw):
        jobs[key] = pool.submit(vlib.tlc, module, cfg, PID, **kw)

    # ---- 1. exhaustive model checking, no deviation ---------------------------------------------------
    g_main = (16, 64)
    tlc_job("mc_tx", "Channel", write_cfg(wd, "mc_tx.cfg", "Spec", dict(
        geometry(*g_main), Scope="tx", WriteSizes=frame_sizes(16, 64, True), MaxWrites=1,
        MaxChunks=2 if thorough else 1), invariants=SAFETY_TX), workers=4 if thorough else 2, timeout=1500)
    if thorough:
        tlc_job("mc_tx_odd", "Channel", write_cfg(wd, "mc_tx_odd.cfg", "Spec", dict(
            geometry(12, 40), Scope="tx", WriteSizes=frame_sizes(12, 40, True), MaxWrites=1, MaxChunks=2),
            invariants=SAFETY_TX), workers=2, timeout=1500)
        # receiver at full scale, canonical schedules
        tlc_job("mc_rx", "Channel", write_cfg(wd, "mc_rx.cfg", "Spec", dict(
            geometry(16, 64), Scope="rx", MaxInjects=1, MaxInFlight=2, LazyInject=True, Canonical=True,
            InjGood=[8, 16, 24, 57], InjUndec=[20], InjShort=[7], InjOver=[65]),
            invariants=SAFETY_RX, properties="P_C11_DeliverHead"), workers=8, timeout=2400, xmx="8g")
        # receiver at half scale, every schedule
        tlc_job("mc_rx_half", "Channel", write_cfg(wd, "mc_rx_half.cfg", "Spec", dict(
            geometry(16, 32), Scope="rx", MaxInjects=1, MaxInFlight=2, LazyInject=True, Canonical=False,
            **rx_universe(32, True)), invariants=SAFETY_RX, properties="P_C11_DeliverHead"),
            workers=6, timeout=2400, xmx="6g")
    else:
        tlc_job("mc_rx_half", "Channel", write_cfg(wd, "mc_rx_half.cfg", "Spec", dict(
            geometry(16, 32), Scope="rx", MaxInjects=1, MaxInFlight=2, LazyInject=True, Canonical=True,
            **rx_universe(32, False)), invariants=SAFETY_RX, properties="P_C11_DeliverHead"),
            workers=6, timeout=600)
    # liveness under fairness (bounded number of frames so that the traffic ends)
    # Edges: the owner of the receiver is only owed a wake-up when NEW bytes arrive (edge-triggered mio/epoll); bytes
    # that were already reported must be remembered by the channel itself (readiness), or the channel is wedged
    live_rx = dict(geometry(16, 32), Scope="rx", MaxInjects=2, MaxInFlight=2 if thorough else 1, LazyInject=True,
                   Canonical=True, Bounded=True, InjGood=[8, 25, 32] if thorough else [8, 32], InjUndec=[20],
                   InjShort=[7], InjOver=[33], Edges=True)
    tlc_job("live_rx", "Channel", write_cfg(wd, "live_rx.cfg", "FairSpec", live_rx, invariants=SAFETY_RX,
                                            properties="P_C11_Live"), workers=2, timeout=2400)
    # a burst larger than the ceiling to a slow reader, then a silent peer: every schedule (bytes pile up in the socket,
    # spurious wake-ups allowed but not owed), so that readable() stops full at the ceiling with bytes left in the socket
    live_ceiling = dict(geometry(16, 32), Scope="rx", MaxInjects=4 if thorough else 3, MaxInFlight=2, LazyInject=True,
                        Canonical=False, Bounded=True, InjGood=[8, 16, 25], Edges=True)
    tlc_job("live_ceiling", "Channel", write_cfg(wd, "live_ceiling.cfg", "FairSpec", live_ceiling, invariants=SAFETY_RX,
                                                 properties="P_C11_Live"), workers=2, timeout=2400)
    # the sender's mirror: after a drain the socket is still writable and no new writable edge will come; after a
    # would-block the kernel reports the room it gets back. Every message accepted is eventually on the wire.
    live_tx = dict(geometry(16, 64), Scope="tx", WriteSizes=[8, 20, 40, 64, 65], MaxWrites=4 if thorough else 3, MaxChunks=1,
                   Bounded=True, Edges=True)
    tlc_job("live_tx", "Channel", write_cfg(wd, "live_tx.cfg", "FairSpec", live_tx, invariants=SAFETY_TX,
                                            properties="P_C11_Live"), workers=2, timeout=2400)
    # the composition of both ends is small on purpose: its state space is the product of the two halves
    # (one more accepted length multiplies it by ~20), the halves are checked at scale on their own above
    live_e2e = dict(geometry(16, 32), Scope="e2e", WriteSizes=[20, 33], MaxWrites=1, MaxInjects=1, MaxInFlight=2,
                    Canonical=True, LazyInject=True, Bounded=True, History=True, InjUndec=[12], InjShort=[7], Edges=True)
    tlc_job("live_e2e", "Channel", write_cfg(wd, "live_e2e.cfg", "FairSpec", live_e2e,
                                             invariants=SAFETY_RX + " P_C11_History P_C11_WriteAccepted",
                                             properties="P_C11_Live P_C11_DeliverHead"), workers=2, timeout=2400)

    # ---- 2. deviations: open ones must still violate; fixed ones are self-tests of the property's teeth
    dev_jobs = {}
    fixed_switches = ["UndecodableWedge", "FullNoShift"] if thorough else []
    for d in list(devs) + [x for x in fixed_switches if x not in devs]:
        c = dict(live_rx)
        c.update(Deviations=[d], MaxInFlight=2, InjGood=[8, 25], MaxInjects=2)
        dev_jobs[d] = pool.submit(vlib.tlc, "Channel", write_cfg(wd, "dev_%s.cfg" % d, "FairSpec", c,
                                  invariants=SAFETY_RX, properties="P_C11_Live"), PID, workers=2, timeout=1200)

    # self-test switches (both tiers): defect classes the model must refute, i.e. the universe explored above reaches
    # the states where they matter and the property has teeth there. (name, base config, spec, invariants, properties,
    # what TLC must report)
    rx_small = dict(geometry(16, 32), Scope="rx", MaxInjects=1, MaxInFlight=2, LazyInject=True, Canonical=True,
                    **rx_universe(32, False))
    tx_small = dict(geometry(16, 64), Scope="tx", WriteSizes=frame_sizes(16, 64, True), MaxWrites=1, MaxChunks=1)
    self_tests = [
        ("ShrinkNoShift", "rx", rx_small, "Spec", "TypeOK P_C11_Slices", "", "P_C11_Slices"),
        ("ShrinkNoShift", "tx", tx_small, "Spec", "TypeOK P_C11_Slices", "", "P_C11_Slices"),
        ("CeilingClearsReadiness", "rx", live_ceiling, "FairSpec", SAFETY_RX, "P_C11_Live", "P_C11_Live"),
        ("DrainClearsReadiness", "tx", live_tx, "FairSpec", SAFETY_TX, "P_C11_Live", "P_C11_Live"),
    ]
    self_jobs = []
    for (d, side, base, spec, inv, props, want) in self_tests:
        c = dict(base)
        c.update(Deviations=[d])
        self_jobs.append((d, side, want, pool.submit(
            vlib.tlc, "Channel", write_cfg(wd, "self_%s_%s.cfg" % (d, side), spec, c, invariants=inv, properties=props),
            PID, workers=2, timeout=1200)))

    # ---- 3. S->I generator --------------------------------------------------------------------------
    gens = [(16, 64, seed), (12, 40, seed + 1000)] + ([(16, 32, seed + 2000), (24, 64, seed + 3000)] if thorough else [])
    gen_jobs = []
    for (gi, gm, gs) in gens:
        cfg = write_cfg(wd, "gen_%d_%d.cfg" % (gi, gm), "GenSpec", dict(
            geometry(gi, gm), Scope="e2e", WriteSizes=frame_sizes(gi, gm, True), MaxWrites=8, MaxInjects=4,
            MaxInFlight=4, Bounded=True, Record=True, History=False, Depth=80, Deviations=devs,
            InjGood=sorted({8, 10, gi, gi + 1, gm // 2 + 1, gm - 8, gm - 7, gm - 1, gm}),
            InjUndec=[9, 20, gm], InjShort=[0, 7], InjOver=[gm + 1, gm + 8]), invariants="EmitHist")
        def gen(cfg=cfg, gi=gi, gm=gm):
            pipe = ReplayPipe(build.result()["replay_channel"], os.path.join(wd, "replay_%d_%d.out" % (gi, gm)), 6)
            return piped(pipe, module="Channel", cfg=cfg, pid=PID, workers=4 if thorough else 3, timeout=1500,
                         simulate="num=%d" % (1200 if thorough else 350), depth=81)
        gen_jobs.append(pool.submit(gen))

    # ---- 3b. transition tables: every buffer state x every argument of the four step functions
    tabs = [(16, 32), (12, 40)] + ([(16, 64), (24, 64)] if thorough else [])
    for (gi, gm) in tabs:
        cfg = write_cfg(wd, "tab_%d_%d.cfg" % (gi, gm), "TableSpec", dict(
            geometry(gi, gm), Scope="e2e", WriteSizes=frame_sizes(gi, gm, True),
            InjGood=[8] + list(range(10, gm + 1)), InjUndec=list(range(9, gm + 1)), InjShort=list(range(0, 8)),
            InjOver=[gm + 1, gm + 8], Deviations=devs), invariants="EmitTables")
        def tab(cfg=cfg, gi=gi, gm=gm):
            pipe = ReplayPipe(build.result()["replay_channel"], os.path.join(wd, "replay_tab_%d_%d.out" % (gi, gm)), 4)
            return piped(pipe, module="Channel", cfg=cfg, pid=PID, workers=2, timeout=1500)
        gen_jobs.append(pool.submit(tab))

    # ---- 4. I->S driver ---------------------------------------------------------------------------------
    bins = build.result()
    geos = [(1000000, 2000000, 8 if not thorough else 40, 300), (16, 64, 40 if not thorough else 300, 200),
            (12, 40, 30 if not thorough else 200, 200)]
    if thorough:
        geos.append((4096, 65536, 60, 400))
    drive_jobs = []
    for (gi, gm, runs, steps) in geos:
        def drive(gi=gi, gm=gm, runs=runs, steps=steps):
            tp = os.path.join(wd, "trace_%d_%d.ndjson" % (gi, gm))
            out = vlib.run_harness(bins["drive_channel"], ["--seed", str(seed), "--runs", str(runs), "--steps", str(steps),
                                                           "--init", str(gi), "--max", str(gm), "--out", tp])
            summ = [o for o in out if o.get("kind") == "summary"][0]
            r = vlib.tlc_trace("Trace_Channel", trace_cfg(wd, devs, "trace_%d_%d.cfg" % (gi, gm)), PID, tp, timeout=1500)
            return tp, summ, r
        drive_jobs.append(pool.submit(drive))

    # ---- collect: models
    for key, fut in jobs.items():
        check_model(rep, fut.result(), key)
    for d, fut in dev_jobs.items():
        r = fut.result()
        rep.add_tlc(r)
        if not r["violated"]:
            raise vlib.ToolError("deviation %s no longer violates P_C11 in the model" % d)
        vlib.log("deviation %s: TLC counterexample (%s) as expected" % (d, r["violated"]))
        for e in rep.findings:
            if e.get("status") == "open" and e.get("deviation") == d:
                rep.known_finding_seen(e["id"])

    refuted = []
    for (d, side, want, fut) in self_jobs:
        r = fut.result()
        rep.add_tlc(r)
        if r["violated"] != want:
            raise vlib.ToolError("self-test: defect class %s (%s side) is no longer refuted by %s in the model (TLC says %s): "
                                 "the explored universe does not reach it" % (d, side, want, r["violated"]))
        refuted.append("%s/%s" % (d, side))
    vlib.log("self-test switches refuted by TLC: %s" % ", ".join(refuted))
    rep.extra["self_test_switches_refuted"] = refuted

    # ---- collect: replay
    n_beh = 0
    n_trans = 0
    n_tables = 0
    n_rows = 0
    classes = set()
    sample_beh = None
    for fut in gen_jobs:
        g, out = fut.result()
        rep.add_tlc(g)
        if g["violated"]:
            raise vlib.ToolError("generator run reported a violation: %s" % g["violated"])
        if g["n_replays"] == 0 and not g.get("stopped"):
            raise vlib.ToolError("generator produced no behaviour")
        summ = [o for o in out if o.get("kind") == "summary"]
        if not summ:
            raise vlib.ToolError("replay_channel produced no summary")
        summ = summ[0]
        # the replayer ends early with its verdict when a call into the code under test never returns
        early = bool(summ.get("aborted")) and any(o.get("kind") == "violation" and str(o.get("class", "")).startswith("hang:") for o in out)
        if g.get("stopped") and not early:
            raise vlib.ToolError("TLC was stopped (%s) but the replayer reported no hang" % g["stopped"])
        if not early and summ["behaviours"] + summ.get("tables", 0) != g["n_replays"]:
            raise vlib.ToolError("replay_channel executed %d of %d behaviours" % (summ["behaviours"] + summ.get("tables", 0), g["n_replays"]))
        if sample_beh is None and summ.get("first_behaviour"):
            sample_beh = summ["first_behaviour"]
        n_beh += summ["behaviours"]
        n_trans += summ["distinct_transitions"] + summ.get("table_rows", 0)
        n_tables += summ.get("tables", 0)
        n_rows += summ.get("table_rows", 0)
        rep.cov["evaluations"] += summ.get("table_rows", 0)
        rep.cov["evaluations"] += summ["steps"]
        classes |= set(summ["step_classes"])
        seen = set()
        for v in out:
            if v.get("kind") != "violation":
                continue
            if v["class"] in ("harness", "setup"):
                raise vlib.ToolError("replay_channel could not execute a step: %s" % "; ".join(v["problems"])[:400])
            key = (v["class"], v["op"].get("op"), v["op"].get("res"))
            if key in seen:
                continue            # one replay file per kind of disagreement
            seen.add(key)
            rep.violation(v["class"], "; ".join(v["problems"])[:380], v,
                          name="behaviour_%s_%s_%d.json" % (v["class"].replace(":", "-"), v["op"].get("op"), len(rep.violations)))
    # one replayed behaviour, compactly, as a sample
    if sample_beh:
        def show(st):
            a = st.get("len", st.get("chunks", st.get("k", "")))
            return "%s(%s)%s" % (st["op"], a, ("->" + st["res"]) if st.get("res") else "")
        rep.add_samples(["behaviour init=%d max=%d: %s ... final %s" % (
            sample_beh["init"], sample_beh["max"], " ".join(show(x) for x in sample_beh["steps"][:28]),
            json.dumps(sample_beh["steps"][-1]["st"]))], 1)
    need = {"Write/ok", "Write/too_large", "Writable/ok", "Readable/ok", "ReadMessage/ok", "ReadMessage/nothing_read",
            "ReadMessage/under_delimiter", "ReadMessage/invalid_protobuf", "ReadMessage/too_large", "Inject/", "WireMove/"}
    if not rep.violations and (n_tables == 0 or n_rows == 0):
        raise vlib.ToolError("no transition table was replayed")
    if not rep.violations and not need <= classes:
        raise vlib.ToolError("vacuous replay: step classes never exercised: %s" % sorted(need - classes))

    # ---- collect: traces
    n_runs = 0
    for fut in drive_jobs:
        tp, summ, r = fut.result()
        rep.add_tlc(r)
        rep.cov["evaluations"] += summ["events"]
        if r["accepted"]:
            n_runs += summ["runs"]
            rep.add_samples(["driver init=%d max=%d: %d runs, %d events, %d delivered, %d receiver errors, %d shim partial writes, "
                             "%d kernel partial writes, %d messages > max/2: trace accepted" % (
                                 summ["init"], summ["max"], summ["runs"], summ["events"], summ["delivered"],
                                 summ["receiver_errors"], summ["planned_partial_writes"], summ["kernel_partial_writes"],
                                 summ["messages_over_half_max"])], 1)
        else:
            consumed = r["consumed"] or 0
            why = ("invariant %s violated" % r["violated"]) if r["violated"] else "no step of the specification explains the event"
            first = ""
            for line in r["out"].splitlines():
                if "FIRST-UNEXPLAINED-EVENT" in line:
                    first = line[:400]
            cut = cut_run(tp, consumed)
            klass = "trace"
            try:        # a panic / a call that never returned is recorded by the driver as an event of its own
                last = json.loads(cut.splitlines()[-1])
                if last.get("op") in ("Panic", "Hang"):
                    klass = "%s:%s" % (last["op"].lower(), last.get("call", "?"))
                    why = "%s of the code under test in %s: %s;" % (last["op"].lower(), last.get("call", "?"), str(last.get("message", ""))[:160])
            except (ValueError, IndexError):
                pass
            rep.violation(klass, "init=%d max=%d: event %d of %s: %s %s" % (summ["init"], summ["max"], consumed + 1,
                          r["total"], why, first), cut, name="trace_%d_%d.ndjson" % (summ["init"], summ["max"]))
        if summ["panics"]:
            vlib.log("driver recorded %d panic(s) of the code under test" % summ["panics"])
    # thorough: the binding must reject a corrupted trace (self-test of Trace_Channel)
    if thorough and not rep.violations:
        tp = os.path.join(wd, "trace_16_64.ndjson")
        lines = open(tp).read().splitlines()
        idx = [i for i, l in enumerate(lines) if '"ReadMessage"' in l and json.loads(l).get("res") == "ok"]
        if idx:
            k = idx[len(idx) // 2]
            e = json.loads(lines[k])
            e["h"] = e["h"] + 1
            lines[k] = json.dumps(e)
            cp = os.path.join(wd, "trace_canary.ndjson")
            open(cp, "w").write("\n".join(lines) + "\n")
            r = vlib.tlc_trace("Trace_Channel", trace_cfg(wd, devs, "trace_canary.cfg"), PID, cp, timeout=900)
            if r["accepted"] or r["consumed"] != k:
                raise vlib.ToolError("canary: a corrupted trace was not rejected at the corrupted event (%s vs %s)" % (r["consumed"], k))
            vlib.log("canary trace rejected at event %d as expected" % (k + 1))

    rep.cov["traces_validated_against_impl"] = n_beh + n_runs
    rep.cov["distinct_nontrivial"] = n_trans
    rep.cov["exhaustive"] = False
    rep.extra["behaviours_replayed"] = n_beh
    rep.extra["transition_tables_replayed"] = n_tables
    rep.extra["transition_table_rows"] = n_rows
    rep.extra["transition_tables_exhaustive_for"] = ["%d/%d" % g for g in tabs]
    rep.extra["driver_runs_accepted"] = n_runs
    rep.extra["step_classes_replayed"] = sorted(classes)
    rep.cov["rule"] = ("S->I: behaviours of Channel.tla (80 steps each, TLC -simulate, geometries %s) replayed on two real Channel ends, "
                       "result + projection (data, space, capacity, interest, readiness of both ends, bytes in flight, bytes in the "
                       "receiver's socket) compared after every step, decoded messages compared byte for byte; "
                       "distinct_nontrivial = distinct (pre-projection, step, arguments, post-projection) tuples replayed + rows of the "
                       "transition tables (every buffer state (pos,end,cap) allowed by the buffer invariants x every frame length / partial "
                       "write size / socket fill / head frame, executed on a real Channel put in that state). "
                       "I->S: seeded driver runs at production sizes 1000000/2000000 and small geometries validated by "
                       "Trace_Channel.tla. Exhaustive TLC: sender scope (every frame length 8..max+8, every partial write), "
                       "receiver scope (two frames in flight, every split), liveness under fairness." % (
                           ", ".join("%d/%d" % (a, b) for a, b, _ in gens)))
    rep.assumptions += [
        "the byte stream between the two ends is a FIFO (unix stream socket); the specification represents it by the queue of frames in flight and four byte counts",
        "partial writes of the sender are produced by a send() shim in the harness binary (the kernel never splits writes of a few dozen bytes); at production sizes the kernel's own partial writes are recorded too",
        "exhaustive receiver runs use 2 frames in flight out of a small universe (boundary lengths, one frame of each malformed kind); sizes and splits in between are covered by the replayed random behaviours and the driver",
        "peer close / EOF and blocking-mode calls (read_message_blocking_timeout, write_message_blocking) are not modelled",
        "an oversized frame is assumed to be followed by as many bytes as it declares",
    ]
    rep.finish()
