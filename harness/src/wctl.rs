//! Shared pieces of the C08 harness (spec/WorkerCtl.tla): the table model value -> concrete
//! data, request construction, mock backends, client probes, the projection of a real
//! `ConfigState` onto the spec's `cfg` record and the per-worker-thread hook event store.

use std::collections::{BTreeMap, HashMap};
use std::io::{Read, Write};
use std::net::{SocketAddr, TcpListener, TcpStream, UdpSocket};
use std::sync::atomic::{AtomicBool, Ordering};
use std::sync::{Arc, Mutex, OnceLock};
use std::thread::JoinHandle;
use std::time::{Duration, Instant};

use serde_json::{Value, json};
use sozu_command_lib::config::ListenerBuilder;
use sozu_command_lib::proto::command::{
    ActivateListener, Cluster, DeactivateListener, HardStop, HealthCheckConfig, ListWorkers, ListenerType, MetricDetail,
    MetricsConfiguration, ProxyProtocolConfig, QueryCertificatesFilters, QueryClusterByDomain, QueryClustersHashes,
    QueryMaxConnectionsPerIp, QueryMetricsOptions, RemoveBackend, RemoveListener, Request, RequestUdpFrontend,
    ReturnListenSockets, SetHealthCheck, SetMetricDetail, SoftStop, Status, UdpAffinityKey, UdpClusterConfig,
    UpdateHttpListenerConfig, UpdateHttpsListenerConfig, UpdateTcpListenerConfig, UpdateUdpListenerConfig,
    request::RequestType,
};
use sozu_command_lib::state::ConfigState;

use crate::worker::Worker;

/// model listener id -> (protocol, address slot)
pub const LDEF: &[(&str, &str, u16)] = &[
    ("hA", "http", 0), ("hB", "http", 1), ("tC", "tcp", 2), ("sD", "https", 3), ("uE", "udp", 4),
    // a second listener of the same kind (slots 5..7 are the backends)
    ("uF", "udp", 8), ("tG", "tcp", 9),
];
/// model http frontend id -> (cluster, listener, host)
pub const FDEF: &[(&str, &str, &str, &str)] =
    &[("f1", "c1", "hA", "a"), ("f2", "c2", "hA", "b"), ("f3", "c2", "hA", "a"), ("f4", "c1", "hB", "a")];
/// model tcp frontend id -> (cluster, listener)
pub const TDEF: &[(&str, &str, &str)] = &[("t1", "c1", "tC"), ("t2", "c2", "tC"), ("t3", "c1", "tG")];
/// model udp frontend id -> (cluster, listener)
pub const UDEF: &[(&str, &str, &str)] = &[("u1", "c1", "uE"), ("u2", "c1", "uF"), ("u3", "c2", "uE")];
/// model backend id -> (cluster, address slot)
pub const BDEF: &[(&str, &str, u16)] = &[("b1", "c1", 5), ("b2", "c2", 6), ("b3", "c1", 7)];
pub const HOSTS: &[&str] = &["a", "b", "z"];

/// Concrete addresses of one run: a loopback IP private to the run, consecutive ports.
#[derive(Clone, Copy, Debug)]
pub struct Addrs {
    pub ip: [u8; 4],
    pub port: u16,
}

impl Addrs {
    /// `index` selects a loopback address in 127.8.0.0/13 that no other check uses.
    pub fn for_index(index: u64, port: u16) -> Addrs {
        let i = index % (8 * 250 * 250);
        let a = 8 + (i / (250 * 250)) as u8;
        let b = ((i / 250) % 250) as u8;
        let c = (i % 250) as u8 + 1;
        Addrs { ip: [127, a, b, c], port }
    }
    pub fn slot(&self, slot: u16) -> SocketAddr {
        SocketAddr::from((self.ip, self.port + slot))
    }
    pub fn listener(&self, l: &str) -> (&'static str, SocketAddr) {
        let d = LDEF.iter().find(|d| d.0 == l).unwrap_or_else(|| panic!("unknown listener {l}"));
        (d.1, self.slot(d.2))
    }
    pub fn backend(&self, b: &str) -> (&'static str, SocketAddr) {
        let d = BDEF.iter().find(|d| d.0 == b).unwrap_or_else(|| panic!("unknown backend {b}"));
        (d.1, self.slot(d.2))
    }
}

pub fn hostname(h: &str) -> String {
    format!("{h}.test")
}

fn ltype(proto: &str) -> ListenerType {
    match proto {
        "http" => ListenerType::Http,
        "https" => ListenerType::Https,
        "tcp" => ListenerType::Tcp,
        _ => ListenerType::Udp,
    }
}

fn health_check(uri: &str) -> HealthCheckConfig {
    HealthCheckConfig {
        uri: uri.to_string(),
        interval: 10,
        timeout: 5,
        healthy_threshold: 3,
        unhealthy_threshold: 3,
        expected_status: 0,
        ..Default::default()
    }
}

/// The plain definition of cluster `id` (udp flows keyed by source ip AND port).
pub fn plain_cluster(id: &str) -> Cluster {
    Cluster {
        udp: Some(UdpClusterConfig { affinity_key: Some(UdpAffinityKey::SourceIpPort as i32), ..Default::default() }),
        ..Worker::default_cluster(id)
    }
}

/// The alternative definition of cluster `id`, visible on every kind of listener: plain-http requests
/// are redirected (https_redirect), tcp and udp backends get a PROXY protocol v2 header first.
pub fn alt_cluster(id: &str) -> Cluster {
    Cluster {
        https_redirect: true,
        proxy_protocol: Some(ProxyProtocolConfig::SendHeader as i32),
        udp: Some(UdpClusterConfig {
            affinity_key: Some(UdpAffinityKey::SourceIpPort as i32),
            send_proxy_protocol: Some(true),
            ..Default::default()
        }),
        ..Worker::default_cluster(id)
    }
}

/// A value outside every enum of the command protocol (protobuf enums are open i32s on the wire).
pub const BAD_ENUM: i32 = 99;

/// The concrete message for the model request [k, a] (`NoType`: a request without a request type).
pub fn build_request_full(k: &str, a: &str, ad: &Addrs) -> Request {
    if k == "NoType" {
        return Request { request_type: None };
    }
    build_request(k, a, ad).into()
}

/// The concrete request for the model request [k, a].
pub fn build_request(k: &str, a: &str, ad: &Addrs) -> RequestType {
    match k {
        // ---- malformed requests: enum fields outside their enum, a kind meant for the main process
        "RemoveListenerBadType" => {
            let (_, addr) = ad.listener(a);
            RequestType::RemoveListener(RemoveListener { address: addr.into(), proxy: 4 })
        }
        "ActivateBadType" => {
            let (_, addr) = ad.listener(a);
            RequestType::ActivateListener(ActivateListener { address: addr.into(), proxy: -1, from_scm: false })
        }
        "DeactivateBadType" => {
            let (_, addr) = ad.listener(a);
            RequestType::DeactivateListener(DeactivateListener { address: addr.into(), proxy: i32::MAX, to_scm: false })
        }
        "ForeignKind" => RequestType::ListWorkers(ListWorkers {}),
        "ConfigureMetricsBad" => RequestType::ConfigureMetrics(BAD_ENUM),
        "MetricDetailBadEnum" => RequestType::SetMetricDetail(SetMetricDetail {
            client_id: "c08".to_string(),
            detail: Some(BAD_ENUM),
            ttl_seconds: Some(30),
            ..Default::default()
        }),
        "AddHFrontBadPos" | "AddHFrontBadKind" => {
            let d = FDEF.iter().find(|d| d.0 == a).unwrap_or_else(|| panic!("unknown front {a}"));
            let mut f = Worker::http_frontend(d.1, ad.listener(d.2).1, &hostname(d.3), "/");
            if k == "AddHFrontBadPos" { f.position = BAD_ENUM } else { f.path.kind = BAD_ENUM }
            RequestType::AddHttpFrontend(f)
        }
        "AddClusterBadEnums" => RequestType::AddCluster(Cluster {
            load_balancing: BAD_ENUM,
            load_metric: Some(BAD_ENUM),
            proxy_protocol: Some(BAD_ENUM),
            udp: Some(UdpClusterConfig { affinity_key: Some(BAD_ENUM), ..Default::default() }),
            ..Worker::default_cluster(a)
        }),
        "AddClusterAlt" => RequestType::AddCluster(alt_cluster(a)),
        "AddUFront" | "RemoveUFront" => {
            let d = UDEF.iter().find(|d| d.0 == a).unwrap_or_else(|| panic!("unknown udp front {a}"));
            let f = RequestUdpFrontend { cluster_id: d.1.to_string(), address: ad.listener(d.2).1.into(), tags: Default::default() };
            if k == "AddUFront" { RequestType::AddUdpFrontend(f) } else { RequestType::RemoveUdpFrontend(f) }
        }
        // worker-level verbs
        "Status" => RequestType::Status(Status {}),
        "QueryHashes" => RequestType::QueryClustersHashes(QueryClustersHashes {}),
        "QueryDomain" => {
            RequestType::QueryClustersByDomain(QueryClusterByDomain { hostname: hostname("a"), path: None })
        }
        "QueryMetrics" => RequestType::QueryMetrics(QueryMetricsOptions {
            list: false,
            cluster_ids: vec![],
            backend_ids: vec![],
            metric_names: vec![],
            no_clusters: false,
            workers: false,
        }),
        "ConfigureMetrics" => RequestType::ConfigureMetrics(MetricsConfiguration::Enabled as i32),
        "Logging" => RequestType::Logging("error".to_string()),
        "SetMaxConn" => RequestType::SetMaxConnectionsPerIp(7),
        "QueryMaxConn" => RequestType::QueryMaxConnectionsPerIp(QueryMaxConnectionsPerIp {}),
        "MetricDetailOk" => RequestType::SetMetricDetail(SetMetricDetail {
            client_id: "c08".to_string(),
            detail: Some(MetricDetail::DetailBackend as i32),
            ttl_seconds: Some(30),
            ..Default::default()
        }),
        "MetricDetailBad" => RequestType::SetMetricDetail(SetMetricDetail {
            client_id: "c08".to_string(),
            detail: None,
            ..Default::default()
        }),
        "QueryCertsAll" => {
            RequestType::QueryCertificatesFromWorkers(QueryCertificatesFilters { domain: None, fingerprint: None })
        }
        "QueryCertsFp" => RequestType::QueryCertificatesFromWorkers(QueryCertificatesFilters {
            domain: None,
            fingerprint: Some("00".repeat(32)),
        }),
        // clusters
        "QueryCluster" => RequestType::QueryClusterById(a.to_string()),
        "AddCluster" => RequestType::AddCluster(plain_cluster(a)),
        "AddClusterBadHc" => RequestType::AddCluster(Cluster {
            health_check: Some(health_check("no-leading-slash")),
            ..Worker::default_cluster(a)
        }),
        "RemoveCluster" => RequestType::RemoveCluster(a.to_string()),
        "SetHc" => RequestType::SetHealthCheck(SetHealthCheck { cluster_id: a.to_string(), config: health_check("/health") }),
        "SetHcBad" => {
            RequestType::SetHealthCheck(SetHealthCheck { cluster_id: a.to_string(), config: health_check("bad uri") })
        }
        "RemoveHc" => RequestType::RemoveHealthCheck(a.to_string()),
        // backends
        "AddBackend" => {
            let (c, addr) = ad.backend(a);
            RequestType::AddBackend(Worker::backend(c, a, addr))
        }
        "RemoveBackend" => {
            let (c, addr) = ad.backend(a);
            RequestType::RemoveBackend(RemoveBackend {
                cluster_id: c.to_string(),
                backend_id: a.to_string(),
                address: addr.into(),
            })
        }
        // frontends
        "AddHFront" | "RemoveHFront" => {
            let d = FDEF.iter().find(|d| d.0 == a).unwrap_or_else(|| panic!("unknown front {a}"));
            let f = Worker::http_frontend(d.1, ad.listener(d.2).1, &hostname(d.3), "/");
            if k == "AddHFront" { RequestType::AddHttpFrontend(f) } else { RequestType::RemoveHttpFrontend(f) }
        }
        "AddTFront" | "RemoveTFront" => {
            let d = TDEF.iter().find(|d| d.0 == a).unwrap_or_else(|| panic!("unknown tcp front {a}"));
            let f = Worker::tcp_frontend(d.1, ad.listener(d.2).1);
            if k == "AddTFront" { RequestType::AddTcpFrontend(f) } else { RequestType::RemoveTcpFrontend(f) }
        }
        // listeners
        "AddListener" => {
            let (proto, addr) = ad.listener(a);
            match proto {
                "http" => RequestType::AddHttpListener(ListenerBuilder::new_http(addr.into()).to_http(None).expect("http")),
                "https" => RequestType::AddHttpsListener(ListenerBuilder::new_https(addr.into()).to_tls(None).expect("https")),
                "tcp" => RequestType::AddTcpListener(ListenerBuilder::new_tcp(addr.into()).to_tcp(None).expect("tcp")),
                _ => RequestType::AddUdpListener(ListenerBuilder::new_udp(addr.into()).to_udp(None).expect("udp")),
            }
        }
        "RemoveListener" => {
            let (proto, addr) = ad.listener(a);
            RequestType::RemoveListener(RemoveListener { address: addr.into(), proxy: ltype(proto).into() })
        }
        "Activate" => {
            let (proto, addr) = ad.listener(a);
            RequestType::ActivateListener(ActivateListener { address: addr.into(), proxy: ltype(proto).into(), from_scm: false })
        }
        "Deactivate" => {
            let (proto, addr) = ad.listener(a);
            RequestType::DeactivateListener(DeactivateListener { address: addr.into(), proxy: ltype(proto).into(), to_scm: false })
        }
        "UpdateListener" | "UpdateListenerBad" => {
            let (proto, addr) = ad.listener(a);
            let bad = k == "UpdateListenerBad";
            match proto {
                "http" => RequestType::UpdateHttpListener(UpdateHttpListenerConfig {
                    address: addr.into(),
                    front_timeout: Some(61),
                    h2_max_rst_stream_per_window: if bad { Some(0) } else { None },
                    ..Default::default()
                }),
                "https" => RequestType::UpdateHttpsListener(UpdateHttpsListenerConfig {
                    address: addr.into(),
                    front_timeout: Some(61),
                    h2_max_rst_stream_per_window: if bad { Some(0) } else { None },
                    ..Default::default()
                }),
                "tcp" => RequestType::UpdateTcpListener(UpdateTcpListenerConfig {
                    address: addr.into(),
                    front_timeout: Some(61),
                    ..Default::default()
                }),
                _ => RequestType::UpdateUdpListener(UpdateUdpListenerConfig {
                    address: addr.into(),
                    front_timeout: Some(61),
                    ..Default::default()
                }),
            }
        }
        "ReturnSockets" => RequestType::ReturnListenSockets(ReturnListenSockets {}),
        "SoftStop" => RequestType::SoftStop(SoftStop {}),
        "HardStop" => RequestType::HardStop(HardStop {}),
        _ => panic!("unknown request kind {k}"),
    }
}

/// The real ConfigState projected onto the spec's `cfg` record (sets as sorted arrays).
pub fn project_config(state: &ConfigState, ad: &Addrs, listeners: &[String]) -> Value {
    let mut lst = serde_json::Map::new();
    for l in listeners {
        let (proto, addr) = ad.listener(l);
        let st = match proto {
            "http" => state.http_listeners.get(&addr).map(|x| x.active),
            "https" => state.https_listeners.get(&addr).map(|x| x.active),
            "tcp" => state.tcp_listeners.get(&addr).map(|x| x.active),
            _ => state.udp_listeners.get(&addr).map(|x| x.active),
        };
        let v = match st {
            None => "absent",
            Some(true) => "active",
            Some(false) => "inactive",
        };
        lst.insert(l.clone(), json!(v));
    }
    let mut cl: Vec<String> = state.clusters.keys().cloned().collect();
    cl.sort();
    let mut hc: Vec<String> =
        state.clusters.iter().filter(|(_, c)| c.health_check.is_some()).map(|(k, _)| k.clone()).collect();
    hc.sort();
    // an http frontend whose PathRuleKind is outside the enum (ConfigState keeps at most one, under a
    // degenerate key): not a route, shown apart as the listener it names
    let known_kind = |k: i32| sozu_command_lib::proto::command::PathRuleKind::try_from(k).is_ok();
    let ghost: String = state
        .http_fronts
        .values()
        .find(|f| !known_kind(f.path.kind))
        .map(|f| {
            LDEF.iter().find(|d| ad.slot(d.2) == f.address && d.1 == "http").map(|d| d.0.to_string()).unwrap_or_else(|| format!("?{}", f.address))
        })
        .unwrap_or_else(|| "none".to_string());
    let mut hf: Vec<String> = state
        .http_fronts
        .values()
        .filter(|f| known_kind(f.path.kind))
        .map(|f| {
            FDEF.iter()
                .find(|d| {
                    f.cluster_id.as_deref() == Some(d.1) && f.address == ad.listener(d.2).1 && f.hostname == hostname(d.3)
                })
                .map(|d| d.0.to_string())
                .unwrap_or_else(|| format!("?{}", f.hostname))
        })
        .collect();
    hf.sort();
    let mut tf: Vec<String> = state
        .tcp_fronts
        .iter()
        .flat_map(|(c, v)| v.iter().map(move |f| (c.clone(), f.address)))
        .map(|(c, a)| {
            TDEF.iter()
                .find(|d| d.1 == c && ad.listener(d.2).1 == a)
                .map(|d| d.0.to_string())
                .unwrap_or_else(|| format!("?{c}@{a}"))
        })
        .collect();
    tf.sort();
    let mut be: Vec<String> = state
        .backends
        .iter()
        .flat_map(|(c, v)| v.iter().map(move |b| (c.clone(), b.backend_id.clone(), b.address)))
        .map(|(c, id, a)| {
            BDEF.iter()
                .find(|d| d.0 == id && d.1 == c && ad.slot(d.2) == a)
                .map(|d| d.0.to_string())
                .unwrap_or_else(|| format!("?{c}/{id}@{a}"))
        })
        .collect();
    be.sort();
    let mut uf: Vec<String> = state
        .udp_fronts
        .iter()
        .flat_map(|(c, v)| v.iter().map(move |f| (c.clone(), f.address)))
        .map(|(c, a)| {
            UDEF.iter()
                .find(|d| d.1 == c && ad.listener(d.2).1 == a)
                .map(|d| d.0.to_string())
                .unwrap_or_else(|| format!("?{c}@{a}"))
        })
        .collect();
    uf.sort();
    let mut alt: Vec<String> = state.clusters.iter().filter(|(_, c)| c.https_redirect).map(|(k, _)| k.clone()).collect();
    alt.sort();
    json!({"lst": lst, "cl": cl, "hc": hc, "hf": hf, "tf": tf, "be": be, "uf": uf, "alt": alt, "ghost": ghost})
}

/// The answer of a worker to QueryClusterById(c) as a `view` trace event in the spec's terms.
pub fn view_event(
    run: u64,
    c: &str,
    infos: &[sozu_command_lib::proto::command::ClusterInformation],
    ad: &Addrs,
) -> Value {
    let Some(ci) = infos.first() else {
        return json!({"ev": "view", "run": run, "c": c, "present": false, "hc": false, "hf": [], "tf": [], "be": [], "uf": [], "alt": false});
    };
    let hc = ci.configuration.as_ref().map(|x| x.health_check.is_some()).unwrap_or(false);
    let mut hf: Vec<String> = ci
        .http_frontends
        .iter()
        .filter(|f| sozu_command_lib::proto::command::PathRuleKind::try_from(f.path.kind).is_ok())
        .map(|f| {
            let addr: SocketAddr = f.address.into();
            FDEF.iter()
                .find(|d| f.cluster_id.as_deref() == Some(d.1) && addr == ad.listener(d.2).1 && f.hostname == hostname(d.3))
                .map(|d| d.0.to_string())
                .unwrap_or_else(|| format!("?{}", f.hostname))
        })
        .collect();
    hf.sort();
    let mut tf: Vec<String> = ci
        .tcp_frontends
        .iter()
        .map(|f| {
            let addr: SocketAddr = f.address.into();
            TDEF.iter()
                .find(|d| d.1 == f.cluster_id && ad.listener(d.2).1 == addr)
                .map(|d| d.0.to_string())
                .unwrap_or_else(|| format!("?{}", f.cluster_id))
        })
        .collect();
    tf.sort();
    let mut be: Vec<String> = ci
        .backends
        .iter()
        .map(|b| {
            let addr: SocketAddr = b.address.into();
            BDEF.iter()
                .find(|d| d.0 == b.backend_id && d.1 == b.cluster_id && ad.slot(d.2) == addr)
                .map(|d| d.0.to_string())
                .unwrap_or_else(|| format!("?{}", b.backend_id))
        })
        .collect();
    be.sort();
    let mut uf: Vec<String> = ci
        .udp_frontends
        .iter()
        .map(|f| {
            let addr: SocketAddr = f.address.into();
            UDEF.iter()
                .find(|d| d.1 == f.cluster_id && ad.listener(d.2).1 == addr)
                .map(|d| d.0.to_string())
                .unwrap_or_else(|| format!("?{}", f.cluster_id))
        })
        .collect();
    uf.sort();
    let alt = ci.configuration.as_ref().map(|x| x.https_redirect).unwrap_or(false);
    json!({"ev": "view", "run": run, "c": c, "present": ci.configuration.is_some(), "hc": hc, "hf": hf, "tf": tf, "be": be,
           "uf": uf, "alt": alt})
}

/// Sort every array of a JSON value (sets printed by TLC come in arbitrary order).
pub fn normalise(v: &Value) -> Value {
    match v {
        Value::Array(a) => {
            let mut items: Vec<Value> = a.iter().map(normalise).collect();
            items.sort_by_key(|x| x.to_string());
            Value::Array(items)
        }
        Value::Object(o) => Value::Object(o.iter().map(|(k, x)| (k.clone(), normalise(x))).collect()),
        other => other.clone(),
    }
}

// ---- mock backends ---------------------------------------------------------------------------

/// signature of a PROXY protocol v2 header
pub const PP2_SIG: [u8; 12] = [0x0D, 0x0A, 0x0D, 0x0A, 0x00, 0x0D, 0x0A, 0x51, 0x55, 0x49, 0x54, 0x0A];

/// A mock backend answers `GET ...` with `200` and its id as body, anything else (a line) with
/// `<id>\n`. One thread per backend plus one per connection; stops when dropped.
pub struct MockBackends {
    stop: Arc<AtomicBool>,
    threads: Vec<JoinHandle<()>>,
}

fn serve(mut s: TcpStream, id: String) {
    let _ = s.set_read_timeout(Some(Duration::from_secs(20)));
    let _ = s.set_nodelay(true);
    let mut buf: Vec<u8> = Vec::new();
    let mut tmp = [0u8; 2048];
    // a PROXY protocol v2 header ahead of everything else: remembered, reported as "<id>+pp"
    let mut start = true;
    let mut id = id;
    loop {
        match s.read(&mut tmp) {
            Ok(0) | Err(_) => return,
            Ok(n) => buf.extend_from_slice(&tmp[..n]),
        }
        if start {
            let k = buf.len().min(PP2_SIG.len());
            if buf[..k] == PP2_SIG[..k] {
                if buf.len() < 16 {
                    continue;
                }
                let total = 16 + u16::from_be_bytes([buf[14], buf[15]]) as usize;
                if buf.len() < total {
                    continue;
                }
                buf.drain(..total);
                id = format!("{id}+pp");
            }
            start = false;
        }
        loop {
            if buf.starts_with(b"GET ") || buf.starts_with(b"HEAD ") {
                let Some(end) = buf.windows(4).position(|w| w == b"\r\n\r\n") else { break };
                buf.drain(..end + 4);
                let resp = format!("HTTP/1.1 200 OK\r\nContent-Length: {}\r\nX-Backend: {}\r\n\r\n{}", id.len(), id, id);
                if s.write_all(resp.as_bytes()).is_err() {
                    return;
                }
            } else if let Some(end) = buf.iter().position(|b| *b == b'\n') {
                buf.drain(..end + 1);
                if s.write_all(format!("{id}\n").as_bytes()).is_err() {
                    return;
                }
            } else {
                break;
            }
        }
    }
}

impl MockBackends {
    pub fn start(ad: &Addrs, ids: &[String]) -> MockBackends {
        let stop = Arc::new(AtomicBool::new(false));
        let mut threads = Vec::new();
        for id in ids {
            let addr = ad.backend(id).1;
            let listener = TcpListener::bind(addr).unwrap_or_else(|e| panic!("mock backend {id} cannot bind {addr}: {e}"));
            listener.set_nonblocking(true).expect("nonblocking");
            let stop2 = stop.clone();
            let id2 = id.clone();
            threads.push(std::thread::spawn(move || {
                while !stop2.load(Ordering::Relaxed) {
                    match listener.accept() {
                        Ok((s, _)) => {
                            let _ = s.set_nonblocking(false);
                            let id3 = id2.clone();
                            std::thread::spawn(move || serve(s, id3));
                        }
                        Err(_) => std::thread::sleep(Duration::from_millis(2)),
                    }
                }
            }));
        }
        MockBackends { stop, threads }
    }
}

impl Drop for MockBackends {
    fn drop(&mut self) {
        self.stop.store(true, Ordering::Relaxed);
        for t in self.threads.drain(..) {
            let _ = t.join();
        }
    }
}

// ---- client probes ---------------------------------------------------------------------------

/// One HTTP/1.1 request to `addr` for `host`. Outcome: "refused", "404", "503", "<backend id>",
/// "status:<n>", "hang" (connected, no answer in `wait`), "eof" (closed without an answer).
pub fn http_probe(addr: SocketAddr, host: &str, wait: Duration) -> String {
    let mut s = match TcpStream::connect_timeout(&addr, Duration::from_secs(2)) {
        Ok(s) => s,
        Err(_) => return "refused".to_string(),
    };
    let _ = s.set_nodelay(true);
    let _ = s.set_read_timeout(Some(Duration::from_millis(100)));
    let req = format!("GET / HTTP/1.1\r\nHost: {}\r\nConnection: close\r\n\r\n", hostname(host));
    if s.write_all(req.as_bytes()).is_err() {
        return "eof".to_string();
    }
    let deadline = Instant::now() + wait;
    let mut buf: Vec<u8> = Vec::new();
    let mut tmp = [0u8; 4096];
    loop {
        match s.read(&mut tmp) {
            Ok(0) => break,
            Ok(n) => {
                buf.extend_from_slice(&tmp[..n]);
                if let Some(out) = parse_http(&buf) {
                    return out;
                }
            }
            Err(e) if matches!(e.kind(), std::io::ErrorKind::WouldBlock | std::io::ErrorKind::TimedOut) => {
                if Instant::now() >= deadline {
                    return if buf.is_empty() { "hang".to_string() } else { "partial".to_string() };
                }
            }
            Err(_) => break,
        }
    }
    parse_http(&buf).unwrap_or_else(|| if buf.is_empty() { "eof".to_string() } else { "partial".to_string() })
}

fn parse_http(buf: &[u8]) -> Option<String> {
    let head_end = buf.windows(4).position(|w| w == b"\r\n\r\n")?;
    let head = String::from_utf8_lossy(&buf[..head_end]).to_string();
    let code: u32 = head.split_whitespace().nth(1)?.parse().ok()?;
    match code {
        301 => Some("301".to_string()),
        404 => Some("404".to_string()),
        503 => Some("503".to_string()),
        200 => {
            let cl = head
                .lines()
                .find_map(|l| l.to_ascii_lowercase().strip_prefix("content-length:").map(|v| v.trim().parse::<usize>().ok()))
                .flatten()?;
            let body = &buf[head_end + 4..];
            if body.len() < cl {
                return None;
            }
            Some(String::from_utf8_lossy(&body[..cl]).to_string())
        }
        n => Some(format!("status:{n}")),
    }
}

/// One TCP exchange through a TCP listener: "refused", "closed" (accepted then closed without
/// data), "<backend id>", "hang".
pub fn tcp_probe(addr: SocketAddr, wait: Duration) -> String {
    let mut s = match TcpStream::connect_timeout(&addr, Duration::from_secs(2)) {
        Ok(s) => s,
        Err(_) => return "refused".to_string(),
    };
    let _ = s.set_nodelay(true);
    let _ = s.set_read_timeout(Some(Duration::from_millis(100)));
    let _ = s.write_all(b"PING\n");
    let deadline = Instant::now() + wait;
    let mut buf: Vec<u8> = Vec::new();
    let mut tmp = [0u8; 256];
    loop {
        match s.read(&mut tmp) {
            Ok(0) => return "closed".to_string(),
            Ok(n) => {
                buf.extend_from_slice(&tmp[..n]);
                if let Some(end) = buf.iter().position(|b| *b == b'\n') {
                    return String::from_utf8_lossy(&buf[..end]).to_string();
                }
            }
            Err(e) if matches!(e.kind(), std::io::ErrorKind::WouldBlock | std::io::ErrorKind::TimedOut) => {
                if Instant::now() >= deadline {
                    return "hang".to_string();
                }
            }
            Err(_) => return "closed".to_string(),
        }
    }
}

/// "refused" or "open"
pub fn connect_probe(addr: SocketAddr) -> String {
    match TcpStream::connect_timeout(&addr, Duration::from_secs(2)) {
        Ok(_) => "open".to_string(),
        Err(_) => "refused".to_string(),
    }
}

// ---- SCM socket ------------------------------------------------------------------------------

/// Take everything a worker sent on its SCM socket (ReturnListenSockets / DeactivateListener
/// to_scm) and close every descriptor received, whatever the manifests say. Non-blocking.
/// Returns the number of descriptors closed. (`ScmSocket::receive_listeners` is not used: two
/// manifests written before the first read are coalesced by the stream socket and it then
/// drops the second one together with its descriptors.)
pub fn drain_scm(fd: i32) -> usize {
    let mut closed = 0;
    loop {
        let mut data = [0u8; 8192];
        let mut control = [0u8; 4096];
        let mut iov = libc::iovec { iov_base: data.as_mut_ptr() as *mut libc::c_void, iov_len: data.len() };
        let mut msg: libc::msghdr = unsafe { std::mem::zeroed() };
        msg.msg_iov = &mut iov;
        msg.msg_iovlen = 1;
        msg.msg_control = control.as_mut_ptr() as *mut libc::c_void;
        msg.msg_controllen = control.len() as _;
        let n = unsafe { libc::recvmsg(fd, &mut msg, libc::MSG_DONTWAIT) };
        if n <= 0 {
            return closed;
        }
        unsafe {
            let mut c = libc::CMSG_FIRSTHDR(&msg);
            while !c.is_null() {
                if (*c).cmsg_level == libc::SOL_SOCKET && (*c).cmsg_type == libc::SCM_RIGHTS {
                    let len = ((*c).cmsg_len as usize - libc::CMSG_LEN(0) as usize) / std::mem::size_of::<i32>();
                    let p = libc::CMSG_DATA(c) as *const i32;
                    for i in 0..len {
                        libc::close(std::ptr::read_unaligned(p.add(i)));
                        closed += 1;
                    }
                }
                c = libc::CMSG_NXTHDR(&msg, c);
            }
        }
    }
}

// ---- hook events -----------------------------------------------------------------------------

#[derive(Clone, Debug)]
pub struct CmdEvent {
    pub id: String,
    pub verb: String,
    pub ok: i64,
    pub failure: i64,
    pub processing: i64,
    pub others: i64,
    pub base: i64,
    pub slab: i64,
}

/// Last `loop_idle` hook event of a worker thread (event loop about to sleep).
#[derive(Clone, Copy, Debug)]
pub struct IdleEvent {
    pub slab: i64,
    pub nb: i64,
    pub base: i64,
}

static IDLE: OnceLock<Mutex<HashMap<String, IdleEvent>>> = OnceLock::new();

fn idle_store() -> &'static Mutex<HashMap<String, IdleEvent>> {
    IDLE.get_or_init(|| Mutex::new(HashMap::new()))
}

/// The most recent `loop_idle` snapshot of worker thread `name`, if the tree has that hook.
pub fn last_idle(name: &str) -> Option<IdleEvent> {
    idle_store().lock().unwrap_or_else(|p| p.into_inner()).get(name).copied()
}

pub fn forget_idle(name: &str) {
    idle_store().lock().unwrap_or_else(|p| p.into_inner()).remove(name);
}

static EVENTS: OnceLock<Mutex<HashMap<String, Vec<CmdEvent>>>> = OnceLock::new();

fn store() -> &'static Mutex<HashMap<String, Vec<CmdEvent>>> {
    EVENTS.get_or_init(|| Mutex::new(HashMap::new()))
}

/// Install the process-global sink that files `worker_cmd` events under the emitting thread's
/// name (= the worker's name). Returns false when the tree has no such hook.
pub fn install_cmd_sink() -> bool {
    sozu_lib::verif::install(Box::new(|e| {
        if e.kind == "loop_idle" {
            let num = |k: &str| e.nums.iter().find(|(n, _)| *n == k).map(|(_, v)| *v).unwrap_or(-1);
            let idle = IdleEvent { slab: num("slab"), nb: num("nb"), base: num("base") };
            let mut g = idle_store().lock().unwrap_or_else(|p| p.into_inner());
            g.insert(e.thread.clone(), idle);
            return;
        }
        if e.kind != "worker_cmd" {
            return;
        }
        let num = |k: &str| e.nums.iter().find(|(n, _)| *n == k).map(|(_, v)| *v).unwrap_or(-1);
        let s = |k: &str| e.strs.iter().find(|(n, _)| *n == k).map(|(_, v)| v.clone()).unwrap_or_default();
        let ev = CmdEvent {
            id: s("id"),
            verb: s("verb"),
            ok: num("ok"),
            failure: num("failure"),
            processing: num("processing"),
            others: num("others"),
            base: num("base"),
            slab: num("slab"),
        };
        let mut g = store().lock().unwrap_or_else(|p| p.into_inner());
        g.entry(e.thread.clone()).or_default().push(ev);
    }));
    true
}

/// Take (and forget) the events emitted so far by the worker thread `name`.
pub fn take_events(name: &str) -> Vec<CmdEvent> {
    let mut g = store().lock().unwrap_or_else(|p| p.into_inner());
    g.remove(name).unwrap_or_default()
}

/// A copy of the events emitted so far by the worker thread `name`.
pub fn peek_events(name: &str) -> Vec<CmdEvent> {
    let g = store().lock().unwrap_or_else(|p| p.into_inner());
    g.get(name).cloned().unwrap_or_default()
}

pub fn status_name(status: i32) -> &'static str {
    use sozu_command_lib::proto::command::ResponseStatus;
    if status == ResponseStatus::Ok as i32 {
        "ok"
    } else if status == ResponseStatus::Processing as i32 {
        "processing"
    } else {
        "failure"
    }
}

pub type Probes = BTreeMap<String, BTreeMap<String, String>>;

/// Probe every listener of `listeners` the way the spec's `Probes` does.
pub fn run_probes(ad: &Addrs, listeners: &[String], wait: Duration) -> Probes {
    let mut out = Probes::new();
    for l in listeners {
        let (proto, addr) = ad.listener(l);
        let mut m = BTreeMap::new();
        match proto {
            "http" => {
                for h in HOSTS {
                    m.insert(h.to_string(), http_probe(addr, h, wait));
                }
            }
            "tcp" => {
                m.insert("-".to_string(), tcp_probe(addr, wait));
            }
            "https" => {
                m.insert("-".to_string(), connect_probe(addr));
            }
            _ => {}
        }
        out.insert(l.clone(), m);
    }
    out
}

// ---- OS-level faults: a foreign process holds a listener address --------------------------------

/// The spec's address letter ("A".."E", `LDef[l].addr`) of listener `l`.
pub fn addr_letter(l: &str) -> String {
    let d = LDEF.iter().find(|d| d.0 == l).unwrap_or_else(|| panic!("unknown listener {l}"));
    ((b'A' + d.2 as u8) as char).to_string()
}

/// (listener id, protocol, concrete address) of the spec's address letter.
pub fn addr_of_letter(a: &str, ad: &Addrs) -> (&'static str, &'static str, SocketAddr) {
    let slot = (a.as_bytes().first().copied().unwrap_or(b'A') - b'A') as u16;
    let d = LDEF.iter().find(|d| d.2 == slot).unwrap_or_else(|| panic!("unknown address {a}"));
    (d.0, d.1, ad.slot(d.2))
}

/// A socket of a FOREIGN process on a listener address: a plain std socket, hence without
/// SO_REUSEPORT (spec: Env_HoldAddress). While it lives, sozu's server_bind / udp_bind on the
/// address fail with EADDRINUSE; dropping it is Env_ReleaseAddress.
pub enum Holder {
    Tcp(TcpListener),
    Udp(std::net::UdpSocket),
}

/// Bind the foreign socket on address letter `a` (TCP listener for http/https/tcp listeners, UDP
/// socket for udp listeners). Err = the address is in use (a proxy listener is bound to it).
pub fn hold_address(ad: &Addrs, a: &str) -> Result<Holder, String> {
    let (_, proto, addr) = addr_of_letter(a, ad);
    if proto == "udp" {
        std::net::UdpSocket::bind(addr).map(Holder::Udp).map_err(|e| e.to_string())
    } else {
        TcpListener::bind(addr).map(Holder::Tcp).map_err(|e| e.to_string())
    }
}

/// Is a UDP socket bound to `addr`? "open" (a plain bind is refused) or "refused" (nothing there).
pub fn udp_bound_probe(addr: SocketAddr) -> String {
    match std::net::UdpSocket::bind(addr) {
        Ok(_) => "refused".to_string(),
        Err(_) => "open".to_string(),
    }
}

/// `run_probes` for the fault legs: udp listeners are probed too (is a socket bound?), listeners
/// whose address letter is in `held` (the harness itself is bound there) are left out.
pub fn run_probes_faults(ad: &Addrs, listeners: &[String], wait: Duration, held: &[String]) -> Probes {
    let probed: Vec<String> = listeners.iter().filter(|l| !held.contains(&addr_letter(l))).cloned().collect();
    let mut out = run_probes(ad, &probed, wait);
    for l in &probed {
        let (proto, addr) = ad.listener(l);
        if proto == "udp" {
            let mut m = BTreeMap::new();
            m.insert("-".to_string(), udp_bound_probe(addr));
            out.insert(l.clone(), m);
        }
    }
    out
}

/// Are all addresses of a run (listener slots 0..4, backend slots 5..7) free, TCP and UDP? The
/// fault legs check this before a run: a run of ANOTHER harness process (a concurrent check on
/// the same machine) that happens to use the same loopback IP and port block would look like a
/// foreign process holding addresses the spec knows nothing about.
pub fn addresses_free(ad: &Addrs) -> bool {
    (0..10u16).all(|slot| {
        let addr = ad.slot(slot);
        TcpListener::bind(addr).is_ok() && std::net::UdpSocket::bind(addr).is_ok()
    })
}

/// The addresses of fault run `index`: the first of a few candidates (other loopback IP, other
/// port block) whose addresses are all free; None = give up (the run is skipped, never judged).
pub fn free_addrs_for(index: u64, port: u16) -> Option<Addrs> {
    for t in 0..4u64 {
        let ad = Addrs::for_index(index + t * 100_003, port + (t as u16) * 16);
        if addresses_free(&ad) {
            return Some(ad);
        }
    }
    None
}

// ---- the UDP data path: mock datagram backends, one-datagram probes through udp listeners ---------

/// One UDP socket per backend id, on the backend's address (the TCP mock of the same backend uses
/// the same port number: different name spaces). Everything that arrives is kept with its origin.
pub struct UdpMocks {
    socks: Vec<(String, UdpSocket)>,
    seen: Vec<(String, Vec<u8>)>,
}

impl UdpMocks {
    pub fn start(ad: &Addrs, ids: &[String]) -> UdpMocks {
        let mut socks = Vec::new();
        for id in ids {
            let addr = ad.backend(id).1;
            let s = UdpSocket::bind(addr).unwrap_or_else(|e| panic!("mock udp backend {id} cannot bind {addr}: {e}"));
            s.set_nonblocking(true).expect("nonblocking");
            socks.push((id.clone(), s));
        }
        UdpMocks { socks, seen: Vec::new() }
    }
    fn poll(&mut self) {
        let mut buf = [0u8; 4096];
        for (id, s) in &self.socks {
            while let Ok((n, _)) = s.recv_from(&mut buf) {
                self.seen.push((id.clone(), buf[..n].to_vec()));
            }
        }
    }
}

/// A datagram of a NEW flow sent through a udp listener: fresh client socket on a source address
/// no earlier probe used (flows may be keyed by source ip only), payload unique in the process.
pub struct UdpShot {
    pub l: String,
    payload: Vec<u8>,
    _client: Option<UdpSocket>,
}

static NEXT_SHOT: std::sync::atomic::AtomicU32 = std::sync::atomic::AtomicU32::new(0);

pub fn udp_shoot(ad: &Addrs, l: &str) -> UdpShot {
    let n = NEXT_SHOT.fetch_add(1, Ordering::SeqCst);
    let src = [127, 64 + ((n / 62_500) % 64) as u8, ((n / 250) % 250) as u8, (n % 250) as u8 + 1];
    let payload = format!("probe-{}-{}-{l}", std::process::id(), n).into_bytes();
    let target = ad.listener(l).1;
    let client = UdpSocket::bind(SocketAddr::from((src, 0))).or_else(|_| UdpSocket::bind("127.0.0.1:0")).ok();
    if let Some(c) = &client {
        let _ = c.send_to(&payload, target);
    }
    UdpShot { l: l.to_string(), payload, _client: client }
}

/// What became of each shot: "<backend id>" (arrived verbatim), "<backend id>+pp" (behind a PROXY
/// protocol v2 header), "<backend id>?" (arrived altered) or "drop". A shot the caller expects to be
/// delivered (`expect`) is waited for up to `long`; "drop" is concluded for the others after `grace`
/// - the caller has made a round trip on the command channel since the datagrams were sent, a
/// forwarded datagram has been in the backend's socket since.
pub fn udp_collect(mocks: &mut UdpMocks, shots: &[UdpShot], expect: &[bool], long: Duration, grace: Duration) -> Vec<String> {
    let t0 = Instant::now();
    let mut out: Vec<Option<String>> = vec![None; shots.len()];
    loop {
        mocks.poll();
        for (id, bytes) in mocks.seen.drain(..) {
            let (pp, body) = if bytes.len() >= 16 && bytes[..12] == PP2_SIG {
                let total = 16 + u16::from_be_bytes([bytes[14], bytes[15]]) as usize;
                if bytes.len() >= total { (true, bytes[total..].to_vec()) } else { (true, Vec::new()) }
            } else {
                (false, bytes.clone())
            };
            if let Some(i) = shots.iter().position(|s| s.payload == body) {
                out[i].get_or_insert(if pp { format!("{id}+pp") } else { id.clone() });
            } else if let Some(i) = shots.iter().position(|s| bytes.windows(s.payload.len().min(bytes.len()).max(1)).any(|w| w == &s.payload[..])) {
                out[i].get_or_insert(format!("{id}?"));
            }
            // anything else is a late datagram of an earlier probe
        }
        let el = t0.elapsed();
        let waiting = out.iter().enumerate().any(|(i, o)| o.is_none() && el < if expect.get(i).copied().unwrap_or(false) { long } else { grace });
        if !waiting {
            break;
        }
        std::thread::sleep(Duration::from_millis(1));
    }
    out.into_iter().map(|o| o.unwrap_or_else(|| "drop".to_string())).collect()
}

/// The udp listeners among `listeners`.
pub fn udp_listeners(ad: &Addrs, listeners: &[String]) -> Vec<String> {
    listeners.iter().filter(|l| ad.listener(l).0 == "udp").cloned().collect()
}
