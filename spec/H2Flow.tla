------------------------------- MODULE H2Flow -------------------------------
(***************************************************************************)
(* C14 - sozu respects every HTTP/2 peer limit and keeps transfers moving. *)
(*                                                                         *)
(* SENDER / FLOW-CONTROL view of ONE HTTP/2 connection between sozu and a  *)
(* peer, written from the place where the property is observable: the      *)
(* PEER'S LEDGER.  (spec/H2Conn.tla is the receiver / robustness view of   *)
(* the same connection, property C15.)                                     *)
(*                                                                         *)
(*   Role = "server"  sozu is the server: a TLS/H2 frontend, the peer (a   *)
(*                    client) opens the streams, sozu sends responses      *)
(*   Role = "client"  sozu is the client: an h2c backend connection, sozu  *)
(*                    opens the streams and sends requests                 *)
(*                                                                         *)
(* Code: lib/src/protocol/mux/h2.rs                                        *)
(*   write_streams + converter.rs  -> Sozu_SendHeaders / Sozu_SendCont /   *)
(*                                    Sozu_SendData (budget = min(stream   *)
(*                                    window, connection window), frames   *)
(*                                    cut at peer max_frame_size)          *)
(*   handle_settings_frame +                                               *)
(*   update_initial_window_size    -> Sozu_AckSettings (delta on every     *)
(*                                    stream) / Sozu_RejectSettings        *)
(*   handle_window_update_frame    -> Peer_WindowUpdate (+ error answers)  *)
(*   start_stream / new_stream_id  -> Sozu_SendHeaders on a new stream     *)
(*   handle_data_frame +                                                   *)
(*   queue_window_update + flush   -> Sozu_WindowUpdate                    *)
(*   cancel_timed_out_streams      -> Sozu_Reap (window-stall reaper)      *)
(*                                                                         *)
(* Every action is G_x (guard: what a sozu that respects the peer may do)  *)
(* and E_x (effect on the ledger).  Trace_H2Flow applies the E_x of the    *)
(* frames the harness's raw endpoint really saw, so the properties below   *)
(* are evaluated by TLC on what the implementation did, not on what the    *)
(* guards would have allowed.  The properties never mention the guards.    *)
(***************************************************************************)
EXTENDS Integers, Sequences, FiniteSets, TLC

CONSTANTS
  Role,          \* "server" | "client" (sozu's role on this connection)
  Ids,           \* stream identifiers of the model
  MaxWin,        \* largest legal flow-control window (2^31-1 on the wire)
  ConnInit,      \* initial connection window, both directions (65 535 on the wire)
  Default,       \* peer settings in force before its first SETTINGS is acknowledged
  SettingsVals,  \* settings records the peer may send
  MaxSettings,   \* how many SETTINGS frames the peer sends at most
  Bodies,        \* sizes of the bodies sozu has to send on a stream
  Ups,           \* sizes of the bodies the peer sends on a stream
  Grants,        \* WINDOW_UPDATE increments the peer uses
  HdrLens,       \* sizes of HEADERS / CONTINUATION payloads
  RecvInit,      \* stream window sozu advertises (its SETTINGS_INITIAL_WINDOW_SIZE)
  RecvConn,      \* connection window sozu is configured to advertise (>= ConnInit)
  Reaper,        \* BOOLEAN: the window-stall reaper may fire
  Legal,         \* BOOLEAN: the peer sends only legal WINDOW_UPDATE / SETTINGS
  Resets,        \* BOOLEAN: the peer may give a stream up (RST_STREAM)
  BurstMin,      \* frames a peer must send back to back before deviation LoopBudget can apply
  Deviations     \* open findings switched on (known_findings.json): "LoopBudget", "ResetDropsFrameTail";
                 \* refuted slips (self-test, never on in conformance): "WuWakesFromZeroOnly", "AckWakesFromZeroOnly"

VARIABLES
  pend,      \* settings the peer sent and sozu has not acknowledged yet (FIFO)
  nset,      \* SETTINGS frames the peer has sent
  eff,       \* peer settings in force at this point of sozu's byte stream
  connWin,   \* sozu's connection send window, as the peer accounts it
  strWin,    \* [ids -> Int] sozu's stream send windows, as the peer accounts them
  ids,       \* streams that exist or existed
  sst,       \* [ids -> ...] sozu's sending half: "wait" headers owed, "open", "done" END_STREAM sent, "reset"
  pst,       \* [ids -> ...] the peer's sending half: "idle", "open", "done"; "cancel": the peer reset the stream (RST_STREAM)
  rem,       \* [ids -> Nat] body bytes sozu still has to send
  up,        \* [ids -> Nat] body bytes the peer still has to send
  nextOurs,  \* Role = "client": the lowest identifier sozu may use for its next stream
  lastPeer,  \* Role = "server": the highest identifier the peer has used
  cont,      \* stream whose header block is unfinished (CONTINUATION must follow), 0 if none
  needUpd,   \* the next header block must start with an HPACK dynamic-table-size update
  advInit,   \* stream window sozu advertises for new streams, as the peer knows it
  advConn,   \* the peer's connection send window (what sozu advertised minus what the peer used)
  advStr,    \* [ids -> Int] the peer's stream send windows
  oweConn,   \* bytes the peer sent that sozu has not credited back on the connection
  oweStr,    \* [ids -> Nat] same, per stream
  enl,       \* what is left of the one-off enlargement ConnInit -> RecvConn
  ourSet,    \* sozu's own SETTINGS have been sent
  starved,   \* [ids -> BOOLEAN] the stream has been window-blocked for longer than the stall deadline
  errOwed,   \* subset of ids \cup {0}: illegal peer frames sozu still has to answer (0 = connection)
  dead,      \* sozu sent GOAWAY with an error: the connection is over
  last,      \* ghost: the frame sozu has just put on the wire
  stall,     \* ghost: the observer has just seen sozu silent for its whole deadline
  burst,     \* frames the peer has sent since sozu was last seen idle (counted only under LoopBudget)
  dropped,   \* sozu abandoned the connection (closed it without GOAWAY) while streams were unfinished
  armed      \* sozu's body writer will run: write_streams is EVENT-driven (Ready::WRITABLE is withdrawn when a pass
             \* wrote nothing, finalize_write); every event that reopens a window has to arm it again (arm_writable)

vars == <<pend, nset, eff, connWin, strWin, ids, sst, pst, rem, up, nextOurs, lastPeer, cont, needUpd,
          advInit, advConn, advStr, oweConn, oweStr, enl, ourSet, starved, errOwed, dead, last, stall, burst, dropped, armed>>

-----------------------------------------------------------------------------
Min(a, b) == IF a < b THEN a ELSE b
Max(a, b) == IF a > b THEN a ELSE b
NoFrame == [k |-> "-", sid |-> 0, len |-> 0, upd |-> -1, need |-> FALSE, new |-> FALSE, pre |-> "-", pc |-> 0]
\* pre = sozu's sending half of the stream before the frame ("new" if the stream did not exist), pc = cont before
Pre(s) == IF s \in ids THEN sst[s] ELSE "new"
Frame(k, s, n) == [k |-> k, sid |-> s, len |-> n, upd |-> -1, need |-> FALSE, new |-> FALSE, pre |-> Pre(s), pc |-> cont]
Thr == RecvConn \div 2                   \* connection credit threshold (h2.rs handle_data_frame)

\* w + n would exceed MaxWin (written so that no intermediate value leaves the 32-bit range)
Overflows(w, n) == w > 0 /\ n > MaxWin - w

\* streams that count against MAX_CONCURRENT_STREAMS: open or half-closed
Active == {s \in ids : sst[s] # "reset" /\ pst[s] # "cancel" /\ ~(sst[s] = "done" /\ pst[s] = "done")}
\* streams on which sozu may still send frames
Live(s) == s \in ids /\ sst[s] \in {"wait", "open"}
Blocked(s) == s \in ids /\ sst[s] = "open" /\ rem[s] > 0 /\ Min(strWin[s], connWin) <= 0

Init ==
  /\ pend = <<>> /\ nset = 0 /\ eff = Default
  /\ connWin = ConnInit /\ strWin = <<>>
  /\ ids = {} /\ sst = <<>> /\ pst = <<>> /\ rem = <<>> /\ up = <<>>
  /\ nextOurs = 1 /\ lastPeer = 0 /\ cont = 0 /\ needUpd = FALSE
  /\ advInit = ConnInit /\ advConn = ConnInit /\ advStr = <<>>
  /\ oweConn = 0 /\ oweStr = <<>> /\ enl = RecvConn - ConnInit /\ ourSet = FALSE
  /\ starved = <<>> /\ errOwed = {} /\ dead = FALSE
  /\ last = NoFrame /\ stall = FALSE /\ burst = 0 /\ dropped = FALSE /\ armed = TRUE

\* a new stream s enters every per-stream function
NewStream(s, ss, ps, b, u) ==
  /\ ids' = ids \cup {s}
  /\ sst' = sst @@ (s :> ss) /\ pst' = pst @@ (s :> ps)
  /\ rem' = rem @@ (s :> b) /\ up' = up @@ (s :> u)
  /\ strWin' = strWin @@ (s :> eff.initWin)
  /\ advStr' = advStr @@ (s :> advInit)
  /\ oweStr' = oweStr @@ (s :> 0)
  /\ starved' = starved @@ (s :> FALSE)

\* a frame from the peer: no sozu frame in this step; the burst grows (only tracked under LoopBudget)
\* (a = whether sozu's writer is armed afterwards)
QuietA(a) == /\ last' = NoFrame /\ stall' = FALSE /\ UNCHANGED dropped /\ armed' = a
             /\ burst' = (IF "LoopBudget" \in Deviations THEN Min(burst + 1, BurstMin) ELSE 0)
Quiet == QuietA(armed)
\* a frame from sozu
SaidA(f, a) == last' = f /\ stall' = FALSE /\ UNCHANGED <<burst, dropped>> /\ armed' = a
Said(f) == SaidA(f, armed)

\* The writer of sozu is event-driven.  A pass of write_streams that finds no stream with something it may send
\* (body bytes inside min(stream window, connection window), or the END_STREAM of a finished body) withdraws
\* Ready::WRITABLE: the writer is parked (Sozu_Park).  From then on only an EVENT starts it again, so every event
\* that takes a send window from "closed" (<= 0: exhausted, or NEGATIVE after a SETTINGS_INITIAL_WINDOW_SIZE
\* decrease under in-flight data, RFC 9113 6.9.2) to "open" (> 0) must arm it: a peer WINDOW_UPDATE
\* (handle_window_update_frame), an acknowledged SETTINGS increase (update_initial_window_size).  Refuted slips:
\* the condition written as "the window WAS ZERO" - right for every schedule in which windows only run down to 0,
\* wrong as soon as one went negative (the transfer then stalls for ever although the peer granted credit).
CanWrite(s) == s \in ids /\ sst[s] = "open" /\ (rem[s] = 0 \/ Min(strWin[s], connWin) > 0)
Reopens(dev, before, after) == after > 0 /\ (IF dev \in Deviations THEN before = 0 ELSE before <= 0)

-----------------------------------------------------------------------------
(* The peer *)

\* SETTINGS sent by the peer: in force only once sozu acknowledges it
G_PeerSettings(v) == nset < MaxSettings
E_PeerSettings(v) ==
  /\ pend' = Append(pend, v) /\ nset' = nset + 1 /\ Quiet
  /\ UNCHANGED <<eff, connWin, strWin, ids, sst, pst, rem, up, nextOurs, lastPeer, cont, needUpd, advInit,
                 advConn, advStr, oweConn, oweStr, enl, ourSet, starved, errOwed, dead>>
Peer_Settings(v) == G_PeerSettings(v) /\ E_PeerSettings(v)

\* Role = "server": the peer opens stream s; sozu owes b bytes of response body, the peer sends u bytes
G_PeerOpen(s, b, u) == Role = "server" /\ ~dead /\ s \notin ids /\ s > lastPeer /\ s % 2 = 1
E_PeerOpen(s, b, u) ==
  /\ NewStream(s, "wait", IF u = 0 THEN "done" ELSE "open", b, u)
  /\ lastPeer' = s /\ Quiet
  /\ UNCHANGED <<pend, nset, eff, connWin, nextOurs, cont, needUpd, advInit, advConn, oweConn, enl, ourSet,
                 errOwed, dead>>
Peer_Open(s, b, u) == G_PeerOpen(s, b, u) /\ E_PeerOpen(s, b, u)

\* Role = "client": the peer starts answering stream s with u bytes of body
G_PeerRespond(s, u) == Role = "client" /\ s \in ids /\ pst[s] = "idle" /\ sst[s] # "reset"
E_PeerRespond(s, u) ==
  /\ pst' = [pst EXCEPT ![s] = IF u = 0 THEN "done" ELSE "open"]
  /\ up' = [up EXCEPT ![s] = u] /\ Quiet
  /\ UNCHANGED <<pend, nset, eff, connWin, strWin, ids, sst, rem, nextOurs, lastPeer, cont, needUpd, advInit,
                 advConn, advStr, oweConn, oweStr, enl, ourSet, starved, errOwed, dead>>
Peer_Respond(s, u) == G_PeerRespond(s, u) /\ E_PeerRespond(s, u)

\* WINDOW_UPDATE from the peer (x = 0: connection).  An increment of 0 or one that would push a window past
\* MaxWin is illegal: the window is unchanged and sozu owes an error (GOAWAY for the connection,
\* RST_STREAM for a stream); see h2.rs handle_window_update_frame.
WuIllegal(x, n) == n = 0 \/ (IF x = 0 THEN Overflows(connWin, n) ELSE x \in ids /\ Overflows(strWin[x], n))
G_PeerWindowUpdate(x, n) == (x = 0 \/ x \in ids) /\ n >= 0 /\ (Legal => ~WuIllegal(x, n))
E_PeerWindowUpdate(x, n) ==
  /\ IF WuIllegal(x, n)
     THEN /\ errOwed' = (IF x = 0 \/ Live(x) THEN errOwed \cup {x} ELSE errOwed)
          /\ UNCHANGED <<connWin, strWin>>
     ELSE /\ connWin' = (IF x = 0 THEN connWin + n ELSE connWin)
          /\ strWin' = (IF x = 0 THEN strWin ELSE [strWin EXCEPT ![x] = @ + n])
          /\ UNCHANGED errOwed
  /\ QuietA(armed \/ (~WuIllegal(x, n) /\ IF x = 0 THEN Reopens("ConnWuWakesFromZeroOnly", connWin, connWin + n)
                                                   ELSE x \in ids /\ Reopens("WuWakesFromZeroOnly", strWin[x], strWin[x] + n)))
  /\ UNCHANGED <<pend, nset, eff, ids, sst, pst, rem, up, nextOurs, lastPeer, cont, needUpd, advInit, advConn,
                 advStr, oweConn, oweStr, enl, ourSet, starved, dead>>
Peer_WindowUpdate(x, n) == G_PeerWindowUpdate(x, n) /\ E_PeerWindowUpdate(x, n)

\* DATA from the peer: a legal peer stays inside the windows sozu advertised.  n is the flow-controlled
\* length (padding included), b the body bytes in it.  sozu credits the connection for every byte and the
\* stream for every frame that does not end the stream.
G_PeerSendData(s, n, b, es) ==
  /\ s \in ids /\ pst[s] = "open" /\ b >= 0 /\ b <= n /\ b <= up[s] /\ (es <=> b = up[s]) /\ (n = 0 => es)
  /\ n <= advStr[s] /\ n <= advConn
E_PeerSendData(s, n, b, es) ==
  /\ up' = [up EXCEPT ![s] = @ - b]
  /\ pst' = [pst EXCEPT ![s] = IF es THEN "done" ELSE @]
  /\ advStr' = [advStr EXCEPT ![s] = @ - n] /\ advConn' = advConn - n
  /\ oweConn' = oweConn + n
  /\ oweStr' = [oweStr EXCEPT ![s] = IF es THEN @ ELSE @ + n]
  /\ Quiet
  /\ UNCHANGED <<pend, nset, eff, connWin, strWin, ids, sst, rem, nextOurs, lastPeer, cont, needUpd, advInit,
                 enl, ourSet, starved, errOwed, dead>>
Peer_SendData(s, n, es) == G_PeerSendData(s, n, n, es) /\ E_PeerSendData(s, n, n, es)

\* the observer's clock: stream s has been window-blocked for longer than the stall deadline without the
\* progress that clears it (FC_STALL_CLEAR_FLOOR); from now on the reaper may cancel it
G_PeerStarve(s) == Reaper /\ Blocked(s)
E_PeerStarve(s) ==
  /\ starved' = [starved EXCEPT ![s] = TRUE] /\ Quiet
  /\ UNCHANGED <<pend, nset, eff, connWin, strWin, ids, sst, pst, rem, up, nextOurs, lastPeer, cont, needUpd,
                 advInit, advConn, advStr, oweConn, oweStr, enl, ourSet, errOwed, dead>>
Peer_Starve(s) == G_PeerStarve(s) /\ E_PeerStarve(s)

\* RST_STREAM from the peer: it gives the stream up.  sozu owes nothing more on it; frames of the stream that were
\* already on their way may still arrive (they obey the windows like any other), so sozu's half is left as it is.
G_PeerRst(s) == Resets /\ s \in ids /\ sst[s] # "reset" /\ pst[s] # "cancel"
E_PeerRst(s) ==
  /\ pst' = [pst EXCEPT ![s] = "cancel"] /\ up' = [up EXCEPT ![s] = 0] /\ Quiet
  /\ UNCHANGED <<pend, nset, eff, connWin, strWin, ids, sst, rem, nextOurs, lastPeer, cont, needUpd, advInit, advConn,
                 advStr, oweConn, oweStr, enl, ourSet, starved, errOwed, dead>>
Peer_Rst(s) == G_PeerRst(s) /\ E_PeerRst(s)
\* ... and it did so while sozu was in the middle of that stream's body
CutMidBody == \E s \in ids : pst[s] = "cancel" /\ sst[s] = "open" /\ rem[s] > 0

-----------------------------------------------------------------------------
(* sozu *)

\* sozu's own SETTINGS (first frame it sends): the stream window it advertises
G_SozuSettings(w) == ~ourSet /\ cont = 0 /\ w >= 0 /\ w <= MaxWin
E_SozuSettings(w) ==
  /\ ourSet' = TRUE /\ advInit' = w
  /\ advStr' = [s \in ids |-> advStr[s] + (w - advInit)]
  /\ Said(NoFrame)
  /\ UNCHANGED <<pend, nset, eff, connWin, strWin, ids, sst, pst, rem, up, nextOurs, lastPeer, cont, needUpd,
                 advConn, oweConn, oweStr, enl, starved, errOwed, dead>>
Sozu_Settings(w) == G_SozuSettings(w) /\ E_SozuSettings(w)

\* SETTINGS ACK: from this point of sozu's byte stream the oldest pending settings are in force.  The
\* difference of the initial window is applied to every stream sozu may still send on; that may make
\* windows negative (RFC 9113 6.9.2).  A change that would push a stream window past MaxWin must be
\* refused with a connection error instead.
AckOverflows == \E s \in ids : Live(s) /\ Head(pend).initWin > eff.initWin
                               /\ Overflows(strWin[s], Head(pend).initWin - eff.initWin)
G_SozuAck == pend # <<>> /\ cont = 0 /\ ~dead /\ ~AckOverflows
E_SozuAck ==
  LET v == Head(pend)
      d == v.initWin - eff.initWin
  IN /\ pend' = Tail(pend) /\ eff' = v
     /\ strWin' = [s \in ids |-> IF Live(s) THEN strWin[s] + d ELSE strWin[s]]
     /\ needUpd' = (needUpd \/ v.tbl < eff.tbl)
     /\ SaidA(Frame("A", 0, 0), armed \/ \E s \in ids : Live(s) /\ Reopens("AckWakesFromZeroOnly", strWin[s], strWin[s] + d))
     /\ UNCHANGED <<nset, connWin, ids, sst, pst, rem, up, nextOurs, lastPeer, cont, advInit, advConn, advStr,
                    oweConn, oweStr, enl, ourSet, starved, errOwed, dead>>
Sozu_AckSettings == G_SozuAck /\ E_SozuAck

\* GOAWAY with an error code: answer to an illegal SETTINGS / connection-level WINDOW_UPDATE
G_SozuGoaway == ~dead /\ cont = 0 /\ (0 \in errOwed \/ (pend # <<>> /\ AckOverflows))
E_SozuGoaway ==
  /\ dead' = TRUE /\ errOwed' = {} /\ pend' = <<>>
  /\ Said(Frame("G", 0, 0))
  /\ UNCHANGED <<nset, eff, connWin, strWin, ids, sst, pst, rem, up, nextOurs, lastPeer, cont, needUpd, advInit,
                 advConn, advStr, oweConn, oweStr, enl, ourSet, starved>>
Sozu_Goaway == G_SozuGoaway /\ E_SozuGoaway

\* RST_STREAM from sozu: the answer to an illegal stream WINDOW_UPDATE, or the window-stall reaper
G_SozuRst(s) == Live(s) /\ ~dead /\ cont = 0 /\ (s \in errOwed \/ (Reaper /\ starved[s]))
E_SozuRst(s) ==
  /\ sst' = [sst EXCEPT ![s] = "reset"] /\ errOwed' = errOwed \ {s}
  /\ UNCHANGED cont
  /\ Said(Frame("R", s, 0))
  /\ UNCHANGED <<pend, nset, eff, connWin, strWin, ids, pst, rem, up, nextOurs, lastPeer, needUpd, advInit,
                 advConn, advStr, oweConn, oweStr, enl, ourSet, starved, dead>>
Sozu_Rst(s) == G_SozuRst(s) /\ E_SozuRst(s)

\* HEADERS.  Role = "server": the response head of a stream the peer opened.  Role = "client": sozu opens
\* a new stream (b = request body size): identifiers odd and increasing, never more open streams than the
\* peer allows.  n = payload length, eh = END_HEADERS, es = END_STREAM, upd = value of the HPACK
\* dynamic-table-size update the block starts with (-1: none).
HdrCommon(n, upd) ==
  /\ ~dead /\ cont = 0 /\ n >= 0 /\ n <= eff.maxFrame
  /\ (needUpd => upd >= 0) /\ upd <= eff.tbl
G_SozuHeaders(s, b, n, eh, es, upd) ==
  /\ HdrCommon(n, upd)
  /\ IF Role = "server"
     THEN s \in ids /\ sst[s] = "wait" /\ b = rem[s]
     ELSE s \notin ids /\ s = nextOurs /\ Cardinality(Active) < eff.maxStreams
  /\ es => b = 0
E_SozuHeaders(s, b, n, eh, es, upd) ==
  /\ IF s \in ids
     THEN /\ sst' = [sst EXCEPT ![s] = IF es THEN "done" ELSE "open"]
          /\ UNCHANGED <<ids, pst, rem, up, strWin, advStr, oweStr, starved, nextOurs>>
     ELSE /\ NewStream(s, IF es THEN "done" ELSE "open", "idle", b, 0)
          /\ nextOurs' = s + 2
  /\ cont' = (IF eh THEN 0 ELSE s)
  /\ needUpd' = (needUpd /\ upd < 0)
  /\ SaidA([k |-> "H", sid |-> s, len |-> n, upd |-> upd, need |-> needUpd, new |-> s \notin ids, pre |-> Pre(s), pc |-> cont],
           TRUE)      \* a head arrived from the other side of the proxy: the writer is running
  /\ UNCHANGED <<pend, nset, eff, connWin, lastPeer, advInit, advConn, oweConn, enl, ourSet, errOwed, dead>>
Sozu_SendHeaders(s, b, n, eh, es, upd) == G_SozuHeaders(s, b, n, eh, es, upd) /\ E_SozuHeaders(s, b, n, eh, es, upd)

G_SozuCont(s, n, eh) == ~dead /\ cont # 0 /\ s = cont /\ n >= 0 /\ n <= eff.maxFrame
E_SozuCont(s, n, eh) ==
  /\ cont' = (IF eh THEN 0 ELSE cont)
  /\ Said(Frame("C", s, n))
  /\ UNCHANGED <<pend, nset, eff, connWin, strWin, ids, sst, pst, rem, up, nextOurs, lastPeer, needUpd, advInit,
                 advConn, advStr, oweConn, oweStr, enl, ourSet, starved, errOwed, dead>>
Sozu_SendCont(s, n, eh) == G_SozuCont(s, n, eh) /\ E_SozuCont(s, n, eh)

\* DATA: n flow-controlled bytes (padding included).  converter.rs: a chunk is cut at
\* min(max_frame_size, window) where window = min(stream window, connection window); nothing is sent at a
\* window <= 0.  A zero-length DATA is not flow-controlled; sozu only sends one to carry END_STREAM.
G_SozuData(s, n, es) ==
  /\ ~dead /\ cont = 0 /\ s \in ids /\ sst[s] = "open"
  /\ n >= 0 /\ n <= rem[s] /\ (es => n = rem[s]) /\ (n = 0 => es)
  /\ (n = 0 \/ (n <= strWin[s] /\ n <= connWin /\ n <= eff.maxFrame))
E_SozuData(s, n, es) ==
  /\ rem' = [rem EXCEPT ![s] = Max(0, @ - n)]
  /\ strWin' = [strWin EXCEPT ![s] = @ - n] /\ connWin' = connWin - n
  /\ sst' = [sst EXCEPT ![s] = IF es THEN "done" ELSE @]
  /\ Said(Frame("D", s, n))
  /\ UNCHANGED <<pend, nset, eff, ids, pst, up, nextOurs, lastPeer, cont, needUpd, advInit, advConn, advStr,
                 oweConn, oweStr, enl, ourSet, starved, errOwed, dead>>
Sozu_SendData(s, n, es) == armed /\ G_SozuData(s, n, es) /\ E_SozuData(s, n, es)

\* a pass of the writer that finds nothing it may send parks it (finalize_write withdraws Ready::WRITABLE)
\* (only worth a state where it matters: some stream is window-blocked; a head that opens a stream arms the writer anyway)
G_SozuPark == armed /\ ~dead /\ (\A s \in ids : ~CanWrite(s)) /\ \E s \in ids : Blocked(s)
E_SozuPark ==
  /\ armed' = FALSE /\ last' = NoFrame /\ stall' = FALSE /\ UNCHANGED <<burst, dropped>>
  /\ UNCHANGED <<pend, nset, eff, connWin, strWin, ids, sst, pst, rem, up, nextOurs, lastPeer, cont, needUpd, advInit,
                 advConn, advStr, oweConn, oweStr, enl, ourSet, starved, errOwed, dead>>
Sozu_Park == G_SozuPark /\ E_SozuPark

\* WINDOW_UPDATE from sozu.  Connection (x = 0): the one-off enlargement ConnInit -> RecvConn and/or a
\* credit of everything received since the last one, once that reaches half the configured window
\* (both may be coalesced into one frame).  Stream: what was received on it and not credited yet
\* (coalesced per stream).  Never zero, never beyond what was received, never past MaxWin.
ConnSplit(n) == {e \in {0, enl} : LET c == n - e IN c = 0 \/ (c >= Thr /\ c <= oweConn)}
G_SozuWindowUpdate(x, n) ==
  /\ n > 0 /\ cont = 0
  /\ IF x = 0 THEN ConnSplit(n) # {} /\ ~Overflows(advConn, n)
     ELSE x \in ids /\ n <= oweStr[x] /\ ~Overflows(advStr[x], n)
E_SozuWindowUpdate(x, n) ==
  /\ IF x = 0
     THEN LET e == IF enl \in ConnSplit(n) THEN enl ELSE 0 IN
          /\ advConn' = advConn + n /\ enl' = enl - e /\ oweConn' = Max(0, oweConn - (n - e))
          /\ UNCHANGED <<advStr, oweStr>>
     ELSE /\ advStr' = [advStr EXCEPT ![x] = @ + n]
          /\ oweStr' = [oweStr EXCEPT ![x] = Max(0, @ - n)]
          /\ UNCHANGED <<advConn, enl, oweConn>>
  /\ Said(Frame("W", x, n))
  /\ UNCHANGED <<pend, nset, eff, connWin, strWin, ids, sst, pst, rem, up, nextOurs, lastPeer, cont, needUpd,
                 advInit, ourSet, starved, errOwed, dead>>
Sozu_WindowUpdate(x, n) == G_SozuWindowUpdate(x, n) /\ E_SozuWindowUpdate(x, n)

-----------------------------------------------------------------------------
(* What a fair sozu behind a prompt origin still has to do.  The observer (a peer that waited a whole,
   generous deadline without seeing a frame) may report a stall only when nothing is owed. *)
SozuOwes ==
  \/ pend # <<>> /\ ~dead
  \/ ~dead /\ \E x \in errOwed : x = 0 \/ Live(x)
  \/ ~ourSet
  \/ ~dead /\ cont # 0
  \/ ~dead /\ \E s \in ids :
       \/ sst[s] = "wait" /\ pst[s] = "done"                                  \* response head
       \/ sst[s] = "open" /\ pst[s] # "cancel" /\ (rem[s] = 0 \/ Min(strWin[s], connWin) > 0)   \* body / END_STREAM
  \/ ~dead /\ (enl > 0 \/ (oweConn >= Thr /\ Thr > 0))
  \/ ~dead /\ \E s \in ids : pst[s] = "open" /\ up[s] > 0 /\ oweStr[s] > 0

G_Stall == ~SozuOwes
E_Stall == stall' = TRUE /\ last' = NoFrame /\ UNCHANGED <<burst, dropped, armed>>
           /\ UNCHANGED <<pend, nset, eff, connWin, strWin, ids, sst, pst, rem, up, nextOurs, lastPeer, cont,
                          needUpd, advInit, advConn, advStr, oweConn, oweStr, enl, ourSet, starved, errOwed, dead>>
Env_Stall == G_Stall /\ ~stall /\ E_Stall

\* the observer saw sozu idle: it answered a PING sent after the peer's last frame and owes nothing
G_Idle == ~SozuOwes
E_Idle == burst' = 0 /\ last' = NoFrame /\ stall' = FALSE /\ UNCHANGED <<dropped, armed>>
          /\ UNCHANGED <<pend, nset, eff, connWin, strWin, ids, sst, pst, rem, up, nextOurs, lastPeer, cont,
                         needUpd, advInit, advConn, advStr, oweConn, oweStr, enl, ourSet, starved, errOwed, dead>>
Env_Idle == G_Idle /\ burst > 0 /\ E_Idle

\* Everything is finished: all streams fully sent and answered, or reset with a reason
Finished == \A s \in ids : \/ sst[s] = "reset" \/ pst[s] = "cancel"
                           \/ sst[s] = "done" /\ rem[s] = 0 /\ pst[s] = "done"

\* sozu closes the connection.  Fine once it is dead (GOAWAY) or everything is finished.
\* Deviation LoopBudget (open finding): Mux::ready gives a session 10 000 loop iterations per wake-up and
\* closes it - without GOAWAY - when they are used up; every frame of the peer costs about two, so a legal
\* peer that sends a few thousand small frames back to back (1-byte DATA, WINDOW_UPDATE +1) is cut off.
G_SozuClose == dead \/ Finished \/ ("LoopBudget" \in Deviations /\ burst >= BurstMin)
E_SozuClose ==
  /\ dropped' = (dropped \/ ~(dead \/ Finished))
  /\ dead' = TRUE /\ errOwed' = {} /\ pend' = <<>>
  /\ last' = NoFrame /\ stall' = FALSE /\ UNCHANGED <<burst, armed>>
  /\ UNCHANGED <<nset, eff, connWin, strWin, ids, sst, pst, rem, up, nextOurs, lastPeer, cont, needUpd, advInit,
                 advConn, advStr, oweConn, oweStr, enl, ourSet, starved>>
Sozu_Close == G_SozuClose /\ ~dead /\ E_SozuClose

\* Deviation ResetDropsFrameTail (open finding): the peer resets a stream while the socket is blocked in the middle of
\* one of that stream's frames; remove_dead_stream forgets the half-written frame (expect_write = None, the stream's
\* buffer is recycled), its remaining bytes never go out and whatever sozu writes next is read by the peer as the
\* rest of that frame: the framing of the whole connection is lost (spec/H2Wire.tla, Peer_Reset).
G_SozuGarble == "ResetDropsFrameTail" \in Deviations /\ CutMidBody
E_SozuGarble ==
  /\ last' = [NoFrame EXCEPT !.k = "Z"] /\ stall' = FALSE /\ UNCHANGED <<burst, dropped, armed>>
  /\ UNCHANGED <<pend, nset, eff, connWin, strWin, ids, sst, pst, rem, up, nextOurs, lastPeer, cont, needUpd, advInit,
                 advConn, advStr, oweConn, oweStr, enl, ourSet, starved, errOwed, dead>>
Sozu_Garble == G_SozuGarble /\ E_SozuGarble

-----------------------------------------------------------------------------
HdrArgs == {<<n, eh, upd>> : n \in HdrLens, eh \in BOOLEAN, upd \in {-1} \cup {v.tbl : v \in SettingsVals}}

SozuNext ==
  \/ Sozu_Settings(RecvInit)
  \/ Sozu_AckSettings
  \/ Sozu_Goaway
  \/ \E s \in Ids : Sozu_Rst(s)
  \/ \E s \in Ids, b \in Bodies, a \in HdrArgs, es \in BOOLEAN : Sozu_SendHeaders(s, b, a[1], a[2], es, a[3])
  \/ \E n \in HdrLens : Sozu_SendCont(cont, n, TRUE)
  \/ \E s \in Ids, n \in 0..MaxWin, es \in BOOLEAN : Sozu_SendData(s, n, es)
  \/ \E x \in Ids \cup {0}, n \in 1..MaxWin : Sozu_WindowUpdate(x, n)
  \/ ("LoopBudget" \in Deviations /\ ~Finished /\ Sozu_Close)
  \/ Sozu_Garble

PeerNext ==
  \/ \E v \in SettingsVals : Peer_Settings(v)
  \/ \E s \in Ids, b \in Bodies, u \in Ups : Peer_Open(s, b, u)
  \/ \E s \in Ids, u \in Ups : Peer_Respond(s, u)
  \/ \E x \in Ids \cup {0}, n \in Grants : Peer_WindowUpdate(x, n)
  \/ \E s \in Ids, n \in 0..MaxWin, es \in BOOLEAN : Peer_SendData(s, n, es)
  \/ \E s \in Ids : Peer_Starve(s)
  \/ \E s \in Ids : Peer_Rst(s)

Next == SozuNext \/ PeerNext \/ Env_Stall \/ Env_Idle \/ Sozu_Park
Spec == Init /\ [][Next]_vars

-----------------------------------------------------------------------------
(* P_C14, safety.  None of these mentions a guard. *)
SettingsOK(v) == v.initWin \in 0..MaxWin /\ v.maxFrame \in Nat /\ v.maxStreams \in Nat /\ v.tbl \in Nat

TypeOK ==
  /\ SettingsOK(eff) /\ \A i \in 1..Len(pend) : SettingsOK(pend[i])
  /\ ids \subseteq Ids /\ DOMAIN strWin = ids /\ DOMAIN sst = ids /\ DOMAIN rem = ids
  /\ \A s \in ids : sst[s] \in {"wait", "open", "done", "reset"} /\ pst[s] \in {"idle", "open", "done", "cancel"}
                    /\ rem[s] \in Nat /\ up[s] \in Nat /\ oweStr[s] \in Nat
  /\ connWin <= MaxWin /\ \A s \in ids : strWin[s] <= MaxWin
  /\ cont \in ids \cup {0} /\ errOwed \subseteq ids \cup {0}
  /\ oweConn \in Nat /\ enl \in Nat /\ armed \in BOOLEAN

\* Flow control (RFC 9113 6.9.1, 6.9.2): a DATA frame never takes a window below zero.  A window can only
\* be negative through a SETTINGS change (the step that changes eff), never through DATA.  Stated twice: on
\* the state right after a DATA frame, and as a step property that does not look at `last`.
P_C14_Windows == last.k = "D" /\ last.len > 0 => connWin >= 0 /\ (last.sid \in ids => strWin[last.sid] >= 0)
P_C14_WindowSteps ==
  [][ eff' = eff =>
        /\ (connWin' < connWin => connWin' >= 0)
        /\ \A s \in ids \cap ids' : strWin'[s] < strWin[s] => strWin'[s] >= 0 ]_vars
\* ... and a new stream starts with the initial window in force
P_C14_NewStreamWindow == last.new /\ last.sid \in ids => strWin[last.sid] = eff.initWin

\* Frame size (RFC 9113 4.2): every DATA / HEADERS / CONTINUATION payload - and whatever else the peer reads
\* as a frame header ("X": the trace validator's name for a frame of any other type) - fits the maximum
\* frame size in force at that point of sozu's byte stream
P_C14_FrameSize == last.k \in {"D", "H", "C", "X"} => last.len <= eff.maxFrame

\* Framing integrity (RFC 9113 4.1): sozu's byte stream is a sequence of WHOLE frames.  Whatever the peer reads at a
\* frame boundary is a frame sozu meant to send, and a DATA payload holds relayed body bytes only.  "Z" is the trace
\* validator's name for what no frame of sozu explains: a frame header of an unknown type, foreign bytes inside a
\* DATA payload - what the peer sees when a control frame (WINDOW_UPDATE, RST_STREAM, PING / SETTINGS ACK, GOAWAY) was
\* written INSIDE a half-written stream frame; an oversized "X" header is the same thing seen 9 bytes later.  No
\* action of this module produces "Z": spec/H2Wire.tla (the writer of the connection: partial writes, the zero
\* buffer, the queues of the read path) shows why the code never does, and which slips do.
P_C14_WholeFrames == last.k # "Z" /\ (last.k = "X" => last.len <= eff.maxFrame)

\* Concurrency (RFC 9113 5.1.2) and identifiers (5.1.1) of the streams sozu opens
P_C14_MaxStreams == Role = "client" /\ last.new => Cardinality(Active) <= eff.maxStreams
P_C14_StreamIds ==
  Role = "client" /\ last.new => last.sid % 2 = 1 /\ last.sid > 0 /\ \A t \in ids \ {last.sid} : t < last.sid

\* HPACK (RFC 7541 4.2, 6.3): a table-size update never exceeds the peer's SETTINGS_HEADER_TABLE_SIZE, and
\* the first header block after an acknowledged reduction starts with one
P_C14_Hpack == last.k = "H" => last.upd <= eff.tbl /\ (last.need => last.upd >= 0)

\* no DATA / HEADERS on a stream after its END_STREAM / RST_STREAM; a header block is contiguous: while one
\* is unfinished the only frame sozu may send is its CONTINUATION (RFC 9113 6.10)
P_C14_StreamStates ==
  /\ (last.k = "H" => last.pre \in {"wait", "open", "new"})
  /\ (last.k = "D" => last.pre = "open")
  /\ (last.pc # 0 /\ last.k # "-" => last.k = "C" /\ last.sid = last.pc)
  /\ (last.k = "C" => last.pc # 0)

\* sozu's own windows: it never advertises more than MaxWin, never credits with a zero increment
P_C14_OwnWindows ==
  /\ advConn <= MaxWin /\ \A s \in ids : advStr[s] <= MaxWin
  /\ last.k = "W" => last.len > 0

\* progress, made observable: sozu is never silent for a whole observation deadline while it owes a frame
P_C14_Progress == stall => ~SozuOwes

\* a connection with unfinished streams is never abandoned (closed without the GOAWAY an illegal peer earns)
P_C14_NeverDropped == ~dropped

\* the writer is never parked while a stream has something it may send: whatever reopened the window armed it.
\* (Model level.  In the implementation `armed` is not visible: there the same thing is the Stall event judged by
\* P_C14_Progress - sozu silent, although the worker has handled every frame of the peer, while the ledger says
\* it may send.)
P_C14_WriterAwake == ~dead => \A s \in ids : CanWrite(s) /\ pst[s] # "cancel" => armed

\* vacuity guard of the above: whatever is owed can be done
P_C14_OwedIsEnabled == SozuOwes => ENABLED SozuNext

-----------------------------------------------------------------------------
(* P_C14, liveness (MC_H2Flow_live.cfg; Reaper = FALSE, Legal = TRUE): under a peer that eventually
   grants window to a blocked stream, every body is sent completely; and sozu replenishes its own windows,
   so the peer is never permanently unable to send. *)
PeerGrantsBlocked ==
  \E s \in ids, n \in Grants :
    /\ Blocked(s)
    /\ \/ strWin[s] <= 0 /\ Peer_WindowUpdate(s, n)
       \/ strWin[s] > 0 /\ connWin <= 0 /\ Peer_WindowUpdate(0, n)
PeerSends == \E s \in Ids, n \in 0..MaxWin, es \in BOOLEAN : Peer_SendData(s, n, es)
PeerResponds == \E s \in Ids, u \in Ups : Peer_Respond(s, u)

FairSpec == Spec /\ WF_vars(SozuNext) /\ WF_vars(PeerGrantsBlocked) /\ WF_vars(PeerSends) /\ WF_vars(PeerResponds)
                 /\ \A s \in Ids : WF_vars(\E n \in 0..MaxWin, es \in BOOLEAN : Sozu_SendData(s, n, es))
                 /\ WF_vars(\E x \in Ids \cup {0}, n \in 1..MaxWin : Sozu_WindowUpdate(x, n))
                 /\ WF_vars(Sozu_AckSettings)

SentAll(s) == s \in ids /\ sst[s] = "done" /\ rem[s] = 0
PeerOpen(s) == s \in ids /\ pst[s] = "open"
PeerDone(s) == s \in ids /\ pst[s] \in {"done", "cancel"}
PeerGaveUp(s) == s \in ids /\ pst[s] = "cancel"
P_C14_BodiesComplete == \A s \in Ids : [](s \in ids => <>(SentAll(s) \/ dead \/ PeerGaveUp(s)))
P_C14_PeerNeverStuck == \A s \in Ids : [](PeerOpen(s) => <>(PeerDone(s) \/ dead))
=============================================================================
