SPECIFICATION Spec
CONSTANTS
  MaxFronts = 2
  Deviations = {}
  Emit = FALSE
INVARIANTS TypeOK P_C04_CodeWithinDoc P_C04_OnlyConfigured P_C04_NonMatchingIrrelevant
PROPERTY P_C04_RemovedNeverServes
CHECK_DEADLOCK FALSE
