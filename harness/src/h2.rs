//! Raw HTTP/2 endpoint for scripted peers: frame codec, HPACK (loona-hpack), TLS client connect
//! (rustls, accepts any certificate, records the presented leaf), clear-text h2c server side.
//! Deliberately dumb: it never enforces protocol rules on what it sends, and it exposes every frame
//! it receives, so a check can keep its own ledger.

use std::io::{Read, Write};
use std::net::{SocketAddr, TcpStream};
use std::sync::{Arc, Mutex};
use std::time::{Duration, Instant};

use rustls::client::danger::{HandshakeSignatureValid, ServerCertVerified, ServerCertVerifier};
use rustls::pki_types::{CertificateDer, ServerName, UnixTime};
use rustls::{ClientConfig, DigitallySignedStruct, SignatureScheme};

pub const DATA: u8 = 0x0;
pub const HEADERS: u8 = 0x1;
pub const PRIORITY: u8 = 0x2;
pub const RST_STREAM: u8 = 0x3;
pub const SETTINGS: u8 = 0x4;
pub const PUSH_PROMISE: u8 = 0x5;
pub const PING: u8 = 0x6;
pub const GOAWAY: u8 = 0x7;
pub const WINDOW_UPDATE: u8 = 0x8;
pub const CONTINUATION: u8 = 0x9;

pub const FLAG_ACK: u8 = 0x1;
pub const FLAG_END_STREAM: u8 = 0x1;
pub const FLAG_END_HEADERS: u8 = 0x4;
pub const FLAG_PADDED: u8 = 0x8;
pub const FLAG_PRIORITY: u8 = 0x20;

pub const S_HEADER_TABLE_SIZE: u16 = 0x1;
pub const S_ENABLE_PUSH: u16 = 0x2;
pub const S_MAX_CONCURRENT_STREAMS: u16 = 0x3;
pub const S_INITIAL_WINDOW_SIZE: u16 = 0x4;
pub const S_MAX_FRAME_SIZE: u16 = 0x5;
pub const S_MAX_HEADER_LIST_SIZE: u16 = 0x6;

pub const PREFACE: &[u8] = b"PRI * HTTP/2.0\r\n\r\nSM\r\n\r\n";

#[derive(Clone, Debug, PartialEq, Eq)]
pub struct Frame {
    pub ty: u8,
    pub flags: u8,
    pub sid: u32,
    pub payload: Vec<u8>,
}

impl Frame {
    pub fn new(ty: u8, flags: u8, sid: u32, payload: Vec<u8>) -> Frame {
        Frame { ty, flags, sid, payload }
    }
    pub fn encode(&self) -> Vec<u8> {
        self.encode_with_len(self.payload.len() as u32)
    }
    /// encode with a forged declared length
    pub fn encode_with_len(&self, len: u32) -> Vec<u8> {
        let mut b = Vec::with_capacity(9 + self.payload.len());
        b.push((len >> 16) as u8);
        b.push((len >> 8) as u8);
        b.push(len as u8);
        b.push(self.ty);
        b.push(self.flags);
        b.extend_from_slice(&self.sid.to_be_bytes());
        b.extend_from_slice(&self.payload);
        b
    }
    pub fn settings(kv: &[(u16, u32)]) -> Frame {
        let mut p = Vec::new();
        for (k, v) in kv {
            p.extend_from_slice(&k.to_be_bytes());
            p.extend_from_slice(&v.to_be_bytes());
        }
        Frame::new(SETTINGS, 0, 0, p)
    }
    pub fn settings_ack() -> Frame {
        Frame::new(SETTINGS, FLAG_ACK, 0, vec![])
    }
    pub fn window_update(sid: u32, inc: u32) -> Frame {
        Frame::new(WINDOW_UPDATE, 0, sid, inc.to_be_bytes().to_vec())
    }
    pub fn rst(sid: u32, code: u32) -> Frame {
        Frame::new(RST_STREAM, 0, sid, code.to_be_bytes().to_vec())
    }
    pub fn ping(data: [u8; 8], ack: bool) -> Frame {
        Frame::new(PING, if ack { FLAG_ACK } else { 0 }, 0, data.to_vec())
    }
    pub fn goaway(last: u32, code: u32) -> Frame {
        let mut p = last.to_be_bytes().to_vec();
        p.extend_from_slice(&code.to_be_bytes());
        Frame::new(GOAWAY, 0, 0, p)
    }
    pub fn data(sid: u32, payload: Vec<u8>, end_stream: bool) -> Frame {
        Frame::new(DATA, if end_stream { FLAG_END_STREAM } else { 0 }, sid, payload)
    }
    pub fn data_padded(sid: u32, payload: &[u8], pad: u8, end_stream: bool) -> Frame {
        let mut p = vec![pad];
        p.extend_from_slice(payload);
        p.extend(std::iter::repeat_n(0u8, pad as usize));
        Frame::new(DATA, FLAG_PADDED | if end_stream { FLAG_END_STREAM } else { 0 }, sid, p)
    }
    pub fn headers(sid: u32, block: Vec<u8>, end_headers: bool, end_stream: bool) -> Frame {
        let mut f = 0;
        if end_headers { f |= FLAG_END_HEADERS; }
        if end_stream { f |= FLAG_END_STREAM; }
        Frame::new(HEADERS, f, sid, block)
    }
    pub fn continuation(sid: u32, block: Vec<u8>, end_headers: bool) -> Frame {
        Frame::new(CONTINUATION, if end_headers { FLAG_END_HEADERS } else { 0 }, sid, block)
    }
    /// application bytes of a DATA frame (padding stripped); None if the padding is malformed
    pub fn data_bytes(&self) -> Option<&[u8]> {
        if self.flags & FLAG_PADDED != 0 {
            let pad = *self.payload.first()? as usize;
            if 1 + pad > self.payload.len() { return None; }
            Some(&self.payload[1..self.payload.len() - pad])
        } else {
            Some(&self.payload)
        }
    }
    pub fn u32_at(&self, off: usize) -> Option<u32> {
        self.payload.get(off..off + 4).map(|b| u32::from_be_bytes([b[0], b[1], b[2], b[3]]))
    }
    pub fn settings_pairs(&self) -> Vec<(u16, u32)> {
        self.payload.chunks_exact(6).map(|c| (u16::from_be_bytes([c[0], c[1]]), u32::from_be_bytes([c[2], c[3], c[4], c[5]]))).collect()
    }
    pub fn end_stream(&self) -> bool { (self.ty == DATA || self.ty == HEADERS) && self.flags & FLAG_END_STREAM != 0 }
    pub fn end_headers(&self) -> bool { self.flags & FLAG_END_HEADERS != 0 }
}

/// Incremental frame splitter over a byte buffer.
#[derive(Default)]
pub struct FrameBuf {
    pub buf: Vec<u8>,
}

impl FrameBuf {
    pub fn push(&mut self, b: &[u8]) { self.buf.extend_from_slice(b); }
    pub fn next(&mut self) -> Option<Frame> {
        if self.buf.len() < 9 { return None; }
        let len = ((self.buf[0] as usize) << 16) | ((self.buf[1] as usize) << 8) | self.buf[2] as usize;
        if self.buf.len() < 9 + len { return None; }
        let ty = self.buf[3];
        let flags = self.buf[4];
        let sid = u32::from_be_bytes([self.buf[5], self.buf[6], self.buf[7], self.buf[8]]) & 0x7fff_ffff;
        let payload = self.buf[9..9 + len].to_vec();
        self.buf.drain(..9 + len);
        Some(Frame { ty, flags, sid, payload })
    }
}

pub struct Hpack {
    pub enc: loona_hpack::Encoder<'static>,
    pub dec: loona_hpack::Decoder<'static>,
}

impl Default for Hpack {
    fn default() -> Self { Hpack { enc: loona_hpack::Encoder::new(), dec: loona_hpack::Decoder::new() } }
}

impl Hpack {
    pub fn encode(&mut self, headers: &[(&[u8], &[u8])]) -> Vec<u8> {
        let mut out = Vec::new();
        self.enc.encode_into(headers.iter().map(|(k, v)| (*k, *v)), &mut out).expect("hpack encode");
        out
    }
    pub fn encode_owned(&mut self, headers: &[(Vec<u8>, Vec<u8>)]) -> Vec<u8> {
        let v: Vec<(&[u8], &[u8])> = headers.iter().map(|(k, v)| (k.as_slice(), v.as_slice())).collect();
        self.encode(&v)
    }
    pub fn decode(&mut self, block: &[u8]) -> Result<Vec<(Vec<u8>, Vec<u8>)>, String> {
        let mut out = Vec::new();
        self.dec
            .decode_with_cb(block, |k, v| out.push((k.to_vec(), v.to_vec())))
            .map_err(|e| format!("{e:?}"))?;
        Ok(out)
    }
}

#[derive(Debug)]
pub struct RecordingVerifier {
    pub leaf: Mutex<Option<Vec<u8>>>,
}

impl ServerCertVerifier for RecordingVerifier {
    fn verify_server_cert(&self, end_entity: &CertificateDer<'_>, _i: &[CertificateDer<'_>], _s: &ServerName<'_>, _o: &[u8], _n: UnixTime) -> Result<ServerCertVerified, rustls::Error> {
        *self.leaf.lock().unwrap() = Some(end_entity.as_ref().to_vec());
        Ok(ServerCertVerified::assertion())
    }
    fn verify_tls12_signature(&self, _m: &[u8], _c: &CertificateDer<'_>, _d: &DigitallySignedStruct) -> Result<HandshakeSignatureValid, rustls::Error> {
        Ok(HandshakeSignatureValid::assertion())
    }
    fn verify_tls13_signature(&self, _m: &[u8], _c: &CertificateDer<'_>, _d: &DigitallySignedStruct) -> Result<HandshakeSignatureValid, rustls::Error> {
        Ok(HandshakeSignatureValid::assertion())
    }
    fn supported_verify_schemes(&self) -> Vec<SignatureScheme> {
        vec![SignatureScheme::RSA_PKCS1_SHA256, SignatureScheme::RSA_PKCS1_SHA384, SignatureScheme::RSA_PKCS1_SHA512,
             SignatureScheme::ECDSA_NISTP256_SHA256, SignatureScheme::ECDSA_NISTP384_SHA384, SignatureScheme::ECDSA_NISTP521_SHA512,
             SignatureScheme::ED25519, SignatureScheme::RSA_PSS_SHA256, SignatureScheme::RSA_PSS_SHA384, SignatureScheme::RSA_PSS_SHA512]
    }
}

pub type TlsStream = rustls::StreamOwned<rustls::ClientConnection, TcpStream>;

/// TLS client connection to `addr` with SNI `sni` and the given ALPN list. Returns the stream and the
/// verifier (its `leaf` holds the DER of the certificate the server presented, once the handshake ran).
/// The handshake is driven to completion here; Err carries the failure.
pub fn tls_connect(addr: SocketAddr, sni: &str, alpn: &[&[u8]], timeout: Duration) -> Result<(TlsStream, Arc<RecordingVerifier>), String> {
    let _ = rustls::crypto::ring::default_provider().install_default();
    let verifier = Arc::new(RecordingVerifier { leaf: Mutex::new(None) });
    let mut config = ClientConfig::builder().dangerous().with_custom_certificate_verifier(verifier.clone()).with_no_client_auth();
    config.alpn_protocols = alpn.iter().map(|a| a.to_vec()).collect();
    let name = ServerName::try_from(sni.to_owned()).map_err(|e| format!("sni: {e}"))?;
    let conn = rustls::ClientConnection::new(Arc::new(config), name).map_err(|e| format!("{e}"))?;
    let tcp = TcpStream::connect_timeout(&addr, timeout).map_err(|e| format!("connect: {e}"))?;
    tcp.set_read_timeout(Some(timeout)).ok();
    tcp.set_write_timeout(Some(timeout)).ok();
    tcp.set_nodelay(true).ok();
    let mut s = rustls::StreamOwned::new(conn, tcp);
    while s.conn.is_handshaking() {
        s.conn.complete_io(&mut s.sock).map_err(|e| format!("handshake: {e}"))?;
    }
    Ok((s, verifier))
}

/// One HTTP/2 connection endpoint (client or server side) over any byte stream.
pub struct H2Conn<S: Read + Write> {
    pub s: S,
    pub fb: FrameBuf,
    pub hp: Hpack,
    pub eof: bool,
    pub io_error: Option<String>,
}

pub trait SetTimeout {
    fn set_timeout(&mut self, t: Duration);
}
impl SetTimeout for TcpStream {
    fn set_timeout(&mut self, t: Duration) { self.set_read_timeout(Some(t)).ok(); }
}
impl SetTimeout for TlsStream {
    fn set_timeout(&mut self, t: Duration) { self.sock.set_read_timeout(Some(t)).ok(); }
}

impl<S: Read + Write + SetTimeout> H2Conn<S> {
    pub fn new(s: S) -> Self { H2Conn { s, fb: FrameBuf::default(), hp: Hpack::default(), eof: false, io_error: None } }

    pub fn send_raw(&mut self, bytes: &[u8]) -> bool {
        match self.s.write_all(bytes).and_then(|_| self.s.flush()) {
            Ok(()) => true,
            Err(e) => { self.io_error = Some(e.to_string()); false }
        }
    }
    pub fn send(&mut self, f: &Frame) -> bool { self.send_raw(&f.encode()) }

    /// client side: preface + SETTINGS
    pub fn client_preface(&mut self, settings: &[(u16, u32)]) -> bool {
        let mut b = PREFACE.to_vec();
        b.extend_from_slice(&Frame::settings(settings).encode());
        self.send_raw(&b)
    }

    /// server side (h2c prior knowledge): read and check the client preface
    pub fn read_client_preface(&mut self, timeout: Duration) -> bool {
        let deadline = Instant::now() + timeout;
        while self.fb.buf.len() < PREFACE.len() {
            if !self.fill(deadline) { return false; }
        }
        if &self.fb.buf[..PREFACE.len()] != PREFACE { return false; }
        self.fb.buf.drain(..PREFACE.len());
        true
    }

    fn fill(&mut self, deadline: Instant) -> bool {
        let now = Instant::now();
        if now >= deadline || self.eof { return false; }
        self.s.set_timeout((deadline - now).max(Duration::from_millis(1)));
        let mut tmp = [0u8; 65536];
        match self.s.read(&mut tmp) {
            Ok(0) => { self.eof = true; false }
            Ok(n) => { self.fb.push(&tmp[..n]); true }
            Err(e) if e.kind() == std::io::ErrorKind::WouldBlock || e.kind() == std::io::ErrorKind::TimedOut => false,
            Err(e) => { self.io_error = Some(e.to_string()); self.eof = true; false }
        }
    }

    /// Next frame, waiting at most `timeout`. None on timeout / EOF (check `eof`).
    pub fn read_frame(&mut self, timeout: Duration) -> Option<Frame> {
        let deadline = Instant::now() + timeout;
        loop {
            if let Some(f) = self.fb.next() { return Some(f); }
            if !self.fill(deadline) {
                if Instant::now() >= deadline || self.eof { return self.fb.next(); }
            }
        }
    }

    /// Read frames until `pred` says stop, EOF, or timeout. Returns everything read.
    pub fn read_until(&mut self, timeout: Duration, mut pred: impl FnMut(&Frame) -> bool) -> Vec<Frame> {
        let deadline = Instant::now() + timeout;
        let mut out = Vec::new();
        loop {
            let now = Instant::now();
            if now >= deadline { return out; }
            match self.read_frame(deadline - now) {
                Some(f) => { let stop = pred(&f); out.push(f); if stop { return out; } }
                None => if self.eof || Instant::now() >= deadline { return out; },
            }
        }
    }
}

pub fn h2_tls_client(addr: SocketAddr, sni: &str, timeout: Duration) -> Result<H2Conn<TlsStream>, String> {
    let (s, _) = tls_connect(addr, sni, &[b"h2"], timeout)?;
    Ok(H2Conn::new(s))
}

/// Standard request pseudo-headers + extra headers, HPACK-encoded.
pub fn request_block(hp: &mut Hpack, method: &str, scheme: &str, authority: &str, path: &str, extra: &[(&str, &str)]) -> Vec<u8> {
    let mut h: Vec<(Vec<u8>, Vec<u8>)> = vec![
        (b":method".to_vec(), method.as_bytes().to_vec()),
        (b":scheme".to_vec(), scheme.as_bytes().to_vec()),
        (b":authority".to_vec(), authority.as_bytes().to_vec()),
        (b":path".to_vec(), path.as_bytes().to_vec()),
    ];
    for (k, v) in extra { h.push((k.as_bytes().to_vec(), v.as_bytes().to_vec())); }
    hp.encode_owned(&h)
}
