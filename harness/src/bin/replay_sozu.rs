//! S->I for spec/Sozu.tla: TLC is the generator and the oracle.
//!
//! stdin: ndjson, one line per script `{"script": [{"op", "verdict", "obs"}, ..]}` printed by the generator
//! configuration of Sozu.tla (scripted quiescent environment, open deviations on). Every script is
//! executed on a fresh composed system (vh::sozukit: real CommandHub + real worker threads over real
//! channels): client operations through the hub's unix socket (`cmd`, `save`, `load`), environment
//! steps (`die`: the worker's channel end is shut down and the hub has noticed; `start`: one more
//! worker registered on the running hub, bootstrapped from the hub's current state). After EVERY
//! element the real system is compared with the spec's prediction: the client's verdict, the hub's
//! run state per worker, the queryable view of the main process and of every live worker, and the
//! complete configuration of the main process (a scratch SaveState parsed back).
//!
//! stdout: {"kind":"violation", class, detail, line} and one {"kind":"summary"}.

use std::collections::BTreeMap;
use std::io::BufRead;
use std::sync::atomic::{AtomicUsize, Ordering};
use std::sync::{Arc, Mutex};
use std::time::{Duration, Instant};

use serde_json::{Value, json};
use sozu_command_lib::proto::command::request::RequestType;
use vh::cfgmodel::{Rng, canon_state};
use vh::sozukit::*;

struct Args {
    threads: usize,
    seed: u64,
    sample: usize,
    index_base: u64,
    timeout_s: u32,
    init: Vec<u32>,
    mute: Vec<u32>,
    verbose: bool,
    /// scripts whose last element is an operation of this kind are never sampled away
    keep_last: String,
}

fn parse_args() -> Args {
    let a: Vec<String> = std::env::args().collect();
    let mut r = Args { threads: 8, seed: 1, sample: 0, index_base: 0, timeout_s: 1, init: vec![0, 1], mute: vec![], verbose: false, keep_last: String::new() };
    let list = |s: &str| -> Vec<u32> { s.split(',').filter(|x| !x.is_empty()).map(|x| x.parse().expect("worker id")).collect() };
    let mut i = 1;
    while i < a.len() {
        match a[i].as_str() {
            "--threads" => { r.threads = a[i + 1].parse().unwrap(); i += 1; }
            "--seed" => { r.seed = a[i + 1].parse().unwrap_or(1); i += 1; }
            "--sample" => { r.sample = a[i + 1].parse().unwrap(); i += 1; }
            "--index-base" => { r.index_base = a[i + 1].parse().unwrap(); i += 1; }
            "--timeout" => { r.timeout_s = a[i + 1].parse().unwrap(); i += 1; }
            "--init" => { r.init = list(&a[i + 1]); i += 1; }
            "--mute" => { r.mute = list(&a[i + 1]); i += 1; }
            "--verbose" => r.verbose = true,
            "--keep-last" => { r.keep_last = a[i + 1].clone(); i += 1; }
            _ => {}
        }
        i += 1;
    }
    r
}

/// the spec's empty function arrives as [] instead of {}
fn obj(v: &Value) -> BTreeMap<String, Value> {
    v.as_object().map(|o| o.iter().map(|(k, x)| (k.clone(), x.clone())).collect()).unwrap_or_default()
}

struct RunResult {
    steps: usize,
    compared: usize,
    violations: Vec<(String, Value)>,
    sample: String,
}

fn run_script(line: &Value, index: u64, args: &Args) -> RunResult {
    let mut res = RunResult { steps: 0, compared: 0, violations: Vec::new(), sample: String::new() };
    let conc = conc_for(index);
    let kinds: Vec<Kind> = args.init.iter().map(|id| if args.mute.contains(id) { Kind::Mute } else { Kind::Real }).collect();
    // ids of the initial workers are 0..n in the rig; the spec's InitWorkers must be the same
    let mut rig = match Rig::start(&kinds, args.timeout_s) {
        Ok(r) => r,
        Err(e) => {
            res.violations.push(("rig:start".into(), json!({"error": e})));
            return res;
        }
    };
    let deadline = Duration::from_secs(args.timeout_s as u64 + 4);
    let save_path = rig.dir().join("saved.json").to_string_lossy().to_string();
    let script = line["script"].as_array().cloned().unwrap_or_default();
    let mut trail: Vec<String> = Vec::new();
    'steps: for (n, el) in script.iter().enumerate() {
        let op = &el["op"];
        let kind = op["kind"].as_str().unwrap_or("");
        let predicted = el["verdict"].as_str().unwrap_or("");
        res.steps += 1;
        let mut fail = |class: String, detail: Value| {
            res.violations.push((class, json!({"step": n, "op": op, "detail": detail})));
        };
        let verdict: String = match kind {
            "cmd" => {
                let req = concretise(&conc, &op["c"]);
                let wait = if predicted == "hang" { Duration::from_secs(args.timeout_s as u64 + 2) } else { deadline };
                let o = rig.request(req.request_type.unwrap(), wait);
                if args.verbose {
                    eprintln!("step {n} {} -> {} {}", op["c"]["verb"], o.verdict, o.message);
                }
                o.verdict
            }
            "save" => {
                let (o, _proj, pb) = rig.save_state(&conc, &save_path, deadline);
                for p in pb {
                    fail("save:unreadable".into(), json!(p));
                }
                o.verdict
            }
            "load" => {
                let wait = if predicted == "hang" { Duration::from_secs(args.timeout_s as u64 + 2) } else { deadline };
                rig.request(RequestType::LoadState(save_path.clone()), wait).verdict
            }
            "die" => {
                let id: u32 = op["w"].as_str().unwrap_or("0").parse().unwrap_or(0);
                match rig.index_of(id) {
                    None => {
                        fail("rig:die".into(), json!("unknown worker"));
                        break 'steps;
                    }
                    Some(idx) => {
                        if let Err(e) = rig.kill_worker(idx, true) {
                            fail("hub:close-not-noticed".into(), json!(e));
                            break 'steps;
                        }
                    }
                }
                "none".into()
            }
            "start" => {
                let id: u32 = op["w"].as_str().unwrap_or("0").parse().unwrap_or(0);
                let k = if args.mute.contains(&id) { Kind::Mute } else { Kind::Real };
                if let Err(e) = rig.start_worker_id(id, k) {
                    fail("hub:start-worker".into(), json!(e));
                    break 'steps;
                }
                "none".into()
            }
            other => {
                fail("rig:script".into(), json!(format!("unknown script element {other}")));
                break 'steps;
            }
        };
        let verb = if kind == "cmd" { op["c"]["verb"].as_str().unwrap_or("?").to_string() } else { kind.to_string() };
        trail.push(format!("{verb}={verdict}"));
        res.compared += 1;
        if verdict != predicted {
            fail(format!("verdict:{verb}:{verdict}-for-{predicted}"), json!({"real": verdict, "spec": predicted}));
        }
        if let Some(f) = rig.hub_finished() {
            fail("hub-exit".into(), json!(format!("{f:?}")));
            break 'steps;
        }
        for (id, how) in rig.unexpected_exits() {
            fail(format!("worker-exit:{verb}"), json!({"worker": id, "how": how}));
        }
        if predicted == "hang" || verdict == "hang" {
            break 'steps; // the spec allows nothing after a request that never completes
        }
        // ---- the observation at this quiescent point
        let queries = !rig.has_live_mute();
        let obs = observe_with(&mut rig, &conc, &[], deadline, queries);
        let spec = &el["obs"];
        for p in &obs.problems {
            fail("observe:problem".into(), json!(p));
        }
        let spec_hv: BTreeMap<String, String> = obj(&spec["hv"]).into_iter().map(|(k, v)| (k, v.as_str().unwrap_or("").to_string())).collect();
        res.compared += 1;
        if obs.hv != spec_hv {
            fail(format!("hv:{verb}"), json!({"real": obs.hv, "spec": spec_hv}));
        }
        let mut spec_views: BTreeMap<String, Value> = obj(&spec["workers"]).into_iter().map(|(k, v)| (k, canon(&v))).collect();
        spec_views.insert("main".into(), canon(&spec["mainv"]));
        res.compared += if queries { spec_views.len() } else { 0 };
        if queries && obs.views != spec_views {
            let mut keys: Vec<String> = obs.views.keys().chain(spec_views.keys()).cloned().collect();
            keys.sort();
            keys.dedup();
            let diff: Vec<Value> = keys
                .iter()
                .filter(|k| obs.views.get(*k) != spec_views.get(*k))
                .map(|k| json!({"source": k, "real": obs.views.get(k), "spec": spec_views.get(k)}))
                .collect();
            let who = if diff.iter().any(|d| d["source"] == "main") { "main" } else { "worker" };
            fail(format!("view:{who}:{verb}"), json!(diff));
        }
        res.compared += 1;
        if let Some(full) = &obs.main_full {
            let want = canon_state(&spec["main"]);
            if canon_state(full) != want {
                let fields: Vec<&str> = vh::cfgmodel::STATE_FIELDS.iter().copied().filter(|f| canon_state(full)[*f] != want[*f]).collect();
                fail(format!("save:differs:{verb}"), json!({"fields": fields, "real": full, "spec": want}));
            }
        }
        res.compared += obs.hash_eq.len();
        for (w, eq) in &obs.hash_eq {
            let same = spec_views.get(w) == spec_views.get("main");
            if spec_views.contains_key(w) && *eq != same {
                fail(format!("hashes:{verb}"), json!({"worker": w, "equal_to_main": eq, "spec_views_equal": same}));
            }
        }
    }
    res.sample = trail.join(" ");
    match rig.teardown(Duration::from_secs(5)) {
        Some(Ok(_)) => {}
        Some(Err(e)) => res.violations.push(("hub-panic".into(), json!({"panic": e, "script": res.sample}))),
        None => res.violations.push(("hub-did-not-stop".into(), json!({"script": res.sample}))),
    }
    res
}

fn main() {
    vh::util::quiet_panics();
    let args = Arc::new(parse_args());
    let t0 = Instant::now();
    let mut lines: Vec<Value> = Vec::new();
    for l in std::io::stdin().lock().lines() {
        let l = l.expect("stdin");
        if l.trim().is_empty() {
            continue;
        }
        match serde_json::from_str::<Value>(&l) {
            Ok(v) if v.get("script").is_some() => lines.push(v),
            _ => {}
        }
    }
    let total = lines.len();
    if args.sample > 0 && lines.len() > args.sample {
        // seeded sample without replacement (plus every script ending in a `keep_last` operation)
        let ends_with = |l: &Value| -> bool {
            !args.keep_last.is_empty()
                && l["script"].as_array().and_then(|a| a.last()).map(|e| e["op"]["kind"] == args.keep_last.as_str()).unwrap_or(false)
        };
        let (kept, mut rest): (Vec<Value>, Vec<Value>) = lines.into_iter().partition(|l| ends_with(l));
        let mut rng = Rng(args.seed.wrapping_mul(0x9E3779B97F4A7C15) | 1);
        for i in (1..rest.len()).rev() {
            let j = rng.next(i + 1);
            rest.swap(i, j);
        }
        rest.truncate(args.sample);
        lines = kept;
        lines.extend(rest);
    }
    let lines = Arc::new(lines);
    let next = Arc::new(AtomicUsize::new(0));
    let out: Arc<Mutex<Vec<(usize, RunResult)>>> = Arc::new(Mutex::new(Vec::new()));
    let failing = Arc::new(AtomicUsize::new(0));
    let mut handles = Vec::new();
    for _ in 0..args.threads.max(1) {
        let (lines, next, out, args, failing) = (lines.clone(), next.clone(), out.clone(), args.clone(), failing.clone());
        handles.push(std::thread::spawn(move || {
            loop {
                let i = next.fetch_add(1, Ordering::SeqCst);
                if i >= lines.len() || failing.load(Ordering::SeqCst) >= 40 {
                    break;
                }
                let r = run_script(&lines[i], args.index_base + i as u64, &args);
                if !r.violations.is_empty() {
                    failing.fetch_add(1, Ordering::SeqCst);
                }
                out.lock().unwrap().push((i, r));
            }
        }));
    }
    for h in handles {
        let _ = h.join();
    }
    let mut results = std::mem::take(&mut *out.lock().unwrap());
    results.sort_by_key(|(i, _)| *i);
    let mut classes: BTreeMap<String, u64> = BTreeMap::new();
    let (mut steps, mut compared, mut nviol) = (0usize, 0usize, 0usize);
    let mut samples: Vec<String> = Vec::new();
    for (i, r) in &results {
        steps += r.steps;
        compared += r.compared;
        if samples.len() < 6 && r.steps >= 3 {
            samples.push(r.sample.clone());
        }
        for (class, detail) in &r.violations {
            nviol += 1;
            let n = classes.entry(class.clone()).or_insert(0);
            *n += 1;
            if *n <= 2 {
                vh::util::emit(&json!({"kind": "violation", "class": class, "detail": detail, "line": lines[*i]}));
            }
        }
    }
    let fds_open = std::fs::read_dir("/proc/self/fd").map(|d| d.count()).unwrap_or(0);
    vh::util::emit(&json!({"kind": "summary", "fds_open": fds_open, "lines": total, "runs": results.len(), "steps": steps, "compared": compared,
        "violations": nviol, "classes": classes, "aborted": failing.load(Ordering::SeqCst) >= 40, "samples": samples,
        "wall_s": t0.elapsed().as_secs_f64()}));
}
