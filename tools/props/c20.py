"""C20 - a configuration file means exactly what it declares, however large (spec/ConfigFile.tla).

1. TLC checks P_C20 on the spec with no deviation: for every abstract file within the size bound the CODE reading
   (loader -> messages -> dispatch, in every order the loader may visit clusters/frontends) agrees with the DOCUMENT
   reading (Violations / Declared), reload is idempotent, nothing is duplicated, Declared is compositional.
   Coverage of the editing actions is required (vacuity guard).
2. For every open deviation TLC is re-run with it switched on and must produce a counterexample.
3. Generator run: one REPLAY line per abstract file with `valid`, `violations`, `declared`, message counts
   (and the code-model outcomes where an open deviation explains a difference).
4. harness/replay_configfile renders every file to TOML (several spellings / address families / entry orders), runs
   the real Config::load_from_path -> generate_config_messages -> ConfigState::dispatch, compares, reloads.
   SIZE axis: valid one-cluster files replicated n times, n over the boundaries of an 8-bit message counter.

Two universes are enumerated (constant Focus of the spec): "all" - every optional key, the breadth - and "identity" -
only the keys that take part in the identity of a declared object (frontend: address, hostname, path, path kind,
method; certificate: address, fingerprint; ...) plus the non-identity decoys (position, tags), one listener, no
backends, one size step deeper - so that for every identity field the generated files hold two objects that agree on
everything else (vacuity guard `pair_hits`, computed by the spec: IdentityPairs / DecoyPairs).  Self-test slips (a state
key that forgets one identity field) must be refuted by TLC.

`--replay <violation.json>` re-runs the abstract file of a saved violation only.
"""
import json
import os
from concurrent.futures import ThreadPoolExecutor

import vlib

PID = "C20"

CFG = """SPECIFICATION Spec
CONSTANTS
  MaxListeners = %(maxl)d
  MaxClusters = 2
  MaxFronts = 2
  MaxBacks = %(maxb)d
  MaxSize = %(size)d
  Deviations = %(dev)s
  EmitDeviations = %(edev)s
  Focus = "%(focus)s"
  Emit = %(emit)s
%(checks)s
CHECK_DEADLOCK FALSE
"""
CHECKS = ("INVARIANTS TypeOK P_C20_RejectsExactlyInvalid P_C20_DeclaredIsLoaded P_C20_ReloadIdempotent "
          "P_C20_NothingDuplicated P_C20_Compositional")
ACTIONS = ["SetGlobal", "AddListener", "EditListener", "AddCluster", "EditCluster", "NewFrontend", "EditFrontend",
           "EditFrontendHost", "NewBackend", "EditBackend"]
SCALE_NS = "1,10,85,86,127,128,255,256,300,1000"
# every constraint of Violations(F) must be exercised by the generated files (vacuity guard on the reject side)
CONSTRAINTS = ["listener-protocol", "cluster-protocol", "duplicate-listener-address", "public-address-with-expect-proxy",
               "hsts-on-http-listener", "hsts-without-enabled", "alpn-value", "h2-buffer-size",
               "http-field-on-tcp-frontend", "http-frontend-without-hostname", "hsts-on-plain-frontend",
               "frontend-listener-kind", "mixed-expect-proxy", "duplicate-frontend"]


def tla_set(xs):
    return "{" + ", ".join('"%s"' % x for x in xs) + "}"


# self-test slips of the spec: a state key that forgets one field of an object's identity; TLC must refute each
SLIPS = ["FrontKeyDropsMethod", "BackendKeyDropsAddress", "CertKeyDropsAddress"]
# <<kind, field>> pairs (two declared objects that differ in this identity field only) the generated VALID files must
# witness, and the non-identity decoys (two frontends of one routing key that differ in this field only).
# Not reachable within the bounds: https_front/pkind (size 8).
PAIRS = (["pair:%s:%s" % (k, f) for k in ("http_front", "https_front") for f in ("addr", "host", "path", "method")]
         + ["pair:http_front:pkind", "pair:tcp_front:cluster", "pair:tcp_front:addr", "pair:udp_front:cluster",
            "pair:udp_front:addr", "pair:listener:addr", "pair:cert:addr", "pair:cert:cert", "pair:backend:addr",
            "pair:backend:id", "decoy:front:position", "decoy:front:tags"])
# (focus, listeners, backends) of the universes; the identity universe goes one size step deeper
UNIVERSES = [("all", 2, 2, 0), ("identity", 1, 0, 1)]


def write_cfg(wd, name, size, dev, emit, focus="all", maxl=2, maxb=2, edev=()):
    """emit: one pass that checks P_C20 (under `dev`) AND prints one REPLAY line per file, the code outcomes of the
    open deviations `edev` included."""
    path = os.path.join(wd, name)
    with open(path, "w") as f:
        f.write(CFG % {"size": size, "dev": tla_set(dev), "edev": tla_set(edev), "emit": "TRUE" if emit else "FALSE",
                       "focus": focus, "maxl": maxl, "maxb": maxb,
                       "checks": CHECKS.replace("INVARIANTS ", "INVARIANTS EmitFile ") if emit else CHECKS})
    return path


def run(tier, replay=None):
    rep = vlib.Report(PID, tier)
    wd = vlib.workdir(PID)
    bins = vlib.cargo_build(["replay_configfile"])
    devs = vlib.open_deviations(PID)
    thorough = tier == "thorough"
    workers = 16 if thorough else 8
    size_mc = 6 if thorough else 5
    size_gen = 6 if thorough else 5
    assets = os.path.join(vlib.ROOT, "assets", "c20")

    beh = os.path.join(wd, "files.ndjson")
    scale_bases = 12 if thorough else 6
    if replay:
        with open(replay) as f:
            obj = json.load(f)
        rec = obj.get("record")
        if not rec:
            raise vlib.ToolError("replay file %s has no abstract file record" % replay)
        with open(beh, "w") as f:
            f.write(json.dumps(rec) + "\n")
        scale_bases = 1 if obj.get("leg") == "scale" else 0
    else:
        # 1. design level, no deviation. TLC's own action coverage (-coverage costs ~90 s of start-up here) is only
        #    taken in the thorough tier; in both tiers the replayer counts, per editing action, the generated files
        #    that witness it (see `action_hits` below), which is the vacuity guard that matters for the generator.
        runs = []
        if thorough:
            rc = vlib.tlc("ConfigFile", write_cfg(wd, "mc_cov.cfg", 3, [], False), PID, workers=workers, timeout=900,
                          coverage=True)
            if not rc["violated"]:
                vlib.require_actions_covered(rc, ACTIONS)
            runs.append(rc)
        # the TLC runs are independent: run them side by side (<= 8 TLC workers in quick). Model checking of P_C20
        # (no deviation) and generation are ONE pass per universe: the generator config checks the invariants and
        # prints, for the open deviations (EmitDeviations), the code outcomes next to the document reading.
        pool = ThreadPoolExecutor(max_workers=4)
        side = ThreadPoolExecutor(max_workers=2)      # deviation / slip runs, one TLC worker each
        share = {"all": workers // 2, "identity": workers // 4}
        parts = [os.path.join(wd, "files_%s.ndjson" % focus) for (focus, _, _, _) in UNIVERSES]

        def generate(u, part):
            focus, maxl, maxb, deeper = u
            with open(part, "w") as f:
                return vlib.tlc("ConfigFile",
                                write_cfg(wd, "mc_gen_%s.cfg" % focus, size_gen + deeper, [], True, focus, maxl, maxb, devs),
                                PID, workers=share[focus], timeout=3000, want_replay=True, xmx="6g" if thorough else "4g",
                                replay_sink=lambda o: f.write(json.dumps(o) + "\n"))
        futs = [pool.submit(generate, u, part) for u, part in zip(UNIVERSES, parts)]
        # 2. each open deviation must still break the property in the model, and so must each self-test slip
        #    (identity universe with backends, size 5: the smallest files with two certificates / two backends of one id)
        dev_runs = [(d, "open deviation", side.submit(vlib.tlc, "ConfigFile", write_cfg(wd, "mc_dev_%s.cfg" % d, 4, [d], False),
                                                     PID, workers=1, timeout=600)) for d in devs]
        dev_runs += [(d, "self-test slip", side.submit(vlib.tlc, "ConfigFile",
                                                      write_cfg(wd, "mc_slip_%s.cfg" % d, 5, [d], False, "identity", 1, 2),
                                                      PID, workers=1, timeout=600)) for d in SLIPS]
        gens = [f.result() for f in futs]
        devres = [(d, what, fut.result()) for d, what, fut in dev_runs]
        pool.shutdown()
        side.shutdown()
        for x in runs + gens:
            if x["violated"]:
                rep.violation("spec:" + x["violated"], "the specification itself violates %s" % x["violated"], x["out"])
                for y in gens:
                    rep.add_tlc(y)
                rep.finish()
                return
        for d, what, rd in devres:
            rep.add_tlc(rd)
            if not rd["violated"]:
                raise vlib.ToolError("%s %s no longer violates P_C20 in the model" % (what, d))
            vlib.log("%s %s: TLC counterexample to %s as expected" % (what, d, rd["violated"]))
        g = {"n_replays": 0}
        for x in gens:
            rep.add_tlc(x)
            if x["n_replays"] != x["distinct"]:
                raise vlib.ToolError("generator printed %d files for %d states" % (x["n_replays"], x["distinct"]))
            g["n_replays"] += x["n_replays"]
        with open(beh, "wb") as out:
            for part in parts:
                with open(part, "rb") as f:
                    while True:
                        chunk = f.read(1 << 22)
                        if not chunk:
                            break
                        out.write(chunk)
                os.remove(part)

    # 4. replay on the real loader
    args = ["--seed", str(vlib.seed()), "--threads", "16", "--renderings", "3" if thorough else "2",
            "--deviations", ",".join(devs), "--assets", assets]
    if scale_bases:
        args += ["--scale", SCALE_NS, "--scale-bases", str(scale_bases)]
    out = vlib.run_harness(bins["replay_configfile"], args, stdin_path=beh, timeout=3000)
    summ = [o for o in out if o.get("kind") == "summary"]
    if not summ:
        raise vlib.ToolError("replay_configfile produced no summary")
    summ = summ[0]
    if not replay:
        if summ["files"] != g["n_replays"]:
            raise vlib.ToolError("replayer saw %d files, generator printed %d" % (summ["files"], g["n_replays"]))
        missing = [c for c in CONSTRAINTS if not summ["constraint_hits"].get(c)]
        if missing:
            raise vlib.ToolError("vacuous generator run: constraints never violated by any file: %s" % missing)
        idle = [a for a in ACTIONS if not summ["action_hits"].get(a)]
        if idle:
            raise vlib.ToolError("vacuous generator run: editing actions witnessed by no generated file: %s" % idle)
        unseen = [x for x in PAIRS if not summ["pair_hits"].get(x)]
        if unseen:
            raise vlib.ToolError("vacuous generator run: no generated file holds two objects differing only in: %s" % unseen)
        if summ["scale_runs"] == 0:
            raise vlib.ToolError("vacuous run: the SIZE leg found no file to replicate")
    rep.cov["traces_validated_against_impl"] = summ["runs"] + summ["scale_runs"]
    rep.cov["evaluations"] = summ["messages_dispatched"]
    rep.cov["distinct_nontrivial"] = summ["nonempty_files"]
    rep.cov["exhaustive"] = not replay
    rep.add_samples(summ["samples"], 5)
    rep.extra["valid_files"] = summ["valid_files"]
    rep.extra["invalid_files_by_constraint"] = summ["constraint_hits"]
    rep.extra["files_witnessing_action"] = summ["action_hits"]
    rep.extra["files_with_identity_pair"] = summ.get("pair_hits", {})
    rep.extra["size_axis"] = {"replications": SCALE_NS, "runs": summ["scale_runs"],
                              "largest_message_list": summ["scale_max_messages"]}
    if summ["deviation_explained"]:
        for e in rep.findings:
            if e.get("status") == "open" and ("dev:" + ",".join(devs)) in e.get("classes", []):
                rep.known_finding_seen(e["id"])
                rep.known[e["id"]]["n"] += summ["deviation_explained"] - 1
    for v in out:
        if v.get("kind") != "violation":
            continue
        rep.violation(v["class"], json.dumps(v["detail"])[:250], v)
    rep.cov["rule"] = ("every abstract configuration file of ConfigFile.tla with #listeners + #clusters + #frontends + #backends "
                       "+ #optional keys written <= %d (at most 2 listeners, 2 clusters, 2 frontends and 2 backends per cluster; "
                       "protocols http/https/tcp/udp/unknown/missing; 2 addresses; 32 optional keys/values incl. frontend method / "
                       "position / tags), plus the identity universe (only identity-bearing keys: path, path_type, method, two "
                       "certificates; one listener, no backends) up to size %d; each rendered to "
                       "real TOML in %s spellings (array-of-tables vs inline vs dotted keys, IPv4 vs IPv6, entry order) and run "
                       "through load -> messages -> dispatch -> reload. distinct_nontrivial = distinct non-empty abstract files; "
                       "plus %d replicated files on the SIZE axis" % (size_gen, size_gen + 1, "3" if thorough else "2", summ["scale_runs"]))
    if not os.environ.get("C20_KEEP") and not rep.violations:
        try:
            os.remove(beh)      # up to ~1 GB in the thorough tier
        except OSError:
            pass
    rep.assumptions += [
        "a frontend whose address has no [[listeners]] entry gets a default listener of the matching kind (what the shipped bin/config.toml relies on); 'frontends without listener' of the property text is read as 'frontends without a listener of the matching kind'",
        "keys outside the modelled subset (answers, health checks, UDP knobs, redirects, header edits, metrics, TLS cipher lists) are never written; for them only 'still at the documented default' is checked",
        "expect_proxy on UDP listeners, [hsts] / method / position / tags on TCP frontends, path_type without path and re-declaring one (backend_id, address) are outside the documented grammar and not generated",
        "identity of a declared object as ConfigState keeps it: HTTP(S) frontend = (listener kind, address, hostname, path kind, path, method) - position and tags are not part of it; TCP/UDP frontend = (cluster, address); backend = (cluster, backend_id, address); listener = address; certificate = (address, fingerprint)",
        "backend ids generated by the loader are only required to be distinct within a cluster",
        "TOML syntax corner cases are the toml crate's business; three spellings per file are exercised",
    ]
    rep.finish()
