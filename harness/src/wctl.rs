//! Shared pieces of the C08 harness (spec/WorkerCtl.tla): the table model value -> concrete
//! data, request construction, mock backends, client probes, the projection of a real
//! `ConfigState` onto the spec's `cfg` record and the per-worker-thread hook event store.

use std::collections::{BTreeMap, HashMap};
use std::io::{Read, Write};
use std::net::{SocketAddr, TcpListener, TcpStream};
use std::sync::atomic::{AtomicBool, Ordering};
use std::sync::{Arc, Mutex, OnceLock};
use std::thread::JoinHandle;
use std::time::{Duration, Instant};

use serde_json::{Value, json};
use sozu_command_lib::config::ListenerBuilder;
use sozu_command_lib::proto::command::{
    ActivateListener, Cluster, DeactivateListener, HardStop, HealthCheckConfig, ListenerType, MetricDetail,
    MetricsConfiguration, QueryCertificatesFilters, QueryClusterByDomain, QueryClustersHashes,
    QueryMaxConnectionsPerIp, QueryMetricsOptions, RemoveBackend, RemoveListener, ReturnListenSockets,
    SetHealthCheck, SetMetricDetail, SoftStop, Status, UpdateHttpListenerConfig, UpdateHttpsListenerConfig,
    UpdateTcpListenerConfig, UpdateUdpListenerConfig, request::RequestType,
};
use sozu_command_lib::state::ConfigState;

use crate::worker::Worker;

/// model listener id -> (protocol, address slot)
pub const LDEF: &[(&str, &str, u16)] =
    &[("hA", "http", 0), ("hB", "http", 1), ("tC", "tcp", 2), ("sD", "https", 3), ("uE", "udp", 4)];
/// model http frontend id -> (cluster, listener, host)
pub const FDEF: &[(&str, &str, &str, &str)] =
    &[("f1", "c1", "hA", "a"), ("f2", "c2", "hA", "b"), ("f3", "c2", "hA", "a"), ("f4", "c1", "hB", "a")];
/// model tcp frontend id -> (cluster, listener)
pub const TDEF: &[(&str, &str, &str)] = &[("t1", "c1", "tC"), ("t2", "c2", "tC")];
/// model backend id -> (cluster, address slot)
pub const BDEF: &[(&str, &str, u16)] = &[("b1", "c1", 5), ("b2", "c2", 6), ("b3", "c1", 7)];
pub const HOSTS: &[&str] = &["a", "b", "z"];

/// Concrete addresses of one run: a loopback IP private to the run, consecutive ports.
#[derive(Clone, Copy, Debug)]
pub struct Addrs {
    pub ip: [u8; 4],
    pub port: u16,
}

impl Addrs {
    /// `index` selects a loopback address in 127.8.0.0/13 that no other check uses.
    pub fn for_index(index: u64, port: u16) -> Addrs {
        let i = index % (8 * 250 * 250);
        let a = 8 + (i / (250 * 250)) as u8;
        let b = ((i / 250) % 250) as u8;
        let c = (i % 250) as u8 + 1;
        Addrs { ip: [127, a, b, c], port }
    }
    pub fn slot(&self, slot: u16) -> SocketAddr {
        SocketAddr::from((self.ip, self.port + slot))
    }
    pub fn listener(&self, l: &str) -> (&'static str, SocketAddr) {
        let d = LDEF.iter().find(|d| d.0 == l).unwrap_or_else(|| panic!("unknown listener {l}"));
        (d.1, self.slot(d.2))
    }
    pub fn backend(&self, b: &str) -> (&'static str, SocketAddr) {
        let d = BDEF.iter().find(|d| d.0 == b).unwrap_or_else(|| panic!("unknown backend {b}"));
        (d.1, self.slot(d.2))
    }
}

pub fn hostname(h: &str) -> String {
    format!("{h}.test")
}

fn ltype(proto: &str) -> ListenerType {
    match proto {
        "http" => ListenerType::Http,
        "https" => ListenerType::Https,
        "tcp" => ListenerType::Tcp,
        _ => ListenerType::Udp,
    }
}

fn health_check(uri: &str) -> HealthCheckConfig {
    HealthCheckConfig {
        uri: uri.to_string(),
        interval: 10,
        timeout: 5,
        healthy_threshold: 3,
        unhealthy_threshold: 3,
        expected_status: 0,
        ..Default::default()
    }
}

/// The concrete request for the model request [k, a].
pub fn build_request(k: &str, a: &str, ad: &Addrs) -> RequestType {
    match k {
        // worker-level verbs
        "Status" => RequestType::Status(Status {}),
        "QueryHashes" => RequestType::QueryClustersHashes(QueryClustersHashes {}),
        "QueryDomain" => {
            RequestType::QueryClustersByDomain(QueryClusterByDomain { hostname: hostname("a"), path: None })
        }
        "QueryMetrics" => RequestType::QueryMetrics(QueryMetricsOptions {
            list: false,
            cluster_ids: vec![],
            backend_ids: vec![],
            metric_names: vec![],
            no_clusters: false,
            workers: false,
        }),
        "ConfigureMetrics" => RequestType::ConfigureMetrics(MetricsConfiguration::Enabled as i32),
        "Logging" => RequestType::Logging("error".to_string()),
        "SetMaxConn" => RequestType::SetMaxConnectionsPerIp(7),
        "QueryMaxConn" => RequestType::QueryMaxConnectionsPerIp(QueryMaxConnectionsPerIp {}),
        "MetricDetailOk" => RequestType::SetMetricDetail(SetMetricDetail {
            client_id: "c08".to_string(),
            detail: Some(MetricDetail::DetailBackend as i32),
            ttl_seconds: Some(30),
            ..Default::default()
        }),
        "MetricDetailBad" => RequestType::SetMetricDetail(SetMetricDetail {
            client_id: "c08".to_string(),
            detail: None,
            ..Default::default()
        }),
        "QueryCertsAll" => {
            RequestType::QueryCertificatesFromWorkers(QueryCertificatesFilters { domain: None, fingerprint: None })
        }
        "QueryCertsFp" => RequestType::QueryCertificatesFromWorkers(QueryCertificatesFilters {
            domain: None,
            fingerprint: Some("00".repeat(32)),
        }),
        // clusters
        "QueryCluster" => RequestType::QueryClusterById(a.to_string()),
        "AddCluster" => RequestType::AddCluster(Worker::default_cluster(a)),
        "AddClusterBadHc" => RequestType::AddCluster(Cluster {
            health_check: Some(health_check("no-leading-slash")),
            ..Worker::default_cluster(a)
        }),
        "RemoveCluster" => RequestType::RemoveCluster(a.to_string()),
        "SetHc" => RequestType::SetHealthCheck(SetHealthCheck { cluster_id: a.to_string(), config: health_check("/health") }),
        "SetHcBad" => {
            RequestType::SetHealthCheck(SetHealthCheck { cluster_id: a.to_string(), config: health_check("bad uri") })
        }
        "RemoveHc" => RequestType::RemoveHealthCheck(a.to_string()),
        // backends
        "AddBackend" => {
            let (c, addr) = ad.backend(a);
            RequestType::AddBackend(Worker::backend(c, a, addr))
        }
        "RemoveBackend" => {
            let (c, addr) = ad.backend(a);
            RequestType::RemoveBackend(RemoveBackend {
                cluster_id: c.to_string(),
                backend_id: a.to_string(),
                address: addr.into(),
            })
        }
        // frontends
        "AddHFront" | "RemoveHFront" => {
            let d = FDEF.iter().find(|d| d.0 == a).unwrap_or_else(|| panic!("unknown front {a}"));
            let f = Worker::http_frontend(d.1, ad.listener(d.2).1, &hostname(d.3), "/");
            if k == "AddHFront" { RequestType::AddHttpFrontend(f) } else { RequestType::RemoveHttpFrontend(f) }
        }
        "AddTFront" | "RemoveTFront" => {
            let d = TDEF.iter().find(|d| d.0 == a).unwrap_or_else(|| panic!("unknown tcp front {a}"));
            let f = Worker::tcp_frontend(d.1, ad.listener(d.2).1);
            if k == "AddTFront" { RequestType::AddTcpFrontend(f) } else { RequestType::RemoveTcpFrontend(f) }
        }
        // listeners
        "AddListener" => {
            let (proto, addr) = ad.listener(a);
            match proto {
                "http" => RequestType::AddHttpListener(ListenerBuilder::new_http(addr.into()).to_http(None).expect("http")),
                "https" => RequestType::AddHttpsListener(ListenerBuilder::new_https(addr.into()).to_tls(None).expect("https")),
                "tcp" => RequestType::AddTcpListener(ListenerBuilder::new_tcp(addr.into()).to_tcp(None).expect("tcp")),
                _ => RequestType::AddUdpListener(ListenerBuilder::new_udp(addr.into()).to_udp(None).expect("udp")),
            }
        }
        "RemoveListener" => {
            let (proto, addr) = ad.listener(a);
            RequestType::RemoveListener(RemoveListener { address: addr.into(), proxy: ltype(proto).into() })
        }
        "Activate" => {
            let (proto, addr) = ad.listener(a);
            RequestType::ActivateListener(ActivateListener { address: addr.into(), proxy: ltype(proto).into(), from_scm: false })
        }
        "Deactivate" => {
            let (proto, addr) = ad.listener(a);
            RequestType::DeactivateListener(DeactivateListener { address: addr.into(), proxy: ltype(proto).into(), to_scm: false })
        }
        "UpdateListener" | "UpdateListenerBad" => {
            let (proto, addr) = ad.listener(a);
            let bad = k == "UpdateListenerBad";
            match proto {
                "http" => RequestType::UpdateHttpListener(UpdateHttpListenerConfig {
                    address: addr.into(),
                    front_timeout: Some(61),
                    h2_max_rst_stream_per_window: if bad { Some(0) } else { None },
                    ..Default::default()
                }),
                "https" => RequestType::UpdateHttpsListener(UpdateHttpsListenerConfig {
                    address: addr.into(),
                    front_timeout: Some(61),
                    h2_max_rst_stream_per_window: if bad { Some(0) } else { None },
                    ..Default::default()
                }),
                "tcp" => RequestType::UpdateTcpListener(UpdateTcpListenerConfig {
                    address: addr.into(),
                    front_timeout: Some(61),
                    ..Default::default()
                }),
                _ => RequestType::UpdateUdpListener(UpdateUdpListenerConfig {
                    address: addr.into(),
                    front_timeout: Some(61),
                    ..Default::default()
                }),
            }
        }
        "ReturnSockets" => RequestType::ReturnListenSockets(ReturnListenSockets {}),
        "SoftStop" => RequestType::SoftStop(SoftStop {}),
        "HardStop" => RequestType::HardStop(HardStop {}),
        _ => panic!("unknown request kind {k}"),
    }
}

/// The real ConfigState projected onto the spec's `cfg` record (sets as sorted arrays).
pub fn project_config(state: &ConfigState, ad: &Addrs, listeners: &[String]) -> Value {
    let mut lst = serde_json::Map::new();
    for l in listeners {
        let (proto, addr) = ad.listener(l);
        let st = match proto {
            "http" => state.http_listeners.get(&addr).map(|x| x.active),
            "https" => state.https_listeners.get(&addr).map(|x| x.active),
            "tcp" => state.tcp_listeners.get(&addr).map(|x| x.active),
            _ => state.udp_listeners.get(&addr).map(|x| x.active),
        };
        let v = match st {
            None => "absent",
            Some(true) => "active",
            Some(false) => "inactive",
        };
        lst.insert(l.clone(), json!(v));
    }
    let mut cl: Vec<String> = state.clusters.keys().cloned().collect();
    cl.sort();
    let mut hc: Vec<String> =
        state.clusters.iter().filter(|(_, c)| c.health_check.is_some()).map(|(k, _)| k.clone()).collect();
    hc.sort();
    let mut hf: Vec<String> = state
        .http_fronts
        .values()
        .map(|f| {
            FDEF.iter()
                .find(|d| {
                    f.cluster_id.as_deref() == Some(d.1) && f.address == ad.listener(d.2).1 && f.hostname == hostname(d.3)
                })
                .map(|d| d.0.to_string())
                .unwrap_or_else(|| format!("?{}", f.hostname))
        })
        .collect();
    hf.sort();
    let mut tf: Vec<String> = state
        .tcp_fronts
        .iter()
        .flat_map(|(c, v)| v.iter().map(move |f| (c.clone(), f.address)))
        .map(|(c, a)| {
            TDEF.iter()
                .find(|d| d.1 == c && ad.listener(d.2).1 == a)
                .map(|d| d.0.to_string())
                .unwrap_or_else(|| format!("?{c}@{a}"))
        })
        .collect();
    tf.sort();
    let mut be: Vec<String> = state
        .backends
        .iter()
        .flat_map(|(c, v)| v.iter().map(move |b| (c.clone(), b.backend_id.clone(), b.address)))
        .map(|(c, id, a)| {
            BDEF.iter()
                .find(|d| d.0 == id && d.1 == c && ad.slot(d.2) == a)
                .map(|d| d.0.to_string())
                .unwrap_or_else(|| format!("?{c}/{id}@{a}"))
        })
        .collect();
    be.sort();
    json!({"lst": lst, "cl": cl, "hc": hc, "hf": hf, "tf": tf, "be": be})
}

/// The answer of a worker to QueryClusterById(c) as a `view` trace event in the spec's terms.
pub fn view_event(
    run: u64,
    c: &str,
    infos: &[sozu_command_lib::proto::command::ClusterInformation],
    ad: &Addrs,
) -> Value {
    let Some(ci) = infos.first() else {
        return json!({"ev": "view", "run": run, "c": c, "present": false, "hc": false, "hf": [], "tf": [], "be": []});
    };
    let hc = ci.configuration.as_ref().map(|x| x.health_check.is_some()).unwrap_or(false);
    let mut hf: Vec<String> = ci
        .http_frontends
        .iter()
        .map(|f| {
            let addr: SocketAddr = f.address.into();
            FDEF.iter()
                .find(|d| f.cluster_id.as_deref() == Some(d.1) && addr == ad.listener(d.2).1 && f.hostname == hostname(d.3))
                .map(|d| d.0.to_string())
                .unwrap_or_else(|| format!("?{}", f.hostname))
        })
        .collect();
    hf.sort();
    let mut tf: Vec<String> = ci
        .tcp_frontends
        .iter()
        .map(|f| {
            let addr: SocketAddr = f.address.into();
            TDEF.iter()
                .find(|d| d.1 == f.cluster_id && ad.listener(d.2).1 == addr)
                .map(|d| d.0.to_string())
                .unwrap_or_else(|| format!("?{}", f.cluster_id))
        })
        .collect();
    tf.sort();
    let mut be: Vec<String> = ci
        .backends
        .iter()
        .map(|b| {
            let addr: SocketAddr = b.address.into();
            BDEF.iter()
                .find(|d| d.0 == b.backend_id && d.1 == b.cluster_id && ad.slot(d.2) == addr)
                .map(|d| d.0.to_string())
                .unwrap_or_else(|| format!("?{}", b.backend_id))
        })
        .collect();
    be.sort();
    json!({"ev": "view", "run": run, "c": c, "present": ci.configuration.is_some(), "hc": hc, "hf": hf, "tf": tf, "be": be})
}

/// Sort every array of a JSON value (sets printed by TLC come in arbitrary order).
pub fn normalise(v: &Value) -> Value {
    match v {
        Value::Array(a) => {
            let mut items: Vec<Value> = a.iter().map(normalise).collect();
            items.sort_by_key(|x| x.to_string());
            Value::Array(items)
        }
        Value::Object(o) => Value::Object(o.iter().map(|(k, x)| (k.clone(), normalise(x))).collect()),
        other => other.clone(),
    }
}

// ---- mock backends ---------------------------------------------------------------------------

/// A mock backend answers `GET ...` with `200` and its id as body, anything else (a line) with
/// `<id>\n`. One thread per backend plus one per connection; stops when dropped.
pub struct MockBackends {
    stop: Arc<AtomicBool>,
    threads: Vec<JoinHandle<()>>,
}

fn serve(mut s: TcpStream, id: String) {
    let _ = s.set_read_timeout(Some(Duration::from_secs(20)));
    let _ = s.set_nodelay(true);
    let mut buf: Vec<u8> = Vec::new();
    let mut tmp = [0u8; 2048];
    loop {
        match s.read(&mut tmp) {
            Ok(0) | Err(_) => return,
            Ok(n) => buf.extend_from_slice(&tmp[..n]),
        }
        loop {
            if buf.starts_with(b"GET ") || buf.starts_with(b"HEAD ") {
                let Some(end) = buf.windows(4).position(|w| w == b"\r\n\r\n") else { break };
                buf.drain(..end + 4);
                let resp = format!("HTTP/1.1 200 OK\r\nContent-Length: {}\r\nX-Backend: {}\r\n\r\n{}", id.len(), id, id);
                if s.write_all(resp.as_bytes()).is_err() {
                    return;
                }
            } else if let Some(end) = buf.iter().position(|b| *b == b'\n') {
                buf.drain(..end + 1);
                if s.write_all(format!("{id}\n").as_bytes()).is_err() {
                    return;
                }
            } else {
                break;
            }
        }
    }
}

impl MockBackends {
    pub fn start(ad: &Addrs, ids: &[String]) -> MockBackends {
        let stop = Arc::new(AtomicBool::new(false));
        let mut threads = Vec::new();
        for id in ids {
            let addr = ad.backend(id).1;
            let listener = TcpListener::bind(addr).unwrap_or_else(|e| panic!("mock backend {id} cannot bind {addr}: {e}"));
            listener.set_nonblocking(true).expect("nonblocking");
            let stop2 = stop.clone();
            let id2 = id.clone();
            threads.push(std::thread::spawn(move || {
                while !stop2.load(Ordering::Relaxed) {
                    match listener.accept() {
                        Ok((s, _)) => {
                            let _ = s.set_nonblocking(false);
                            let id3 = id2.clone();
                            std::thread::spawn(move || serve(s, id3));
                        }
                        Err(_) => std::thread::sleep(Duration::from_millis(2)),
                    }
                }
            }));
        }
        MockBackends { stop, threads }
    }
}

impl Drop for MockBackends {
    fn drop(&mut self) {
        self.stop.store(true, Ordering::Relaxed);
        for t in self.threads.drain(..) {
            let _ = t.join();
        }
    }
}

// ---- client probes ---------------------------------------------------------------------------

/// One HTTP/1.1 request to `addr` for `host`. Outcome: "refused", "404", "503", "<backend id>",
/// "status:<n>", "hang" (connected, no answer in `wait`), "eof" (closed without an answer).
pub fn http_probe(addr: SocketAddr, host: &str, wait: Duration) -> String {
    let mut s = match TcpStream::connect_timeout(&addr, Duration::from_secs(2)) {
        Ok(s) => s,
        Err(_) => return "refused".to_string(),
    };
    let _ = s.set_nodelay(true);
    let _ = s.set_read_timeout(Some(Duration::from_millis(100)));
    let req = format!("GET / HTTP/1.1\r\nHost: {}\r\nConnection: close\r\n\r\n", hostname(host));
    if s.write_all(req.as_bytes()).is_err() {
        return "eof".to_string();
    }
    let deadline = Instant::now() + wait;
    let mut buf: Vec<u8> = Vec::new();
    let mut tmp = [0u8; 4096];
    loop {
        match s.read(&mut tmp) {
            Ok(0) => break,
            Ok(n) => {
                buf.extend_from_slice(&tmp[..n]);
                if let Some(out) = parse_http(&buf) {
                    return out;
                }
            }
            Err(e) if matches!(e.kind(), std::io::ErrorKind::WouldBlock | std::io::ErrorKind::TimedOut) => {
                if Instant::now() >= deadline {
                    return if buf.is_empty() { "hang".to_string() } else { "partial".to_string() };
                }
            }
            Err(_) => break,
        }
    }
    parse_http(&buf).unwrap_or_else(|| if buf.is_empty() { "eof".to_string() } else { "partial".to_string() })
}

fn parse_http(buf: &[u8]) -> Option<String> {
    let head_end = buf.windows(4).position(|w| w == b"\r\n\r\n")?;
    let head = String::from_utf8_lossy(&buf[..head_end]).to_string();
    let code: u32 = head.split_whitespace().nth(1)?.parse().ok()?;
    match code {
        404 => Some("404".to_string()),
        503 => Some("503".to_string()),
        200 => {
            let cl = head
                .lines()
                .find_map(|l| l.to_ascii_lowercase().strip_prefix("content-length:").map(|v| v.trim().parse::<usize>().ok()))
                .flatten()?;
            let body = &buf[head_end + 4..];
            if body.len() < cl {
                return None;
            }
            Some(String::from_utf8_lossy(&body[..cl]).to_string())
        }
        n => Some(format!("status:{n}")),
    }
}

/// One TCP exchange through a TCP listener: "refused", "closed" (accepted then closed without
/// data), "<backend id>", "hang".
pub fn tcp_probe(addr: SocketAddr, wait: Duration) -> String {
    let mut s = match TcpStream::connect_timeout(&addr, Duration::from_secs(2)) {
        Ok(s) => s,
        Err(_) => return "refused".to_string(),
    };
    let _ = s.set_nodelay(true);
    let _ = s.set_read_timeout(Some(Duration::from_millis(100)));
    let _ = s.write_all(b"PING\n");
    let deadline = Instant::now() + wait;
    let mut buf: Vec<u8> = Vec::new();
    let mut tmp = [0u8; 256];
    loop {
        match s.read(&mut tmp) {
            Ok(0) => return "closed".to_string(),
            Ok(n) => {
                buf.extend_from_slice(&tmp[..n]);
                if let Some(end) = buf.iter().position(|b| *b == b'\n') {
                    return String::from_utf8_lossy(&buf[..end]).to_string();
                }
            }
            Err(e) if matches!(e.kind(), std::io::ErrorKind::WouldBlock | std::io::ErrorKind::TimedOut) => {
                if Instant::now() >= deadline {
                    return "hang".to_string();
                }
            }
            Err(_) => return "closed".to_string(),
        }
    }
}

/// "refused" or "open"
pub fn connect_probe(addr: SocketAddr) -> String {
    match TcpStream::connect_timeout(&addr, Duration::from_secs(2)) {
        Ok(_) => "open".to_string(),
        Err(_) => "refused".to_string(),
    }
}

// ---- SCM socket ------------------------------------------------------------------------------

/// Take everything a worker sent on its SCM socket (ReturnListenSockets / DeactivateListener
/// to_scm) and close every descriptor received, whatever the manifests say. Non-blocking.
/// Returns the number of descriptors closed. (`ScmSocket::receive_listeners` is not used: two
/// manifests written before the first read are coalesced by the stream socket and it then
/// drops the second one together with its descriptors.)
pub fn drain_scm(fd: i32) -> usize {
    let mut closed = 0;
    loop {
        let mut data = [0u8; 8192];
        let mut control = [0u8; 4096];
        let mut iov = libc::iovec { iov_base: data.as_mut_ptr() as *mut libc::c_void, iov_len: data.len() };
        let mut msg: libc::msghdr = unsafe { std::mem::zeroed() };
        msg.msg_iov = &mut iov;
        msg.msg_iovlen = 1;
        msg.msg_control = control.as_mut_ptr() as *mut libc::c_void;
        msg.msg_controllen = control.len() as _;
        let n = unsafe { libc::recvmsg(fd, &mut msg, libc::MSG_DONTWAIT) };
        if n <= 0 {
            return closed;
        }
        unsafe {
            let mut c = libc::CMSG_FIRSTHDR(&msg);
            while !c.is_null() {
                if (*c).cmsg_level == libc::SOL_SOCKET && (*c).cmsg_type == libc::SCM_RIGHTS {
                    let len = ((*c).cmsg_len as usize - libc::CMSG_LEN(0) as usize) / std::mem::size_of::<i32>();
                    let p = libc::CMSG_DATA(c) as *const i32;
                    for i in 0..len {
                        libc::close(std::ptr::read_unaligned(p.add(i)));
                        closed += 1;
                    }
                }
                c = libc::CMSG_NXTHDR(&msg, c);
            }
        }
    }
}

// ---- hook events -----------------------------------------------------------------------------

#[derive(Clone, Debug)]
pub struct CmdEvent {
    pub id: String,
    pub verb: String,
    pub ok: i64,
    pub failure: i64,
    pub processing: i64,
    pub others: i64,
    pub base: i64,
    pub slab: i64,
}

/// Last `loop_idle` hook event of a worker thread (event loop about to sleep).
#[derive(Clone, Copy, Debug)]
pub struct IdleEvent {
    pub slab: i64,
    pub nb: i64,
    pub base: i64,
}

static IDLE: OnceLock<Mutex<HashMap<String, IdleEvent>>> = OnceLock::new();

fn idle_store() -> &'static Mutex<HashMap<String, IdleEvent>> {
    IDLE.get_or_init(|| Mutex::new(HashMap::new()))
}

/// The most recent `loop_idle` snapshot of worker thread `name`, if the tree has that hook.
pub fn last_idle(name: &str) -> Option<IdleEvent> {
    idle_store().lock().unwrap_or_else(|p| p.into_inner()).get(name).copied()
}

pub fn forget_idle(name: &str) {
    idle_store().lock().unwrap_or_else(|p| p.into_inner()).remove(name);
}

static EVENTS: OnceLock<Mutex<HashMap<String, Vec<CmdEvent>>>> = OnceLock::new();

fn store() -> &'static Mutex<HashMap<String, Vec<CmdEvent>>> {
    EVENTS.get_or_init(|| Mutex::new(HashMap::new()))
}

/// Install the process-global sink that files `worker_cmd` events under the emitting thread's
/// name (= the worker's name). Returns false when the tree has no such hook.
pub fn install_cmd_sink() -> bool {
    sozu_lib::verif::install(Box::new(|e| {
        if e.kind == "loop_idle" {
            let num = |k: &str| e.nums.iter().find(|(n, _)| *n == k).map(|(_, v)| *v).unwrap_or(-1);
            let idle = IdleEvent { slab: num("slab"), nb: num("nb"), base: num("base") };
            let mut g = idle_store().lock().unwrap_or_else(|p| p.into_inner());
            g.insert(e.thread.clone(), idle);
            return;
        }
        if e.kind != "worker_cmd" {
            return;
        }
        let num = |k: &str| e.nums.iter().find(|(n, _)| *n == k).map(|(_, v)| *v).unwrap_or(-1);
        let s = |k: &str| e.strs.iter().find(|(n, _)| *n == k).map(|(_, v)| v.clone()).unwrap_or_default();
        let ev = CmdEvent {
            id: s("id"),
            verb: s("verb"),
            ok: num("ok"),
            failure: num("failure"),
            processing: num("processing"),
            others: num("others"),
            base: num("base"),
            slab: num("slab"),
        };
        let mut g = store().lock().unwrap_or_else(|p| p.into_inner());
        g.entry(e.thread.clone()).or_default().push(ev);
    }));
    true
}

/// Take (and forget) the events emitted so far by the worker thread `name`.
pub fn take_events(name: &str) -> Vec<CmdEvent> {
    let mut g = store().lock().unwrap_or_else(|p| p.into_inner());
    g.remove(name).unwrap_or_default()
}

/// A copy of the events emitted so far by the worker thread `name`.
pub fn peek_events(name: &str) -> Vec<CmdEvent> {
    let g = store().lock().unwrap_or_else(|p| p.into_inner());
    g.get(name).cloned().unwrap_or_default()
}

pub fn status_name(status: i32) -> &'static str {
    use sozu_command_lib::proto::command::ResponseStatus;
    if status == ResponseStatus::Ok as i32 {
        "ok"
    } else if status == ResponseStatus::Processing as i32 {
        "processing"
    } else {
        "failure"
    }
}

pub type Probes = BTreeMap<String, BTreeMap<String, String>>;

/// Probe every listener of `listeners` the way the spec's `Probes` does.
pub fn run_probes(ad: &Addrs, listeners: &[String], wait: Duration) -> Probes {
    let mut out = Probes::new();
    for l in listeners {
        let (proto, addr) = ad.listener(l);
        let mut m = BTreeMap::new();
        match proto {
            "http" => {
                for h in HOSTS {
                    m.insert(h.to_string(), http_probe(addr, h, wait));
                }
            }
            "tcp" => {
                m.insert("-".to_string(), tcp_probe(addr, wait));
            }
            "https" => {
                m.insert("-".to_string(), connect_probe(addr));
            }
            _ => {}
        }
        out.insert(l.clone(), m);
    }
    out
}

// ---- OS-level faults: a foreign process holds a listener address --------------------------------

/// The spec's address letter ("A".."E", `LDef[l].addr`) of listener `l`.
pub fn addr_letter(l: &str) -> String {
    let d = LDEF.iter().find(|d| d.0 == l).unwrap_or_else(|| panic!("unknown listener {l}"));
    ((b'A' + d.2 as u8) as char).to_string()
}

/// (listener id, protocol, concrete address) of the spec's address letter.
pub fn addr_of_letter(a: &str, ad: &Addrs) -> (&'static str, &'static str, SocketAddr) {
    let slot = (a.as_bytes().first().copied().unwrap_or(b'A') - b'A') as u16;
    let d = LDEF.iter().find(|d| d.2 == slot).unwrap_or_else(|| panic!("unknown address {a}"));
    (d.0, d.1, ad.slot(d.2))
}

/// A socket of a FOREIGN process on a listener address: a plain std socket, hence without
/// SO_REUSEPORT (spec: Env_HoldAddress). While it lives, sozu's server_bind / udp_bind on the
/// address fail with EADDRINUSE; dropping it is Env_ReleaseAddress.
pub enum Holder {
    Tcp(TcpListener),
    Udp(std::net::UdpSocket),
}

/// Bind the foreign socket on address letter `a` (TCP listener for http/https/tcp listeners, UDP
/// socket for udp listeners). Err = the address is in use (a proxy listener is bound to it).
pub fn hold_address(ad: &Addrs, a: &str) -> Result<Holder, String> {
    let (_, proto, addr) = addr_of_letter(a, ad);
    if proto == "udp" {
        std::net::UdpSocket::bind(addr).map(Holder::Udp).map_err(|e| e.to_string())
    } else {
        TcpListener::bind(addr).map(Holder::Tcp).map_err(|e| e.to_string())
    }
}

/// Is a UDP socket bound to `addr`? "open" (a plain bind is refused) or "refused" (nothing there).
pub fn udp_bound_probe(addr: SocketAddr) -> String {
    match std::net::UdpSocket::bind(addr) {
        Ok(_) => "refused".to_string(),
        Err(_) => "open".to_string(),
    }
}

/// `run_probes` for the fault legs: udp listeners are probed too (is a socket bound?), listeners
/// whose address letter is in `held` (the harness itself is bound there) are left out.
pub fn run_probes_faults(ad: &Addrs, listeners: &[String], wait: Duration, held: &[String]) -> Probes {
    let probed: Vec<String> = listeners.iter().filter(|l| !held.contains(&addr_letter(l))).cloned().collect();
    let mut out = run_probes(ad, &probed, wait);
    for l in &probed {
        let (proto, addr) = ad.listener(l);
        if proto == "udp" {
            let mut m = BTreeMap::new();
            m.insert("-".to_string(), udp_bound_probe(addr));
            out.insert(l.clone(), m);
        }
    }
    out
}

/// Are all addresses of a run (listener slots 0..4, backend slots 5..7) free, TCP and UDP? The
/// fault legs check this before a run: a run of ANOTHER harness process (a concurrent check on
/// the same machine) that happens to use the same loopback IP and port block would look like a
/// foreign process holding addresses the spec knows nothing about.
pub fn addresses_free(ad: &Addrs) -> bool {
    (0..8u16).all(|slot| {
        let addr = ad.slot(slot);
        TcpListener::bind(addr).is_ok() && std::net::UdpSocket::bind(addr).is_ok()
    })
}

/// The addresses of fault run `index`: the first of a few candidates (other loopback IP, other
/// port block) whose addresses are all free; None = give up (the run is skipped, never judged).
pub fn free_addrs_for(index: u64, port: u16) -> Option<Addrs> {
    for t in 0..4u64 {
        let ad = Addrs::for_index(index + t * 100_003, port + (t as u16) * 16);
        if addresses_free(&ad) {
            return Some(ad);
        }
    }
    None
}
