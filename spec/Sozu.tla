-------------------------------- MODULE Sozu --------------------------------
(***************************************************************************)
(* The composed control plane of sozu: the main process AND its workers.   *)
(*                                                                         *)
(*   bin/src/command/requests.rs  handle_client_request, worker_request    *)
(*                                (state.dispatch FIRST, then scatter; no  *)
(*                                roll-back), save_state, load_state       *)
(*                                (dispatch + scatter_on per request of    *)
(*                                the file, requests the main process      *)
(*                                rejects are skipped, Timeout::None),     *)
(*                                WorkerTask / LoadStateTask::on_finish    *)
(*   bin/src/command/server.rs    CommandHub::run (finishing pass, worker  *)
(*                                responses, worker close), scatter_on,    *)
(*                                launch_new_worker                        *)
(*   bin/src/worker.rs            fork_main_into_worker: a new worker is   *)
(*                                bootstrapped from state.produce_initial_ *)
(*                                state() of the state held at that moment *)
(*   lib/src/server.rs            Server::new (initial state replayed with *)
(*                                notify_proxys, answers dropped),         *)
(*                                notify_proxys (config_state.dispatch,    *)
(*                                error ignored, then the proxies, whose   *)
(*                                verdict is the answer)                   *)
(*                                                                         *)
(* The configuration itself is spec/ConfigState.tla (instantiated as CS):  *)
(* commands are its command records, `CS!Dispatch` is ConfigState::dispatch*)
(* `CS!Generate` is generate_requests.                                     *)
(*                                                                         *)
(* One action per run-to-completion step.  Every action is a thin wrapper  *)
(* around an operator on the state record `S` (XxxEn(S, ..) / Xxx(S, ..)): *)
(* the generator's deterministic schedule (`Settle`) and the trace spec    *)
(* use the same operators, so there is one description of every step.      *)
(*                                                                         *)
(* Deviations (open findings, see known_findings.json):                    *)
(*   MasterKeepsRefused  the main process mutates its state before the     *)
(*                       fan-out and nobody rolls back when the verdict is *)
(*                       a failure (a worker refused / timed out / died):  *)
(*                       the main process and the workers that applied the *)
(*                       command keep it; undelivered requests of the      *)
(*                       failed task are still applied later               *)
(*   WorkerKeepsRefused  a worker keeps in its config_state a command its  *)
(*                       proxies refused (ConfigState.tla: WorkerHandle)   *)
(* With Deviations = {} the spec describes what the properties need: a     *)
(* failure verdict restores the main process and every worker that applied *)
(* the command, and cancels what was not delivered yet.                    *)
(***************************************************************************)
EXTENDS Naturals, Sequences, FiniteSets, TLC, Json

CONSTANTS Workers,      \* every worker id that may ever exist (strings: "0", "1", ...)
          InitWorkers,  \* launched before the hub's loop starts (from the empty state)
          MuteWorkers,  \* workers that never read nor answer (how a time-out is produced on demand)
          Universe,     \* name of the command universe offered to the client: "core" | "tcp" | "load" | "all"
          MaxOps,       \* bound on the number of client operations
          MaxFaults,    \* bound on Worker_Die + Hub_StartWorker steps
          SlowWorkers,  \* TRUE: a task may time out although every target could still answer
          Deviations,
          Emit          \* TRUE: generator: print one REPLAY line per quiescent state reached

VARIABLES mcfg,     \* the main process's ConfigState (Server.state)
          wcfg,     \* [Workers -> configuration]   a worker's config_state copy (what its queries show)
          wpx,      \* [Workers -> SUBSET [k, a, active]]  listeners held by the worker's proxies
          wst,      \* [Workers -> {"none", "alive", "dead"}]
          hview,    \* [Workers -> {"none", "running", "stopped"}]  WorkerSession.run_state in the hub
          m2w,      \* [Workers -> Seq([t, p, c])]   main -> worker channel (FIFO)
          w2m,      \* [Workers -> Seq([t, p, st])]  worker -> main channel (FIFO)
          req,      \* the client's request not handled yet (NoReq or an operation record)
          task,     \* the live gathering task (one client at a time), NoTask when none
          tid,      \* number of tasks created so far
          saved,    \* content of the state file (NoFile = no file yet, else FileOf(configuration))
          ops,      \* operations sent so far
          faults,   \* Worker_Die + Hub_StartWorker steps so far
          ghost,    \* history variables the properties are stated on (see GhostInit)
          hist      \* generator only: the script executed so far with the predicted observations

vars == <<mcfg, wcfg, wpx, wst, hview, m2w, w2m, req, task, tid, saved, ops, faults, ghost, hist>>

CS == INSTANCE ConfigState WITH Family <- "M", MaxObj <- 0, MaxDepth <- 0, Wide <- FALSE, Emit <- "none",
                                st <- mcfg, tgt <- mcfg, hist <- <<>>

AllDeviations == {"MasterKeepsRefused", "WorkerKeepsRefused"}
ASSUME Deviations \subseteq AllDeviations /\ InitWorkers \subseteq Workers /\ MuteWorkers \subseteq Workers

RealWorkers == Workers \ MuteWorkers

---------------------------------------------------------------------------
(* Command universes (records of ConfigState.tla) *)

LH == CS!LDef("http", "A1")
LT == CS!LDef("tcp", "A2")
CluV(hc) == CS!Clu("c1", [sticky |-> FALSE, lb |-> "rr", hc |-> hc])
FrontOn(a) == CS!MkFront("http", [a |-> a, h |-> "h1", pk |-> "prefix", pv |-> "/", m |-> "none"],
                         [cl |-> "c1", pos |-> "tree", tg |-> "t0", rd |-> "none"])
LVerb(v, k, a) == [verb |-> v, k |-> k, a |-> a]

CmdsCore ==
  { [verb |-> "AddHttpListener", v |-> LH],
    LVerb("ActivateListener", "http", "A1"),
    LVerb("DeactivateListener", "http", "A1"),          \* refused by a worker whose listener is not active
    LVerb("RemoveListener", "http", "A1"),
    [verb |-> "AddCluster", v |-> CluV("none")],
    [verb |-> "AddCluster", v |-> CluV("hbad")],         \* refused by the main process
    [verb |-> "RemoveCluster", c |-> "c1"],
    [verb |-> "AddBackend", c |-> "c1", b |-> "b1", x |-> "x1", w |-> 0],
    [verb |-> "RemoveBackend", c |-> "c1", b |-> "b1", x |-> "x1"],
    [verb |-> "AddHttpFrontend", f |-> FrontOn("A1")],   \* refused by a worker without the listener
    [verb |-> "RemoveHttpFrontend", f |-> FrontOn("A1")] }
CmdsTcp ==
  { [verb |-> "AddTcpListener", v |-> LT],
    LVerb("ActivateListener", "tcp", "A2"),
    LVerb("RemoveListener", "tcp", "A2"),
    [verb |-> "AddCluster", v |-> CluV("none")],
    [verb |-> "AddTcpFrontend", c |-> "c1", a |-> "A2", t |-> "t0"],
    [verb |-> "RemoveTcpFrontend", c |-> "c1", a |-> "A2", t |-> "t0"],
    [verb |-> "AddHttpFrontend", f |-> FrontOn("A2")],   \* never an http listener there: always refused by workers
    [verb |-> "UpdateHttpListener", a |-> "A1", p |-> [ft |-> 77]],
    [verb |-> "UpdateHttpListener", a |-> "A1", p |-> [ft |-> 77, sid |-> "bad header"]],
    [verb |-> "AddHttpListener", v |-> LH] }
\* few commands, for longer scripts around SaveState / LoadState (a saved object removed again, then loaded back)
CmdsLoad ==
  { [verb |-> "AddHttpListener", v |-> LH],
    LVerb("RemoveListener", "http", "A1"),
    [verb |-> "AddCluster", v |-> CluV("none")],
    [verb |-> "AddBackend", c |-> "c1", b |-> "b1", x |-> "x1", w |-> 0],
    [verb |-> "RemoveBackend", c |-> "c1", b |-> "b1", x |-> "x1"],
    [verb |-> "AddHttpFrontend", f |-> FrontOn("A1")] }
Cmds == CASE Universe = "core" -> CmdsCore
          [] Universe = "tcp" -> CmdsTcp
          [] Universe = "load" -> CmdsLoad
          [] OTHER -> CmdsCore \cup CmdsTcp

OpCmd(c) == [kind |-> "cmd", c |-> c]
OpSave == [kind |-> "save"]
OpLoad == [kind |-> "load"]
ClientOps == {OpCmd(c) : c \in Cmds} \cup {OpSave, OpLoad}

---------------------------------------------------------------------------
(* The worker's proxies: which listeners they hold decides most refusals *)

PxHas(px, k, a) == \E l \in px : l.k = k /\ l.a = a
PxActive(px, k, a) == \E l \in px : l.k = k /\ l.a = a /\ l.active
UsableCert(k) == k \in {"k1", "k2", "k3"}               \* "kp" has a fingerprint but no parsable certificate

\* the answer of the proxies of a worker to a command its config_state was just given
ProxyVerdict(px, c) ==
  LET yes(b) == IF b THEN "ok" ELSE "err" IN
  CASE c.verb \in CS!AddListenerVerbs -> "ok"
    [] c.verb = "RemoveListener" -> yes(c.k \in {"http", "https"} \/ PxHas(px, c.k, c.a))
    [] c.verb = "ActivateListener" -> yes(PxHas(px, c.k, c.a))
    [] c.verb = "DeactivateListener" -> yes(PxActive(px, c.k, c.a))
    [] c.verb \in CS!UpdListenerVerbs -> yes(PxHas(px, CS!KindOfUpd(c.verb), c.a))
    [] c.verb \in {"AddHttpFrontend", "RemoveHttpFrontend"} -> yes(PxHas(px, "http", c.f.a))
    [] c.verb \in {"AddHttpsFrontend", "RemoveHttpsFrontend"} -> yes(PxHas(px, "https", c.f.a))
    [] c.verb \in {"AddTcpFrontend", "RemoveTcpFrontend"} -> yes(PxHas(px, "tcp", c.a))
    [] c.verb \in {"AddUdpFrontend", "RemoveUdpFrontend"} -> yes(PxHas(px, "udp", c.a))
    [] c.verb = "AddCertificate" -> yes(PxHas(px, "https", c.a) /\ UsableCert(c.k))
    [] c.verb = "RemoveCertificate" -> yes(PxHas(px, "https", c.a))
    [] c.verb = "ReplaceCertificate" -> yes(PxHas(px, "https", c.a) /\ UsableCert(c.k))
    [] OTHER -> "ok"                                       \* clusters, health checks, backends

PxEffect(px, c, pa) ==
  CASE c.verb \in CS!AddListenerVerbs ->
         IF PxHas(px, c.v.k, c.v.a) THEN px ELSE px \cup {[k |-> c.v.k, a |-> c.v.a, active |-> FALSE]}
    [] c.verb = "RemoveListener" -> {l \in px : ~(l.k = c.k /\ l.a = c.a)}
    [] c.verb = "ActivateListener" /\ pa = "ok" ->
         {IF l.k = c.k /\ l.a = c.a THEN [l EXCEPT !.active = TRUE] ELSE l : l \in px}
    [] c.verb = "DeactivateListener" /\ pa = "ok" ->
         {IF l.k = c.k /\ l.a = c.a THEN [l EXCEPT !.active = FALSE] ELSE l : l \in px}
    [] OTHER -> px

\* a fresh worker given the bootstrap requests of configuration s (Server::new: notify_proxys per request, answers dropped)
RECURSIVE BootFrom(_, _, _, _)
BootFrom(cfg, px, q, i) ==
  IF i > Len(q) THEN [cfg |-> cfg, px |-> px]
  ELSE LET pa == ProxyVerdict(px, q[i]) IN
       BootFrom(CS!Dispatch(cfg, q[i]).st, PxEffect(px, q[i], pa), q, i + 1)
Boot(s) == BootFrom(CS!Empty, {}, CS!Generate(s), 1)

---------------------------------------------------------------------------
(* The state as one record, and the steps as operators on it *)

NoReq == [kind |-> "none"]
NoFile == [some |-> FALSE]
FileOf(cfg) == [some |-> TRUE, cfg |-> cfg]

NoTask == [st |-> "none", id |-> 0, kind |-> "none", op |-> NoReq, cmds |-> <<>>, targets |-> {}, expected |-> 0, ok |-> 0, errors |-> 0,
           inflight |-> {}, timed |-> FALSE, prem |-> CS!Empty, prew |-> <<>>, prepx |-> <<>>, refusers |-> {},
           booted |-> {}, acked |-> {}]

S == [mcfg |-> mcfg, wcfg |-> wcfg, wpx |-> wpx, wst |-> wst, hview |-> hview, m2w |-> m2w, w2m |-> w2m,
      req |-> req, task |-> task, tid |-> tid, saved |-> saved, ghost |-> ghost]

Set(T) == /\ mcfg' = T.mcfg /\ wcfg' = T.wcfg /\ wpx' = T.wpx /\ wst' = T.wst /\ hview' = T.hview
          /\ m2w' = T.m2w /\ w2m' = T.w2m /\ req' = T.req /\ task' = T.task /\ tid' = T.tid
          /\ saved' = T.saved /\ ghost' = T.ghost

GhostInit == [icfg |-> CS!Empty,    \* the configuration obtained by applying exactly the commands whose verdict was OK
              allOk |-> TRUE,       \* every verdict so far was OK
              clean |-> TRUE,       \* no failure verdict has left a trace so far (main process, workers, saved state)
              okApplied |-> TRUE,   \* every OK verdict so far: each worker alive at dispatch acknowledged and applied
              verdicts |-> 0,       \* number of final verdicts delivered
              last |-> "none",      \* the last final verdict
              pred |-> <<>>,        \* what the fixed schedule `Settle` predicts for the operation in progress (CoreOf)
              predValid |-> FALSE]  \* ... still meaningful (no environment step since the operation was sent)

Alive(T, w) == T.wst[w] = "alive"
RealAlive(T) == {w \in RealWorkers : Alive(T, w)}
Quiescent(T) == T.req.kind = "none" /\ T.task.st = "none"
\* nothing of a finished task is still on its way to a worker that will apply it
Settled(T) == \A w \in RealAlive(T) : T.m2w[w] = <<>>

Targets(T) == {w \in Workers : T.hview[w] = "running"}     \* scatter_on's filter

\* requests written to a worker whose end is closed are lost
Deliver(T, tg, msgs) ==
  [w \in Workers |-> IF w \in tg /\ Alive(T, w) THEN T.m2w[w] \o msgs ELSE T.m2w[w]]

Verdict(T, op, v, tk) ==      \* ghost bookkeeping of a final verdict `v` for operation `op` (tk = the task, or NoTask)
  LET g == T.ghost
      okcfg == CASE op.kind = "cmd" -> CS!Dispatch(g.icfg, op.c).st
                 [] op.kind = "load" -> IF ~T.saved.some THEN g.icfg ELSE CS!ApplyAll(g.icfg, CS!Generate(T.saved.cfg)).st
                 [] OTHER -> g.icfg
  IN [g EXCEPT !.icfg = IF v = "ok" THEN okcfg ELSE @,
               !.allOk = @ /\ v = "ok",
               !.verdicts = @ + 1,
               !.last = v,
               !.okApplied = @ /\ (v = "ok" /\ tk.st = "live" =>
                                     \A w \in tk.targets : \A p \in 1..Len(tk.cmds) : <<w, p>> \in tk.acked)]

\* ---- Client ----
ClientSendEn(T, op) == Quiescent(T) /\ op \in ClientOps
ClientSend(T, op) == [T EXCEPT !.req = op]

\* ---- Hub: handle_client_request ----
\* the requests of a state file the main process accepts, in order, with the state after them (load_state's loop)
RECURSIVE LoadFold(_, _, _, _)
LoadFold(m, q, i, acc) ==
  IF i > Len(q) THEN [m |-> m, cmds |-> acc]
  ELSE LET d == CS!Dispatch(m, q[i]) IN
       IF d.res = "ok" THEN LoadFold(d.st, q, i + 1, Append(acc, q[i])) ELSE LoadFold(m, q, i + 1, acc)

NewTask(T, op, cmds, timed) ==
  LET tg == Targets(T)
      id == T.tid + 1
  IN [st |-> "live", id |-> id, kind |-> op.kind, op |-> op, cmds |-> cmds, targets |-> tg,
      expected |-> Cardinality(tg) * Len(cmds), ok |-> 0, errors |-> 0,
      inflight |-> {<<w, p>> : w \in tg, p \in 1..Len(cmds)}, timed |-> timed,
      prem |-> T.mcfg, prew |-> T.wcfg, prepx |-> T.wpx, refusers |-> {}, booted |-> {}, acked |-> {}]

HubHandleClientRequestEn(T) == T.req.kind # "none" /\ T.task.st = "none"
HubHandleClientRequest(T) ==
  LET op == T.req IN
  CASE op.kind = "save" ->       \* save_state: generate_requests of the state written to the file; no fan-out
         [T EXCEPT !.req = NoReq, !.saved = FileOf(T.mcfg),
                   !.ghost = [Verdict(T, op, "ok", NoTask) EXCEPT !.clean = @ /\ T.mcfg = T.ghost.icfg]]
    [] op.kind = "load" /\ ~T.saved.some ->     \* "Cannot find file at path"
         [T EXCEPT !.req = NoReq, !.ghost = Verdict(T, op, "failure", NoTask)]
    [] op.kind = "load" ->
         LET f == LoadFold(T.mcfg, CS!Generate(T.saved.cfg), 1, <<>>)
             tk == NewTask(T, op, f.cmds, FALSE)           \* Timeout::None (C09's open finding NoTimeoutHang)
             msgs == [p \in 1..Len(f.cmds) |-> [t |-> tk.id, p |-> p, c |-> f.cmds[p]]]
         IN [T EXCEPT !.req = NoReq, !.mcfg = f.m, !.task = tk, !.tid = tk.id, !.m2w = Deliver(T, tk.targets, msgs)]
    [] op.kind = "cmd" ->
         LET d == CS!Dispatch(T.mcfg, op.c) IN
         IF d.res = "err"              \* "could not dispatch request on the main process state": nothing scattered
         THEN [T EXCEPT !.req = NoReq,
                        !.ghost = [Verdict(T, op, "failure", NoTask) EXCEPT !.clean = @ /\ d.st = T.mcfg]]
         ELSE LET tk == NewTask(T, op, <<op.c>>, TRUE)
                  msgs == <<[t |-> tk.id, p |-> 1, c |-> op.c]>>
              IN [T EXCEPT !.req = NoReq, !.mcfg = d.st, !.task = tk, !.tid = tk.id,
                           !.m2w = Deliver(T, tk.targets, msgs)]

\* ---- Worker: one request through notify_proxys ----
WorkerHandleEn(T, w) == w \in RealWorkers /\ Alive(T, w) /\ T.m2w[w] # <<>>
WorkerHandle(T, w) ==
  LET m == Head(T.m2w[w])
      pa == ProxyVerdict(T.wpx[w], m.c)
      h == CS!WorkerHandle(T.wcfg[w], m.c, pa)       \* config_state.dispatch, kept or not when the proxies refuse
      px == PxEffect(T.wpx[w], m.c, pa)
      stale == ~(T.task.st = "live" /\ T.task.id = m.t)   \* a request of a task that is already finished
  IN [T EXCEPT !.m2w[w] = Tail(@), !.wcfg[w] = h.st, !.wpx[w] = px,
               !.w2m[w] = Append(@, [t |-> m.t, p |-> m.p, st |-> pa]),
               !.ghost.clean = @ /\ (stale => h.st = T.wcfg[w] /\ px = T.wpx[w]),
               !.task = IF ~stale /\ pa = "ok" /\ h.st = CS!Dispatch(T.wcfg[w], m.c).st
                        THEN [@ EXCEPT !.acked = @ \cup {<<w, m.p>>}] ELSE @]

\* ---- Hub: handle_worker_response ----
HubHandleWorkerResponseEn(T, w) == T.w2m[w] # <<>> /\ T.hview[w] = "running"
HubHandleWorkerResponse(T, w) ==
  LET m == Head(T.w2m[w])
      known == T.task.st = "live" /\ T.task.id = m.t /\ <<w, m.p>> \in T.task.inflight
  IN IF ~known THEN [T EXCEPT !.w2m[w] = Tail(@)]                     \* "Got a response for an unknown task"
     ELSE [T EXCEPT !.w2m[w] = Tail(@),
                    !.task = [@ EXCEPT !.ok = IF m.st = "ok" THEN @ + 1 ELSE @,
                                       !.errors = IF m.st = "ok" THEN @ ELSE @ + 1,
                                       !.refusers = IF m.st = "ok" THEN @ ELSE @ \cup {w},
                                       !.inflight = @ \ {<<w, m.p>>}]]

\* ---- Hub: handle_worker_close (only once nothing is left to read: WorkerSession::ready) ----
HubHandleWorkerCloseEn(T, w) == T.wst[w] = "dead" /\ T.hview[w] = "running" /\ T.w2m[w] = <<>>
HubHandleWorkerClose(T, w) == [T EXCEPT !.hview[w] = "stopped"]

\* ---- Hub: the finishing pass ----
HasFinished(tk) == tk.ok + tk.errors >= tk.expected
\* the failure verdict as the properties need it: the main process and every worker that applied restore their
\* configuration, what was not delivered is cancelled; a worker whose proxies refused keeps what it has (its own defect)
Rollback(T) ==
  LET tk == T.task
      keepers == IF "WorkerKeepsRefused" \in Deviations THEN tk.refusers ELSE {}
      undo == (tk.targets \cup tk.booted) \ keepers
      bootpre == Boot(tk.prem)
  IN [T EXCEPT !.mcfg = tk.prem,
               !.wcfg = [w \in Workers |-> IF w \in undo /\ Alive(T, w)
                                           THEN (IF w \in tk.booted THEN bootpre.cfg ELSE tk.prew[w]) ELSE T.wcfg[w]],
               !.wpx = [w \in Workers |-> IF w \in undo /\ Alive(T, w)
                                          THEN (IF w \in tk.booted THEN bootpre.px ELSE tk.prepx[w]) ELSE T.wpx[w]],
               !.m2w = [w \in Workers |-> SelectSeq(T.m2w[w], LAMBDA m : m.t # tk.id)],
               !.w2m = [w \in Workers |-> SelectSeq(T.w2m[w], LAMBDA m : m.t # tk.id)]]

Finish(T, v) ==
  LET tk == T.task
      T1 == IF v = "failure" /\ "MasterKeepsRefused" \notin Deviations THEN Rollback(T) ELSE T
      g == Verdict(T, tk.op, v, tk)
      traceless == /\ T1.mcfg = tk.prem
                   /\ \A w \in RealAlive(T1) : w \in tk.targets => T1.wcfg[w] = tk.prew[w]
  IN [T1 EXCEPT !.task = NoTask, !.ghost = [g EXCEPT !.clean = @ /\ (v = "failure" => traceless)]]

HubFinishTaskEn(T) == T.task.st = "live" /\ HasFinished(T.task)
HubFinishTask(T) == Finish(T, IF T.task.errors > 0 THEN "failure" ELSE "ok")   \* WorkerTask / LoadStateTask::on_finish

\* somebody the task waits for cannot answer any more
Stuck(T) == \E x \in T.task.inflight : ~Alive(T, x[1]) \/ x[1] \in MuteWorkers
HubTimeoutTaskEn(T) == /\ T.task.st = "live" /\ ~HasFinished(T.task) /\ T.task.timed
                       /\ (SlowWorkers \/ Stuck(T))
HubTimeoutTask(T) == Finish(T, "failure")

\* ---- Environment: a worker dies; the hub (re)starts one ----
WorkerDieEn(T, w) == Alive(T, w)
WorkerDie(T, w) == [T EXCEPT !.wst[w] = "dead", !.m2w[w] = <<>>]

HubStartWorkerEn(T, w) == T.wst[w] = "none"
HubStartWorker(T, w) ==
  LET b == Boot(T.mcfg) IN
  [T EXCEPT !.wst[w] = "alive", !.hview[w] = "running", !.wcfg[w] = b.cfg, !.wpx[w] = b.px,
            !.task = IF T.task.st = "live" THEN [@ EXCEPT !.booted = @ \cup {w}] ELSE @]

---------------------------------------------------------------------------
(* The fixed schedule of the internal steps used by the generator and the trace spec *)

\* a fixed order of the worker ids (strings are not ordered in TLC)
WOrder == CHOOSE q \in [1..Cardinality(Workers) -> Workers] : \A i, j \in DOMAIN q : i # j => q[i] # q[j]
FirstW(P(_)) == LET idx == {i \in DOMAIN WOrder : P(WOrder[i])} IN
                IF idx = {} THEN "none" ELSE WOrder[CHOOSE i \in idx : \A j \in idx : i <= j]

\* one internal step, the first enabled one in a fixed priority order; T unchanged when none is enabled
InternalEnabled(T) ==
  \/ HubHandleClientRequestEn(T) \/ HubFinishTaskEn(T) \/ HubTimeoutTaskEn(T)
  \/ \E w \in Workers : WorkerHandleEn(T, w) \/ HubHandleWorkerResponseEn(T, w) \/ HubHandleWorkerCloseEn(T, w)
InternalStep(T) ==
  IF HubHandleClientRequestEn(T) THEN HubHandleClientRequest(T)
  ELSE LET wh == FirstW(LAMBDA w : WorkerHandleEn(T, w))
           wr == FirstW(LAMBDA w : HubHandleWorkerResponseEn(T, w))
           wc == FirstW(LAMBDA w : HubHandleWorkerCloseEn(T, w))
       IN IF wh # "none" THEN WorkerHandle(T, wh)
          ELSE IF wr # "none" THEN HubHandleWorkerResponse(T, wr)
          ELSE IF wc # "none" THEN HubHandleWorkerClose(T, wc)
          ELSE IF HubFinishTaskEn(T) THEN HubFinishTask(T)
          ELSE IF HubTimeoutTaskEn(T) THEN HubTimeoutTask(T)
          ELSE T
RECURSIVE Settle(_)
Settle(T) == IF InternalEnabled(T) THEN Settle(InternalStep(T)) ELSE T

\* what an operation leaves behind, for comparing schedules (channels may still hold stale answers)
CoreOf(T) == <<T.mcfg, T.wcfg, T.wpx, T.wst, T.hview, T.saved, T.ghost.icfg, T.ghost.last, T.ghost.clean, T.ghost.allOk>>

---------------------------------------------------------------------------
(* Actions *)

NoHist == UNCHANGED hist

Client_Send(op) == /\ ops < MaxOps /\ ClientSendEn(S, op)
                   /\ Set([ClientSend(S, op) EXCEPT !.ghost.pred = CoreOf(Settle(ClientSend(S, op))),
                                                      \* (a hang-up the hub has not handled yet races with the request)
                                                      !.ghost.predValid = ~InternalEnabled(S)])
                   /\ ops' = ops + 1 /\ UNCHANGED faults /\ NoHist
Hub_HandleClientRequest == HubHandleClientRequestEn(S) /\ Set(HubHandleClientRequest(S)) /\ UNCHANGED <<ops, faults>> /\ NoHist
Worker_Handle(w) == WorkerHandleEn(S, w) /\ Set(WorkerHandle(S, w)) /\ UNCHANGED <<ops, faults>> /\ NoHist
Hub_HandleWorkerResponse(w) == HubHandleWorkerResponseEn(S, w) /\ Set(HubHandleWorkerResponse(S, w)) /\ UNCHANGED <<ops, faults>> /\ NoHist
Hub_HandleWorkerClose(w) == HubHandleWorkerCloseEn(S, w) /\ Set(HubHandleWorkerClose(S, w)) /\ UNCHANGED <<ops, faults>> /\ NoHist
Hub_FinishTask == HubFinishTaskEn(S) /\ Set(HubFinishTask(S)) /\ UNCHANGED <<ops, faults>> /\ NoHist
Hub_TimeoutTask == HubTimeoutTaskEn(S) /\ Set(HubTimeoutTask(S)) /\ UNCHANGED <<ops, faults>> /\ NoHist
Worker_Die(w) == /\ faults < MaxFaults /\ WorkerDieEn(S, w) /\ Set([WorkerDie(S, w) EXCEPT !.ghost.predValid = FALSE])
                 /\ faults' = faults + 1 /\ UNCHANGED ops /\ NoHist
Hub_StartWorker(w) == /\ faults < MaxFaults /\ HubStartWorkerEn(S, w) /\ Set([HubStartWorker(S, w) EXCEPT !.ghost.predValid = FALSE])
                      /\ faults' = faults + 1 /\ UNCHANGED ops /\ NoHist
Client_SaveState == Client_Send(OpSave)
Client_LoadState == Client_Send(OpLoad)
Client_Command == \E c \in Cmds : Client_Send(OpCmd(c))

InitState ==
  [mcfg |-> CS!Empty,
   wcfg |-> [w \in Workers |-> CS!Empty],
   wpx |-> [w \in Workers |-> {}],
   wst |-> [w \in Workers |-> IF w \in InitWorkers THEN "alive" ELSE "none"],
   hview |-> [w \in Workers |-> IF w \in InitWorkers THEN "running" ELSE "none"],
   m2w |-> [w \in Workers |-> <<>>], w2m |-> [w \in Workers |-> <<>>],
   req |-> NoReq, task |-> NoTask, tid |-> 0, saved |-> NoFile, ghost |-> GhostInit]

Init ==        /\ mcfg = InitState.mcfg /\ wcfg = InitState.wcfg /\ wpx = InitState.wpx /\ wst = InitState.wst
               /\ hview = InitState.hview /\ m2w = InitState.m2w /\ w2m = InitState.w2m /\ req = NoReq
               /\ task = NoTask /\ tid = 0 /\ saved = NoFile /\ ghost = GhostInit
               /\ ops = 0 /\ faults = 0 /\ hist = <<>>

Next == \/ Client_Command \/ Client_SaveState \/ Client_LoadState
        \/ Hub_HandleClientRequest
        \/ \E w \in Workers : Worker_Handle(w) \/ Hub_HandleWorkerResponse(w) \/ Hub_HandleWorkerClose(w)
        \/ Hub_FinishTask \/ Hub_TimeoutTask
        \/ \E w \in Workers : Worker_Die(w) \/ Hub_StartWorker(w)
Spec == Init /\ [][Next]_vars

MCView == <<mcfg, wcfg, wpx, wst, hview, m2w, w2m, req, task, saved, ops, faults,
            [ghost EXCEPT !.verdicts = 0], tid>>

---------------------------------------------------------------------------
(* Properties *)

\* what a worker's (or the main process's) cluster queries show of a configuration: QueryClusterById answers
\* nothing for an unknown cluster id, so objects of unknown clusters are invisible
WView(s) == LET ids == {x.c : x \in s.clu} IN
            [clu |-> s.clu, bke |-> {b \in s.bke : b.c \in ids}, hfr |-> {f \in s.hfr : f.cl \in ids},
             tfr |-> {f \in s.tfr : f.c \in ids}]

TypeOK ==
  /\ \A w \in Workers : wst[w] \in {"none", "alive", "dead"} /\ hview[w] \in {"none", "running", "stopped"}
  /\ task.st \in {"none", "live"} /\ tid \in Nat
  /\ \A w \in Workers : hview[w] = "none" <=> wst[w] = "none"
  /\ \A w \in Workers : \A l \in wpx[w] : Cardinality({x \in wpx[w] : x.k = l.k /\ x.a = l.a}) = 1

\* C07: main process, workers and the commands the client was told were applied never drift apart
P_C07_NoDrift ==
  (Quiescent(S) /\ Settled(S)) =>
     /\ \A w \in RealAlive(S) : WView(wcfg[w]) = WView(mcfg)
     /\ mcfg = ghost.icfg
\* C07: a command whose final verdict is a failure changes neither the main process nor a worker nor a later save
\* (ghost.clean: at every failure verdict the configurations equal their pre-states, no request of a failed task is
\* applied afterwards, and every SaveState writes exactly the configuration of the accepted commands)
P_C07_RejectedLeavesNoTrace == ghost.clean
\* C08: after any sequence of commands that were all answered OK every live worker shows the main process's configuration
P_C08_Converges ==
  (ghost.allOk /\ Quiescent(S) /\ Settled(S)) =>
     \A w \in RealAlive(S) : WView(wcfg[w]) = WView(mcfg) /\ wcfg[w] = mcfg
\* C09: verdict OK only if every worker alive at dispatch acknowledged (and applied) every request of the task
P_C09_OkMeansApplied == ghost.okApplied
\* every interleaving of the internal steps of an operation ends where the fixed schedule `Settle` ends (the generator
\* and the trace spec take that schedule; this invariant ties them to the interleaved semantics checked here)
P_Confluent == (ghost.predValid /\ ~InternalEnabled(S)) => CoreOf(S) = ghost.pred
\* the worker's proxies hold the listeners its configuration says (the quantity every refusal depends on)
P_ProxiesFollowConfig ==
  (Deviations = {} /\ Quiescent(S) /\ Settled(S)) =>
     \A w \in RealAlive(S) : {[k |-> l.k, a |-> l.a] : l \in wpx[w]} = {[k |-> l.k, a |-> l.a] : l \in wcfg[w].lst}

---------------------------------------------------------------------------
(* Generator (S -> I): a scripted, quiescent environment with a deterministic schedule of the internal     *)
(* steps (they commute: workers are independent of each other).  `hist` records the script with what the   *)
(* real system must show at every quiescent point.                                                         *)

Observation(T) ==
  [main |-> CS!Proj(T.mcfg),
   mainv |-> WView(T.mcfg),
   workers |-> [w \in RealAlive(T) |-> WView(T.wcfg[w])],
   hv |-> [w \in {x \in Workers : T.hview[x] # "none"} |-> T.hview[w]],
   verdicts |-> T.ghost.verdicts]

\* the verdict delivered for script element e between T0 and T1 ("none" for environment steps, "hang" when none came)
LastVerdict(T0, T1, e) ==
  IF e.kind \in {"die", "start"} THEN "none"
  ELSE IF T1.ghost.verdicts = T0.ghost.verdicts THEN "hang"
  ELSE T1.ghost.last

GenOp(e) ==     \* e: a script element
  LET T0 == S
      T1 == CASE e.kind \in {"cmd", "save", "load"} -> Settle(ClientSend(T0, e))
              [] e.kind = "die" -> Settle(WorkerDie(T0, e.w))
              [] e.kind = "start" -> Settle(HubStartWorker(T0, e.w))
  IN /\ Set(T1)
     /\ hist' = Append(hist, [op |-> e, verdict |-> LastVerdict(T0, T1, e), obs |-> Observation(T1), pre |-> CoreOf(T0)])

GenNext ==
  /\ Quiescent(S) /\ Settled(S)
  /\ \/ /\ ops < MaxOps /\ ops' = ops + 1 /\ UNCHANGED faults
        /\ \E op \in ClientOps : GenOp(op)
     \/ /\ faults < MaxFaults /\ faults' = faults + 1 /\ UNCHANGED ops
        /\ \/ \E w \in RealWorkers : WorkerDieEn(S, w) /\ GenOp([kind |-> "die", w |-> w])
           \/ \E w \in Workers : HubStartWorkerEn(S, w) /\ GenOp([kind |-> "start", w |-> w])
GenSpec == Init /\ [][GenNext]_vars
\* one TLC state per transition (quiescent state, script element, resulting state): the script printed for it ends
\* with that very transition, whatever other paths lead to the same resulting state
GenView == <<MCView, IF hist = <<>> THEN <<>> ELSE <<hist[Len(hist)].op, hist[Len(hist)].pre>> >>

EmitState == (Emit /\ hist # <<>>) =>
  PrintT(<<"REPLAY", ToJson([script |-> [i \in 1..Len(hist) |-> [op |-> hist[i].op, verdict |-> hist[i].verdict, obs |-> hist[i].obs]]])>>)
=============================================================================
