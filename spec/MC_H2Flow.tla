----------------------------- MODULE MC_H2Flow -----------------------------
(* Bounded constants for H2Flow (C14). *)
EXTENDS H2Flow

S(w, f, m, t) == [initWin |-> w, maxFrame |-> f, maxStreams |-> m, tbl |-> t]

D_Default == S(2, 2, 2, 1)
\* send side: initial windows 0 / 1 / whole range, both frame sizes; one record that lowers the stream
\* limit and the HPACK table
SV_Send == {S(w, f, 2, 1) : w \in {0, 1, MaxWin}, f \in {1, 2}} \cup {S(2, 1, 1, 0)}
SV_Small == {S(0, 1, 2, 1), S(MaxWin, 2, 2, 1), S(1, 2, 1, 0)}
SV_One == {S(2, 2, 2, 1)}
SV_Win == {S(0, 1, 2, 1), S(1, 2, 2, 1), S(MaxWin, 2, 2, 1)}
SV_Limits == {S(2, 1, 1, 0), S(2, 2, 2, 1), S(1, 1, 2, 0)}
SV_Gen == {S(w, f, m, 1) : w \in {0, 1, 2, 4}, f \in {1, 2}, m \in {1, 2}} \cup {S(2, 1, 2, 0)}
HA_Plain == {<<1, TRUE, -1>>}
HA_Upd == {<<1, TRUE, u>> : u \in {-1, 0, 1}}
HA_All == {<<n, eh, upd>> : n \in HdrLens, eh \in BOOLEAN, upd \in {-1, 0, 1}}
=============================================================================
