SPECIFICATION TraceSpec
CONSTANTS
  Role = "server"
  Ids <- TraceIds
  MaxWin = 2147483647
  ConnInit = 65535
  Default <- TraceDefault
  SettingsVals <- TraceNone
  MaxSettings = 1000000
  Bodies <- TraceNone
  Ups <- TraceNone
  Grants <- TraceNone
  HdrLens <- TraceNone
  RecvInit = 65535
  RecvConn = 1048576
  Reaper = TRUE
  Legal = FALSE
  Deviations = {}
CONSTRAINT Track
INVARIANTS P_C14_Windows P_C14_NewStreamWindow P_C14_FrameSize P_C14_MaxStreams P_C14_StreamIds P_C14_Hpack P_C14_OwnWindows P_C14_Progress T_Conforms
PROPERTIES P_C14_WindowSteps P_C14_StreamStates
POSTCONDITION TraceAccepted
ALIAS TraceAlias
CHECK_DEADLOCK FALSE
