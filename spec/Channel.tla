------------------------------- MODULE Channel -------------------------------
(***************************************************************************)
(* The framed command channel of sozu (command/src/channel.rs) and its     *)
(* growable ring buffer (command/src/buffer/growable.rs), at 1:1 scale.    *)
(*                                                                         *)
(* One sender end (`back` buffer) and one receiver end (`front` buffer) of *)
(* a unix stream socket.  A frame is D bytes of little-endian total length *)
(* followed by the protobuf payload.  Bytes never overtake each other, so  *)
(* the byte stream is represented by the queue `frames` of the frames that *)
(* are somewhere between the sender's back buffer and the receiver's       *)
(* parser, plus the four byte counts that say where the stream is cut:     *)
(*    Data(back) | nWire | nSock | Data(front)                             *)
(* (sender buffer, in flight, readable by the receiver, receiver buffer).  *)
(*                                                                         *)
(* Actions = public calls of `Channel` (run-to-completion):                *)
(*   Write(L)        write_message of a message whose frame is L bytes     *)
(*   Tx_HandleEvents handle_events(WRITABLE)                               *)
(*   Writable(cs)    writable(): the kernel accepts the chunks cs, then    *)
(*                   would-block (or the buffer is drained)                *)
(*   Rx_HandleEvents handle_events(READABLE)                               *)
(*   Readable        readable(): read until would-block / full at MaxCap   *)
(*   ReadMessage     read_message() (non blocking)                         *)
(* Environment:                                                            *)
(*   Wire_Move(k)    k more bytes become readable by the receiver          *)
(*   Peer_Inject(f)  the peer puts a frame on the socket itself: a         *)
(*                   well-formed one, or a malformed one (declared length  *)
(*                   below D, above MaxCap, payload that does not decode)  *)
(***************************************************************************)
EXTENDS Naturals, Sequences, FiniteSets, TLC, Json

CONSTANTS D,             \* size of the length prefix (size_of::<usize>() = 8)
          InitCap,       \* initial_buffer_size
          MaxCap,        \* max_buffer_size
          WriteSizes,    \* frame lengths the sender attempts (may exceed MaxCap)
          InjGood,       \* lengths of well-formed frames injected by the peer
          InjUndec,      \* lengths of frames whose payload does not decode
          InjShort,      \* declared lengths < D (D bytes on the wire)
          InjOver,       \* declared lengths > MaxCap (that many bytes on the wire)
          MaxWrites, MaxInjects,   \* bounds on accepted writes / injections (only counted when Bounded)
          MaxInFlight,   \* bound on Len(frames)
          MaxChunks,     \* bound on the number of partial writes enumerated per writable() call
          Scope,         \* "tx": sender only (the stream is dropped after the socket); "rx": receiver only
                         \* (frames come from Peer_Inject); "e2e": both ends
          LazyInject,    \* TRUE: the peer starts a new frame only when its previous bytes have all reached the
                         \* receiver's socket (a reduction: the receiver cannot see the difference)
          Canonical,     \* TRUE: canonical schedules only - bytes move to the receiver's socket only when it is
                         \* empty and the receiver is woken up only when there is something to read (a reduction
                         \* for the quick exhaustive run: what readable() sees is still every possible amount)
          Bounded,       \* TRUE: count writes/injections and number the frames; FALSE: finite core state only
          History,       \* TRUE (needs Bounded): keep the observation history `obs` that P_C11_History talks about
          Record,        \* TRUE: keep the step history `hist` (generator configs)
          Depth,         \* generator: behaviour length
          Edges,         \* TRUE: edge-triggered notifications as in the real event loops (mio/epoll): the receiver's owner
                         \* is only GUARANTEED a readable event when new bytes arrive (`rxEv`), never for bytes that were
                         \* already reported; spurious wake-ups stay possible but nothing may depend on them (liveness
                         \* configs). FALSE: wake-ups at any time (a superset of behaviours: safety configs, conformance)
          Deviations     \* subset of {"UndecodableWedge", "OversizeWedge", "FullNoShift"}: the code as it (mis)behaves;
                         \* self-test switches (defect classes TLC must refute in every run): "ShrinkNoShift" (the buffer
                         \* is truncated without compacting the pending bytes first), "CeilingClearsReadiness" (readable()
                         \* at the ceiling forgets that the socket still holds bytes instead of dropping its interest),
                         \* "DrainClearsReadiness" (its mirror in writable(): a drained sender forgets that the socket is
                         \* writable instead of dropping its interest)

VARIABLES back, txI, txR,        \* sender: back buffer [pos,end,cap], interest/readiness has WRITABLE
          txEv,                  \* a writable edge has not been reported to the sender yet (only if Edges)
          front, rxI, rxR,       \* receiver: front buffer, interest/readiness has READABLE
          nWire, nSock,          \* bytes in flight / readable by the receiver
          rxEv,                  \* a readable edge has not been reported to the receiver yet (only if Edges)
          frames,                \* frames between the sender's buffer and the receiver's parser (FIFO)
          skip,                  \* receiver is discarding an oversized frame: bytes still to drop (design only)
          nW, nI, nextId,        \* counters (frozen unless Bounded)
          obs,                   \* observation history [sent, delivered, errs] (frozen unless History)
          hist                   \* step history (only if Record)

core == <<back, txI, txR, txEv, front, rxI, rxR, nWire, nSock, rxEv, frames, skip>>
vars == <<back, txI, txR, txEv, front, rxI, rxR, nWire, nSock, rxEv, frames, skip, nW, nI, nextId, obs, hist>>

RxOn == Scope # "tx"
TxOn == Scope # "rx"

Min(a, b) == IF a < b THEN a ELSE b
Max(a, b) == IF a > b THEN a ELSE b

---------------------------------------------------------------------------
(* Buffer (growable.rs): b = [pos, end, cap]                               *)

Buf(p, e, c) == [pos |-> p, end |-> e, cap |-> c]
Data(b)  == b.end - b.pos                       \* available_data
Space(b) == b.cap - b.end                       \* available_space

Shift(b) == IF b.pos > 0 THEN [b EXCEPT !.pos = 0, !.end = b.end - b.pos] ELSE b

\* consume(count): advance position, shift when position passes half of the capacity
Consume(b, n) ==
  LET c  == Min(n, Data(b))
      b1 == [b EXCEPT !.pos = @ + c]
  IN IF b1.pos > b1.cap \div 2 THEN Shift(b1) ELSE b1

\* fill(count): advance end, shift when the free tail is smaller than data + count
Fill(b, n) ==
  LET c  == Min(n, Space(b))
      b1 == [b EXCEPT !.end = @ + c]
  IN IF Space(b1) < Data(b1) + c THEN Shift(b1) ELSE b1

Grow(b, n) == IF b.cap >= n THEN b ELSE [b EXCEPT !.cap = n]

\* shrink(target): shifts first; gives up (after the shift) when data does not fit
Shrink(b, t) ==
  IF t >= b.cap THEN b
  ELSE IF "ShrinkNoShift" \in Deviations
       THEN IF Data(b) > t THEN b ELSE [b EXCEPT !.cap = t]       \* truncated under the pending bytes: pos/end keep their values
       ELSE LET s == Shift(b) IN IF s.end > t THEN s ELSE [s EXCEPT !.cap = t]

\* Channel::grow_size: doubling capped at MaxCap; 0 = None (already at the ceiling)
GrowSize(c) == IF c >= MaxCap THEN 0 ELSE Min(Max(Min(2 * c, MaxCap), c + 1), MaxCap)

RECURSIVE DoubleUntil(_, _)
DoubleUntil(c, n) == IF c >= n THEN c ELSE DoubleUntil(Max(2 * c, c + 1), n)

TryShrinkBack(b)  == IF b.cap <= InitCap THEN b ELSE IF Data(b) = 0 THEN Shrink(b, InitCap) ELSE b
TryShrinkFront(b) == IF b.cap <= InitCap THEN b ELSE IF Data(b) * 4 < InitCap THEN Shrink(b, InitCap) ELSE b

---------------------------------------------------------------------------
(* Frames *)

Frame(id, len, decl, kind) == [id |-> id, len |-> len, decl |-> decl, kind |-> kind]
InjectFrames ==
  {Frame(0, l, l, "good") : l \in InjGood} \cup {Frame(0, l, l, "undec") : l \in InjUndec} \cup
  {Frame(0, D, n, "short") : n \in InjShort} \cup {Frame(0, n, n, "over") : n \in InjOver}

\* total wire length of fs[i..] (index recursion: linear, traces can have hundreds of frames in flight)
RECURSIVE SumLenFrom(_, _)
SumLenFrom(fs, i) == IF i > Len(fs) THEN 0 ELSE fs[i].len + SumLenFrom(fs, i + 1)
\* bytes of `frames` not yet consumed by the receiver
Remaining == IF skip > 0 THEN skip + SumLenFrom(frames, 2) ELSE SumLenFrom(frames, 1)

---------------------------------------------------------------------------
(* Step functions: pure transcriptions of the code, used by the actions,   *)
(* by the trace specification and by the per-state transition tables.      *)

\* write_delimited_message + two write_all calls (delimiter, payload)
FillFrame(b, L) == LET b1 == Fill(b, D) IN IF L > D THEN Fill(b1, L - D) ELSE b1
WriteStep(b, L) ==
  LET b1 == IF L > Space(b) THEN Shift(b) ELSE b
  IN IF L > Space(b1)
     THEN LET needed == L - Space(b1) + b1.cap
          IN IF needed > MaxCap
             THEN [ok |-> FALSE, buf |-> b1]                           \* MessageTooLarge (after the shift)
             ELSE [ok |-> TRUE, buf |-> FillFrame(Grow(b1, Min(DoubleUntil(b1.cap, needed), MaxCap)), L)]
     ELSE [ok |-> TRUE, buf |-> FillFrame(b1, L)]

\* writable(): the socket accepts the chunks cs one write() at a time
RECURSIVE ConsumeAll(_, _)
ConsumeAll(b, cs) == IF cs = <<>> THEN b ELSE ConsumeAll(Consume(b, Head(cs)), Tail(cs))
RECURSIVE SumSeq(_)
SumSeq(cs) == IF cs = <<>> THEN 0 ELSE Head(cs) + SumSeq(Tail(cs))
WritableStep(b, cs) ==
  LET b1 == ConsumeAll(b, cs)
  IN IF Data(b1) = 0
     THEN [buf |-> TryShrinkBack(b1), drained |-> TRUE,  n |-> SumSeq(cs)]    \* interest loses WRITABLE
     ELSE [buf |-> b1,                drained |-> FALSE, n |-> SumSeq(cs)]    \* WouldBlock: readiness loses WRITABLE

\* readable(): loop { grow when full | read min(sock, space) } until would-block or full at the ceiling
RECURSIVE ReadLoop(_, _, _)
ReadLoop(b, n, cnt) ==
  IF Space(b) = 0
  THEN IF b.cap < MaxCap
       THEN ReadLoop(Grow(b, GrowSize(b.cap)), n, cnt)
       ELSE [buf |-> b, sock |-> n, n |-> cnt, stop |-> "full"]
  ELSE IF n = 0
       THEN [buf |-> b, sock |-> 0, n |-> cnt, stop |-> "wouldblock"]
       ELSE LET r == Min(n, Space(b)) IN ReadLoop(Fill(b, r), n - r, cnt + r)

\* read_message() non blocking = try_read_delimited_message + interest bookkeeping.
\* Result record: res, buf (front'), setI (interest gains READABLE), pop (head frame leaves), skip'
NoHead == Frame(0, 0, 0, "none")
ReadMsgAt(b, fs, sk) ==
  LET avail == Data(b)
      h     == IF fs = <<>> THEN NoHead ELSE Head(fs)
      \* the frame at the head is not complete yet: make room for the rest (shift, else grow)
      b0 == IF Space(b) = 0 /\ "FullNoShift" \notin Deviations THEN Shift(b) ELSE b
      incomplete ==
        IF Space(b0) = 0
        THEN IF b0.cap >= MaxCap
             THEN [res |-> "buffer_full", buf |-> b0, setI |-> FALSE, pop |-> FALSE, skip |-> sk]
             ELSE [res |-> "nothing_read", buf |-> Grow(b0, GrowSize(b0.cap)), setI |-> TRUE, pop |-> FALSE, skip |-> sk]
        ELSE [res |-> "nothing_read", buf |-> b0, setI |-> TRUE, pop |-> FALSE, skip |-> sk]
  IN IF avail >= D
     THEN IF h.decl > MaxCap
          THEN IF "OversizeWedge" \in Deviations
               THEN [res |-> "too_large", buf |-> b, setI |-> FALSE, pop |-> FALSE, skip |-> sk]   \* code: nothing consumed
               ELSE [res |-> "too_large", buf |-> Consume(b, D), setI |-> FALSE, pop |-> FALSE,
                     skip |-> h.decl - D]                                                        \* design: drop it as it arrives
          ELSE IF h.decl < D
          THEN [res |-> "under_delimiter", buf |-> Consume(b, D), setI |-> FALSE, pop |-> TRUE, skip |-> sk]
          ELSE IF avail >= h.decl
          THEN IF h.kind = "undec"
               THEN IF "UndecodableWedge" \in Deviations
                    THEN [res |-> "invalid_protobuf", buf |-> b, setI |-> FALSE, pop |-> FALSE, skip |-> sk]
                    ELSE [res |-> "invalid_protobuf", buf |-> Consume(b, h.decl), setI |-> FALSE, pop |-> TRUE, skip |-> sk]
               ELSE [res |-> "ok", buf |-> TryShrinkFront(Consume(b, h.decl)), setI |-> FALSE, pop |-> TRUE, skip |-> sk]
          ELSE incomplete
     ELSE incomplete

\* design-only prologue: while `skip` > 0 the receiver drops bytes of the oversized frame
ReadMsg ==
  IF skip > 0
  THEN LET n  == Min(skip, Data(front))
           b1 == Consume(front, n)
       IN IF skip - n > 0
          THEN [res |-> "nothing_read", buf |-> b1, setI |-> TRUE, pop |-> FALSE, skip |-> skip - n, popFirst |-> FALSE]
          ELSE ReadMsgAt(b1, Tail(frames), 0) @@ [popFirst |-> TRUE]
  ELSE ReadMsgAt(front, frames, 0) @@ [popFirst |-> FALSE]

---------------------------------------------------------------------------
(* Observation / history plumbing *)

B(x) == IF x THEN 1 ELSE 0
Proj(bk, ti, tr, fr, ri, rr, w, s) ==
  [tx |-> <<Data(bk), Space(bk), bk.cap, B(ti), B(tr)>>,
   rx |-> <<Data(fr), Space(fr), fr.cap, B(ri), B(rr)>>, wire |-> w, sock |-> s]

Log(step) == hist' = IF Record THEN Append(hist, step) ELSE hist
Count(v, on) == IF Bounded /\ on THEN v + 1 ELSE v
Obs(field, x, on) == IF History /\ on THEN [obs EXCEPT ![field] = Append(@, x)] ELSE obs

---------------------------------------------------------------------------
(* Actions *)

Init ==
  /\ back = Buf(0, 0, InitCap) /\ txI = FALSE /\ txR = FALSE
  /\ txEv = Edges                      \* registration reports the (initially writable) socket once
  /\ front = Buf(0, 0, InitCap) /\ rxI = TRUE /\ rxR = FALSE
  /\ nWire = 0 /\ nSock = 0 /\ rxEv = FALSE /\ frames = <<>> /\ skip = 0
  /\ nW = 0 /\ nI = 0 /\ nextId = 1
  /\ obs = [sent |-> <<>>, delivered |-> <<>>, errs |-> {}]
  /\ hist = <<>>

Write(L) ==
  LET r  == WriteStep(back, L)
      id == IF Bounded THEN nextId ELSE 0
      f  == Frame(id, L, L, "good")
  IN /\ TxOn /\ nW < MaxWrites
     /\ r.ok /\ RxOn => Len(frames) < MaxInFlight
     /\ back' = r.buf
     /\ txI' = (txI \/ r.ok)
     /\ frames' = IF r.ok /\ RxOn THEN Append(frames, f) ELSE frames
     /\ nW' = Count(nW, r.ok) /\ nextId' = Count(nextId, r.ok)
     /\ obs' = Obs("sent", f, r.ok)
     /\ UNCHANGED <<txEv, txR, front, rxI, rxR, nWire, nSock, rxEv, skip, nI>>
     /\ Log([op |-> "Write", len |-> L, id |-> id, res |-> IF r.ok THEN "ok" ELSE "too_large",
             st |-> Proj(back', txI', txR, front, rxI, rxR, nWire, nSock)])

\* handle_events(WRITABLE); Edges: see Rx_HandleEvents
Tx_HandleEvents ==
  /\ TxOn
  /\ IF Edges THEN txEv \/ (~Canonical /\ ~txR) ELSE ~txR
  /\ txR' = TRUE /\ txEv' = FALSE
  /\ UNCHANGED <<back, txI, front, rxI, rxR, nWire, nSock, rxEv, frames, skip, nW, nI, nextId, obs>>
  /\ Log([op |-> "TxEvents", st |-> Proj(back, txI, txR', front, rxI, rxR, nWire, nSock)])

\* writable() when the channel is not (interest & readiness).writable: Err(Connection(None)), nothing changes
WritableRefused ==
  /\ TxOn /\ ~(txI /\ txR) /\ Record
  /\ UNCHANGED <<txEv, back, txI, txR, front, rxI, rxR, nWire, nSock, rxEv, frames, skip, nW, nI, nextId, obs>>
  /\ Log([op |-> "Writable", chunks |-> <<>>, res |-> "refused", st |-> Proj(back, txI, txR, front, rxI, rxR, nWire, nSock)])

\* how writable() leaves the two words: drained = nothing to write (interest loses WRITABLE, the socket is still
\* writable); would-block = the socket is full (readiness loses WRITABLE)
WbI(drained) == IF "DrainClearsReadiness" \in Deviations THEN TRUE ELSE ~drained
WbR(drained) == IF "DrainClearsReadiness" \in Deviations THEN FALSE ELSE drained
Writable(cs) ==
  LET r == WritableStep(back, cs)
  IN /\ TxOn /\ txI /\ txR
     /\ SumSeq(cs) <= Data(back)
     /\ back' = r.buf
     /\ txI' = WbI(r.drained)
     /\ txR' = WbR(r.drained)
     /\ txEv' = IF Edges /\ ~r.drained THEN TRUE ELSE txEv     \* after a would-block the kernel reports the room it gets back
     /\ nWire' = IF RxOn THEN nWire + r.n ELSE nWire
     /\ UNCHANGED <<front, rxI, rxR, nSock, rxEv, frames, skip, nW, nI, nextId, obs>>
     /\ Log([op |-> "Writable", chunks |-> cs, res |-> "ok", n |-> r.n,
             st |-> Proj(back', txI', txR', front, rxI, rxR, nWire', nSock)])

Wire_Move(k) ==
  /\ RxOn /\ k \in 1..nWire
  /\ Canonical => nSock = 0
  /\ nWire' = nWire - k /\ nSock' = nSock + k
  /\ rxEv' = Edges                                \* new bytes: an edge the event loop will report
  /\ UNCHANGED <<txEv, back, txI, txR, front, rxI, rxR, frames, skip, nW, nI, nextId, obs>>
  /\ Log([op |-> "WireMove", k |-> k, st |-> Proj(back, txI, txR, front, rxI, rxR, nWire', nSock')])

Peer_Inject(f0) ==
  LET f == [f0 EXCEPT !.id = IF Bounded THEN nextId ELSE 0]
  IN /\ RxOn /\ nI < MaxInjects /\ Len(frames) < MaxInFlight
     /\ Data(back) = 0                 \* the peer's own frame does not cut a frame of the sender in two
     /\ LazyInject => nWire = 0
     /\ frames' = Append(frames, f)
     /\ nWire' = nWire + f.len
     /\ nI' = Count(nI, TRUE) /\ nextId' = Count(nextId, TRUE)
     /\ obs' = Obs("sent", f, TRUE)
     /\ UNCHANGED <<txEv, back, txI, txR, front, rxI, rxR, nSock, rxEv, skip, nW>>
     /\ Log([op |-> "Inject", id |-> f.id, len |-> f.len, decl |-> f.decl, kind |-> f.kind,
             st |-> Proj(back, txI, txR, front, rxI, rxR, nWire', nSock)])

\* handle_events(READABLE).  Edges: the report of a pending edge (whatever `readiness` says at that moment), or -
\* outside the canonical schedules - a spurious wake-up; otherwise any wake-up that changes something.
Rx_HandleEvents ==
  /\ RxOn
  /\ IF Edges THEN rxEv \/ (~Canonical /\ ~rxR)
              ELSE ~rxR /\ (Canonical => nSock > 0)
  /\ rxR' = TRUE /\ rxEv' = FALSE
  /\ UNCHANGED <<txEv, back, txI, txR, front, rxI, nWire, nSock, frames, skip, nW, nI, nextId, obs>>
  /\ Log([op |-> "RxEvents", st |-> Proj(back, txI, txR, front, rxI, rxR', nWire, nSock)])

ReadableRefused ==
  /\ RxOn /\ ~(rxI /\ rxR) /\ Record
  /\ UNCHANGED <<txEv, back, txI, txR, front, rxI, rxR, nWire, nSock, rxEv, frames, skip, nW, nI, nextId, obs>>
  /\ Log([op |-> "Readable", res |-> "refused", st |-> Proj(back, txI, txR, front, rxI, rxR, nWire, nSock)])

\* how readable() leaves the two words: would-block = the socket is dry (readiness loses READABLE); full at the
\* ceiling = "I do not want to read now, but the socket may still hold bytes" (interest loses READABLE, readiness kept)
StopI(stop) == IF "CeilingClearsReadiness" \in Deviations THEN TRUE ELSE stop # "full"
StopR(stop) == IF "CeilingClearsReadiness" \in Deviations THEN FALSE ELSE stop # "wouldblock"
Readable ==
  LET r == ReadLoop(front, nSock, 0)
  IN /\ RxOn /\ rxI /\ rxR
     /\ front' = r.buf /\ nSock' = r.sock
     /\ rxI' = StopI(r.stop)
     /\ rxR' = StopR(r.stop)
     /\ UNCHANGED <<txEv, back, txI, txR, nWire, rxEv, frames, skip, nW, nI, nextId, obs>>
     /\ Log([op |-> "Readable", res |-> "ok", n |-> r.n,
             st |-> Proj(back, txI, txR, front', rxI', rxR', nWire, nSock')])

ReadMessage ==
  LET r   == ReadMsg
      fs1 == IF r.popFirst THEN Tail(frames) ELSE frames
      h   == IF fs1 = <<>> THEN NoHead ELSE Head(fs1)
  IN /\ RxOn
     /\ front' = r.buf
     /\ rxI' = (rxI \/ r.setI)
     /\ skip' = r.skip
     /\ frames' = IF r.pop THEN Tail(fs1) ELSE fs1
     /\ obs' = IF ~History THEN obs
               ELSE IF r.res = "ok" THEN [obs EXCEPT !.delivered = Append(@, h.id)]
               ELSE IF r.res \in {"too_large", "under_delimiter", "invalid_protobuf", "buffer_full"}
                    THEN [obs EXCEPT !.errs = @ \cup {<<h.id, r.res>>}]
               ELSE obs
     /\ UNCHANGED <<txEv, back, txI, txR, rxR, nWire, nSock, rxEv, nW, nI, nextId>>
     /\ Log([op |-> "ReadMessage", res |-> r.res, id |-> IF r.res = "nothing_read" THEN 0 ELSE h.id,
             len |-> IF r.res = "ok" THEN h.len ELSE 0,
             st |-> Proj(back, txI, txR, front', rxI', rxR, nWire, nSock)])

RECURSIVE ChunkSeqs(_, _)
ChunkSeqs(n, m) ==
  IF m = 0 \/ n = 0 THEN {<<>>}
  ELSE {<<>>} \cup UNION {{<<k>> \o t : t \in ChunkSeqs(n - k, m - 1)} : k \in 1..n}

Next ==
  \/ \E L \in WriteSizes : Write(L)
  \/ Tx_HandleEvents
  \/ \E cs \in ChunkSeqs(Data(back), MaxChunks) : Writable(cs)
  \/ \E k \in 1..nWire : Wire_Move(k)
  \/ \E f \in InjectFrames : Peer_Inject(f)
  \/ Rx_HandleEvents
  \/ Readable
  \/ ReadMessage

Spec == Init /\ [][Next]_vars

\* Fairness: the kernel eventually accepts a byte, bytes eventually arrive, the owners of
\* both ends are woken up and call readable()/read_message()/writable() when there is work.
WritableProgress == \E k \in 1..Data(back) : Writable(<<k>>)
Fairness ==
  /\ WF_vars(Tx_HandleEvents /\ (Edges => txEv)) /\ SF_vars(WritableProgress)
  /\ WF_vars(\E k \in 1..nWire : Wire_Move(k))
  /\ WF_vars(Rx_HandleEvents /\ (Edges => rxEv))      \* edges are reported; a spurious wake-up is never owed
  /\ SF_vars(Readable) /\ WF_vars(ReadMessage)
FairSpec == Spec /\ Fairness

---------------------------------------------------------------------------
(* Generator (TLC -simulate): one random parameter per action so that the  *)
(* random walk is uniform over the kinds of step, not over their arguments *)

BoundarySizes == {D, D + 2, InitCap - 1, InitCap, InitCap + 1, MaxCap \div 2, MaxCap - D, MaxCap - 1, MaxCap, MaxCap + 1}
               \cap WriteSizes
PickSize == IF BoundarySizes # {} /\ RandomElement(1..3) = 1 THEN RandomElement(BoundarySizes) ELSE RandomElement(WriteSizes)
PickChunks ==
  LET n == Data(back)
  IN IF n = 0 THEN <<>>
     ELSE LET c == RandomElement(1..6)
          IN IF c = 1 THEN <<>>                              \* immediate would-block
             ELSE IF c = 2 THEN <<n>>                        \* everything
             ELSE LET k1 == RandomElement(1..n)
                  IN IF c <= 4 \/ k1 = n THEN <<k1>>
                     ELSE <<k1, RandomElement(1..(n - k1))>>
PickMove == LET c == RandomElement(1..4) IN IF c = 1 THEN nWire ELSE RandomElement(1..nWire)

GenNext ==
  /\ Len(hist) < Depth
  /\ \/ \E L \in {PickSize} : Write(L)
     \/ Tx_HandleEvents
     \/ (\E cs \in {PickChunks} : Writable(cs)) \/ WritableRefused
     \/ (nWire > 0 /\ \E k \in {PickMove} : Wire_Move(k))
     \/ (InjectFrames # {} /\ \E f \in {RandomElement(InjectFrames)} : Peer_Inject(f))
     \/ Rx_HandleEvents
     \/ Readable \/ ReadableRefused
     \/ ReadMessage
GenSpec == Init /\ [][GenNext]_vars

EmitHist ==
  (Record /\ Len(hist) = Depth) =>
    PrintT(<<"REPLAY", ToJson([d |-> D, init |-> InitCap, max |-> MaxCap, steps |-> hist])>>)

---------------------------------------------------------------------------
(* Transition tables: the four step functions evaluated on EVERY buffer    *)
(* state that satisfies the buffer invariants (a superset of the reachable *)
(* ones), for every argument.  TLC enumerates the states as initial states *)
(* and prints one table per state; the replayer puts a real Channel in     *)
(* that state through the public fields and executes every row.            *)

RECURSIVE CapsFrom(_)
CapsFrom(c) == IF c >= MaxCap THEN {MaxCap} ELSE {c} \cup CapsFrom(GrowSize(c))
\* (an operator with a parameter: TLC evaluates parameterless constant definitions at start-up, and this set
\* is astronomically large at production sizes, where only the trace specification is used)
AllBufsFrom(c0) == UNION {UNION {{Buf(p, e, c) : e \in p..c} : p \in 0..(c \div 2)} : c \in CapsFrom(c0)}
TableSock == MaxCap + D

WrRow(L) == LET r == WriteStep(back, L) IN <<L, B(r.ok), Data(r.buf), Space(r.buf), r.buf.cap>>
WbRow(k) == LET r == WritableStep(back, IF k = 0 THEN <<>> ELSE <<k>>)
            IN <<k, Data(r.buf), Space(r.buf), r.buf.cap, B(WbI(r.drained)), B(WbR(r.drained)), r.n>>
RdRow(n) == LET r == ReadLoop(back, n, 0)
            IN <<n, Data(r.buf), Space(r.buf), r.buf.cap, r.sock, B(StopI(r.stop)), B(StopR(r.stop)), r.n>>
RmRow(f) == LET r == ReadMsgAt(back, <<f>>, 0)
            IN <<f.len, f.decl, f.kind, r.res, Data(r.buf), Space(r.buf), r.buf.cap, B(r.setI), B(r.pop)>>

TableInit ==
  /\ back \in AllBufsFrom(InitCap) /\ txI = FALSE /\ txR = FALSE /\ txEv = Edges
  /\ front = Buf(0, 0, InitCap) /\ rxI = TRUE /\ rxR = FALSE
  /\ nWire = 0 /\ nSock = 0 /\ rxEv = FALSE /\ frames = <<>> /\ skip = 0
  /\ nW = 0 /\ nI = 0 /\ nextId = 1
  /\ obs = [sent |-> <<>>, delivered |-> <<>>, errs |-> {}]
  /\ hist = <<>>
TableSpec == TableInit /\ [][FALSE]_vars

EmitTables ==
  PrintT(<<"REPLAY", ToJson([d |-> D, init |-> InitCap, max |-> MaxCap,
                             buf |-> <<back.pos, back.end, back.cap>>,
                             write    |-> {WrRow(L) : L \in WriteSizes},
                             writable |-> {WbRow(k) : k \in 0..Data(back)},
                             readable |-> {RdRow(n) : n \in 0..TableSock},
                             readmsg  |-> {RmRow(f) : f \in InjectFrames}])>>)

---------------------------------------------------------------------------
(* Properties (C11) *)

BufOK(b) == b.pos \in Nat /\ b.end \in Nat /\ b.cap \in Nat
TypeOK == /\ BufOK(back) /\ BufOK(front)
          /\ txI \in BOOLEAN /\ txR \in BOOLEAN /\ rxI \in BOOLEAN /\ rxR \in BOOLEAN
          /\ nWire \in Nat /\ nSock \in Nat /\ skip \in Nat /\ rxEv \in BOOLEAN /\ txEv \in BOOLEAN /\ (~Edges => (~rxEv /\ ~txEv))

\* (d) every slice the code takes is in range
P_C11_Slices == /\ back.pos <= back.end /\ back.end <= back.cap
                /\ front.pos <= front.end /\ front.end <= front.cap

\* (b) memory ceiling (and the shrink floor)
P_C11_Bounded == /\ back.cap <= MaxCap /\ front.cap <= MaxCap
                 /\ back.cap >= InitCap /\ front.cap >= InitCap

\* no byte is lost or duplicated between the four places a byte can be
P_C11_Conservation == RxOn => (Remaining = Data(back) + nWire + nSock + Data(front))

\* the receiver never reports BufferFull: whatever is at the head of the stream, read_message either
\* delivers, reports the malformed frame, or waits for more bytes with room to receive them
P_C11_NoBufferFull == RxOn => ReadMsg.res # "buffer_full"

\* every message up to the maximum is accepted by a drained sender
P_C11_WriteAccepted == \A L \in D..MaxCap : Data(back) = 0 => WriteStep(back, L).ok

\* a message above the maximum is refused, whatever the state
P_C11_WriteRefused == \A L \in WriteSizes : L > MaxCap => ~WriteStep(back, L).ok

\* when the receiver waits for more bytes it can receive them: either there is room, or readable() will make room
P_C11_CanReceive == (RxOn /\ ReadMsg.res = "nothing_read") => (Space(ReadMsg.buf) > 0 \/ ReadMsg.buf.cap < MaxCap)

\* (a) history form: delivered = the well-formed frames, in the order sent, each once, up to the frames still queued;
\* (c) every malformed frame that left the queue left an error behind, and was not delivered
GoodIds(fs) == LET g == SelectSeq(fs, LAMBDA f : f.kind = "good") IN [i \in 1..Len(g) |-> g[i].id]
IsPrefixOf(s, t) == Len(s) <= Len(t) /\ \A i \in 1..Len(s) : s[i] = t[i]
P_C11_History ==
  History =>
    LET good    == GoodIds(obs.sent)
        queued  == {frames[i].id : i \in 1..Len(frames)}
        badGone == {obs.sent[i].id : i \in {j \in 1..Len(obs.sent) : obs.sent[j].kind # "good"}} \ queued
        errIds  == {e[1] : e \in obs.errs}
    IN /\ IsPrefixOf(obs.delivered, good)                     \* in order, once, nothing that was not sent
       /\ Len(obs.delivered) + Cardinality({i \in 1..Len(frames) : frames[i].kind = "good"}) = Len(good)   \* none lost
       /\ obs.delivered # <<>> => \A i \in 1..Len(frames) : frames[i].id > obs.delivered[Len(obs.delivered)]
       /\ badGone \subseteq errIds                             \* a malformed frame that left the queue left an error
       /\ \A i \in 1..Len(obs.delivered) : obs.delivered[i] \notin errIds

\* history-free form of (a): frames enter at the tail and leave only from the head, whole and buffered
P_C11_DeliverHead ==
  [][frames' # frames =>
       \/ Len(frames') = Len(frames) + 1 /\ SubSeq(frames', 1, Len(frames)) = frames
       \/ frames' = Tail(frames) /\ (skip > 0 \/ Data(front) >= Head(frames).len)
       \/ skip > 0 /\ Len(frames) >= 2 /\ frames' = Tail(Tail(frames))]_vars

\* implementation lemmas the argument above rests on
Lemma_PosHalf == back.pos <= back.cap \div 2 /\ front.pos <= front.cap \div 2

\* liveness (c, no wedge) + (a, all delivered): the pipeline is empty again and again
P_C11_Live == []<>(frames = <<>> /\ Data(back) = 0)

P_C11 == P_C11_Slices /\ P_C11_Bounded /\ P_C11_Conservation /\ P_C11_NoBufferFull /\ P_C11_WriteAccepted
         /\ P_C11_WriteRefused /\ P_C11_CanReceive /\ P_C11_History

\* VIEW for the exhaustive configs with Bounded = FALSE (counters and histories are frozen anyway)
CoreView == core
=============================================================================
