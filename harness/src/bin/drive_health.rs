//! I->S driver for spec/HealthCheck.tla (property C12, health part).
//!
//! Starts REAL sozu workers (vh::worker), one per run, several in parallel. Each run: an HTTP
//! listener, one or two clusters with frontends, backends b1@1 b2@2 b3@1 (b3 shares b1's server)
//! and sometimes b4 at an address connect() refuses synchronously, `SetHealthCheck` with a
//! 1-second interval. Mock backends (hckit::Mock, one thread per address) answer the probe with
//! 200 / 204 / 500, close, stall or refuse according to a mode that the seeded schedule changes
//! over time; ordinary proxied requests are always answered with the server's name. While the
//! checker runs the driver sends client requests, mode changes and configuration commands
//! (SetHealthCheck, RemoveHealthCheck, AddCluster with / without a health check, RemoveCluster,
//! AddBackend, RemoveBackend).
//!
//! The trace is built from the worker thread's own `cfg(sozu_verif)` hook events (`hc_*`,
//! `worker_cmd`): they are totally ordered by the single worker thread, so no wall clock is used to
//! order anything. Observations of other threads are tied in causally:
//!   * what the mock did with a probe is joined by the probe connection's local port;
//!   * a client request carries the positions of the hook stream read before it was sent and after
//!     its answer arrived: the backend was selected in some state in between;
//!   * a mode change carries the position read before the listening socket was touched.
//! `tick` events are inserted where the checker's own clock (the Instant it decided on, reported
//! by the hooks) crosses a second.
//!
//! usage: drive_health --seed S --runs N --threads T --secs D --out trace.ndjson
//! stdout: one {"kind":"summary",...} line (+ {"kind":"violation",...} for a worker panic).

use std::collections::{BTreeMap, HashMap, HashSet};
use std::io::Write;
use std::panic::{AssertUnwindSafe, catch_unwind};
use std::sync::atomic::{AtomicUsize, Ordering};
use std::sync::{Arc, Mutex};
use std::time::{Duration, Instant};

use serde_json::{Value, json};
use sozu_command_lib::proto::command::{
    Cluster, HardStop, RemoveBackend, SetHealthCheck, request::RequestType,
};
use vh::c12kit::Rng;
use vh::hckit::{self, Counts, Hook, Mock, Net, bump};
use vh::worker::{Worker, ok};

type Cfg = (u32, u32, u32, u32, u32); // interval, timeout, hth, uth, expect

fn cfg_json(k: Option<Cfg>) -> Value {
    let (i, t, h, u, e) = k.unwrap_or((0, 0, 0, 0, 0));
    json!({"interval": i, "timeout": t, "hth": h, "uth": u, "expect": e})
}

#[derive(Clone)]
struct Cmd {
    op: &'static str,
    c: String,
    k: Option<Cfg>,
    bid: String,
    addr: usize,
}

struct ReqObs {
    lo: usize,
    hi: usize,
    c: String,
    served: usize,
    status: u32,
    st: i64,
}

struct ModeObs {
    pos: usize,
    addr: usize,
    m: u8,
    st: i64,
}

struct RunOut {
    events: Vec<Value>,
    counts: Counts,
    panic: Option<String>,
    samples: Vec<String>,
}

fn random_cfg(rng: &mut Rng, profile: u64) -> Cfg {
    // interval 1 s throughout (the run lasts seconds); a timeout longer than the interval in some runs
    let timeout = if profile % 3 == 2 { 2 } else { 1 };
    let hth = 1 + rng.below(3) as u32;
    let uth = 1 + rng.below(3) as u32;
    let expect = *rng.pick(&[0u32, 0, 200, 204]);
    (1, timeout, hth, uth, expect)
}

fn cluster_with(c: &str, k: Option<Cfg>) -> Cluster {
    let mut cl = Worker::default_cluster(c);
    cl.health_check = k.map(|(i, t, h, u, e)| hckit::hc_config(i, t, h, u, e));
    cl
}

/// A scripted step of the fixed scenarios (the first runs of every execution): interleavings that the random
/// schedule reaches only now and then.
enum Step {
    Cmd(&'static str, Option<Cfg>, &'static str, usize),
    Mode(usize, u8),
    Sleep(u64),
    Reqs(usize),
}

fn scenario_steps(n: u64) -> Vec<Step> {
    use Step::*;
    match n {
        // a probe is in flight (server stalls, threshold 1) when the cluster is redefined without a health check
        1 => vec![Mode(1, hckit::M_STALL), Cmd("AddBackend", None, "b1", 1), Cmd("AddBackend", None, "b2", 2),
                  Cmd("SetHealthCheck", Some((1, 2, 1, 1, 0)), "", 0), Sleep(400), Cmd("AddClusterNoHc", None, "", 0),
                  Sleep(2600), Reqs(6), Sleep(600)],
        // a backend is marked down, the health check is removed and configured again
        2 => vec![Mode(1, hckit::M_500), Cmd("AddBackend", None, "b1", 1), Cmd("AddBackend", None, "b2", 2),
                  Cmd("SetHealthCheck", Some((1, 1, 2, 2, 0)), "", 0), Sleep(700), Reqs(3), Sleep(700), Reqs(3), Sleep(1400), Reqs(4),
                  Cmd("RemoveHealthCheck", None, "", 0), Reqs(8), Sleep(300),
                  Cmd("SetHealthCheck", Some((1, 1, 2, 2, 0)), "", 0), Sleep(600), Reqs(4), Sleep(1500), Reqs(4), Sleep(1000)],
        // two backends share a failing server, then it recovers
        3 => vec![Mode(1, hckit::M_500), Cmd("AddBackend", None, "b1", 1), Cmd("AddBackend", None, "b3", 1), Cmd("AddBackend", None, "b2", 2),
                  Cmd("SetHealthCheck", Some((1, 1, 1, 2, 0)), "", 0), Sleep(900), Reqs(4), Sleep(1300), Reqs(4), Sleep(1300), Reqs(6),
                  Mode(1, hckit::M_200), Sleep(1500), Reqs(6), Sleep(1200), Reqs(4)],
        // a backend is removed and added again while its probe is in flight; RemoveCluster with a probe in flight
        _ => vec![Mode(1, hckit::M_STALL), Cmd("AddBackend", None, "b1", 1), Cmd("AddBackend", None, "b2", 2),
                  Cmd("SetHealthCheck", Some((1, 2, 1, 1, 0)), "", 0), Sleep(300), Cmd("RemoveBackend", None, "b1", 1),
                  Cmd("AddBackend", None, "b1", 1), Sleep(2600), Reqs(6), Sleep(1200), Reqs(2), Sleep(2400),
                  Cmd("RemoveCluster", None, "", 0),
                  Cmd("AddClusterNoHc", None, "", 0), Sleep(2500), Reqs(4)],
    }
}

fn drive(run: u64, seed: u64, index_base: u64, secs: u64, scenario: Option<u64>) -> RunOut {
    let mut rng = Rng(seed.wrapping_mul(0x9E37_79B9).wrapping_add(run.wrapping_mul(0x85EB_CA6B)) ^ 0xC12);
    for _ in 0..3 {
        rng.next();
    }
    let profile = if scenario.is_some() { 0 } else { rng.below(6) };
    // profiles: 0,1 = plain; 2 = long timeout; 3 = with refusing servers; 4 = with the unroutable b4; 5 = two clusters, long timeout
    let unroutable = if profile == 4 { 4 } else { 0 };
    let refusing = profile == 3 || profile == 4;
    let clusters: Vec<&str> = if profile == 5 || profile == 1 { vec!["c1", "c2"] } else { vec!["c1"] };
    let net = Net::for_index(index_base + run, unroutable);
    let name = format!("hc{}", index_base + run);
    let log = hckit::register_log(&name);
    let mut counts = Counts::new();
    let mut samples: Vec<String> = Vec::new();

    let mocks: Vec<Mock> = [1usize, 2]
        .iter()
        .map(|a| Mock::start(&net, *a, if rng.below(4) == 0 { hckit::M_500 } else { hckit::M_200 }, seed ^ (run << 8) ^ *a as u64))
        .collect();
    let mut modes: Vec<ModeObs> = Vec::new();
    for m in &mocks {
        m.set_mode(m.mode.load(Ordering::SeqCst)); // wait for the listening socket
        modes.push(ModeObs { pos: 0, addr: m.addr, m: m.mode.load(Ordering::SeqCst), st: hckit::now_ms() });
    }

    let mut w = Worker::start_empty(&name);
    let t_cmd = Duration::from_secs(5);
    let mut cmds: HashMap<String, Cmd> = HashMap::new();
    let send = |w: &mut Worker, cmds: &mut HashMap<String, Cmd>, rt: RequestType, cmd: Option<Cmd>| -> bool {
        let id = w.send_type(rt);
        if let Some(c) = cmd {
            cmds.insert(id.clone(), c);
        }
        let r = w.wait_for(&id, t_cmd).into_iter().find(|r| r.status != sozu_command_lib::proto::command::ResponseStatus::Processing as i32);
        ok(&r)
    };
    let cmd = |op: &'static str, c: &str, k: Option<Cfg>, bid: &str, addr: usize| Some(Cmd { op, c: c.to_string(), k, bid: bid.to_string(), addr });

    let mut setup_ok = w.add_http_listener(net.listener(), t_cmd);
    let mut registered: BTreeMap<String, Vec<(String, usize)>> = BTreeMap::new();
    let mut has_cfg: BTreeMap<String, bool> = BTreeMap::new();
    for c in &clusters {
        setup_ok &= send(&mut w, &mut cmds, RequestType::AddCluster(cluster_with(c, None)), cmd("AddClusterNoHc", c, None, "", 0));
        setup_ok &= send(&mut w, &mut cmds, RequestType::AddHttpFrontend(Worker::http_frontend(c, net.listener(), &format!("{c}.test"), "/")), None);
        registered.insert(c.to_string(), Vec::new());
        has_cfg.insert(c.to_string(), false);
    }
    let slots: Vec<(&str, usize)> = hckit::SLOTS.iter().filter(|s| s.1 != 4 || unroutable == 4).copied().collect();
    for c in &clusters {
        if scenario.is_some() {
            break;
        }
        for (id, a) in &slots {
            if rng.below(10) < 7 || (*id == "b1") {
                setup_ok &= send(&mut w, &mut cmds, RequestType::AddBackend(Worker::backend(c, id, net.backend(*a))), cmd("AddBackend", c, None, id, *a));
                registered.get_mut(*c).unwrap().push((id.to_string(), *a));
            }
        }
        let k = random_cfg(&mut rng, profile);
        setup_ok &= send(&mut w, &mut cmds, RequestType::SetHealthCheck(SetHealthCheck { cluster_id: c.to_string(), config: hckit::hc_config(k.0, k.1, k.2, k.3, k.4) }), cmd("SetHealthCheck", c, Some(k), "", 0));
        has_cfg.insert(c.to_string(), true);
    }
    if !setup_ok {
        bump(&mut counts, "setup_failed");
    }

    let mut reqs: Vec<ReqObs> = Vec::new();
    let mut panic: Option<String> = None;
    let one_request = |c: &str, reqs: &mut Vec<ReqObs>, counts: &mut Counts| {
        let lo = log.position();
        let (status, body) = hckit::client_get(net.listener(), &format!("{c}.test"), Duration::from_secs(3));
        let hi = log.position();
        let served = body.strip_prefix('a').and_then(|x| x.parse::<usize>().ok()).unwrap_or(0);
        reqs.push(ReqObs { lo, hi, c: c.to_string(), served: if status == 200 { served } else { 0 }, status, st: hckit::now_ms() });
        bump(counts, if status == 200 { "req_served" } else { "req_unserved" });
    };
    if let Some(n) = scenario {
        bump(&mut counts, &format!("scenario_{n}"));
        for step in scenario_steps(n) {
            match step {
                Step::Sleep(ms) => std::thread::sleep(Duration::from_millis(ms)),
                Step::Reqs(k) => {
                    for _ in 0..k {
                        one_request("c1", &mut reqs, &mut counts);
                        std::thread::sleep(Duration::from_millis(15));
                    }
                }
                Step::Mode(a, m) => {
                    let pos = log.position();
                    let st = hckit::now_ms();
                    mocks.iter().find(|x| x.addr == a).unwrap().set_mode(m);
                    modes.push(ModeObs { pos, addr: a, m, st });
                }
                Step::Cmd(op, k, id, a) => {
                    let c = "c1";
                    let rt = match op {
                        "AddBackend" => RequestType::AddBackend(Worker::backend(c, id, net.backend(a))),
                        "RemoveBackend" => RequestType::RemoveBackend(RemoveBackend { cluster_id: c.to_string(), backend_id: id.to_string(), address: net.backend(a).into() }),
                        "SetHealthCheck" => {
                            let k = k.unwrap();
                            RequestType::SetHealthCheck(SetHealthCheck { cluster_id: c.to_string(), config: hckit::hc_config(k.0, k.1, k.2, k.3, k.4) })
                        }
                        "RemoveHealthCheck" => RequestType::RemoveHealthCheck(c.to_string()),
                        "RemoveCluster" => RequestType::RemoveCluster(c.to_string()),
                        _ => RequestType::AddCluster(cluster_with(c, None)),
                    };
                    let okay = send(&mut w, &mut cmds, rt, cmd(op, c, k, id, a));
                    bump(&mut counts, if okay { "cmd_ok" } else { "cmd_failed" });
                }
            }
        }
    }
    let deadline = Instant::now() + Duration::from_secs(if scenario.is_some() { 0 } else { secs });
    while Instant::now() < deadline {
        if w.is_finished() {
            break;
        }
        let roll = rng.below(100);
        if roll < 60 {
            let c = *rng.pick(&clusters);
            one_request(c, &mut reqs, &mut counts);
        } else if roll < 67 {
            let m = rng.pick(&mocks);
            let choices: &[u8] = if refusing {
                &[hckit::M_200, hckit::M_200, hckit::M_204, hckit::M_500, hckit::M_CLOSE, hckit::M_STALL, hckit::M_REFUSE, hckit::M_REFUSE]
            } else {
                &[hckit::M_200, hckit::M_200, hckit::M_200, hckit::M_204, hckit::M_500, hckit::M_500, hckit::M_CLOSE, hckit::M_STALL]
            };
            let mode = *rng.pick(choices);
            let pos = log.position();
            let st = hckit::now_ms();
            m.set_mode(mode);
            modes.push(ModeObs { pos, addr: m.addr, m: mode, st });
            bump(&mut counts, &format!("mode_{}", hckit::mode_name(mode)));
        } else if roll < 77 {
            let c = rng.pick(&clusters).to_string();
            // an emptied cluster gets a backend back first
            let sub = if registered[&c].is_empty() { 70 } else { rng.below(100) };
            let okay = if sub < 26 {
                let k = random_cfg(&mut rng, profile);
                has_cfg.insert(c.clone(), true);
                send(&mut w, &mut cmds, RequestType::SetHealthCheck(SetHealthCheck { cluster_id: c.clone(), config: hckit::hc_config(k.0, k.1, k.2, k.3, k.4) }), cmd("SetHealthCheck", &c, Some(k), "", 0))
            } else if sub < 38 {
                has_cfg.insert(c.clone(), false);
                send(&mut w, &mut cmds, RequestType::RemoveHealthCheck(c.clone()), cmd("RemoveHealthCheck", &c, None, "", 0))
            } else if sub < 46 {
                has_cfg.insert(c.clone(), false);
                send(&mut w, &mut cmds, RequestType::AddCluster(cluster_with(&c, None)), cmd("AddClusterNoHc", &c, None, "", 0))
            } else if sub < 54 {
                let k = random_cfg(&mut rng, profile);
                has_cfg.insert(c.clone(), true);
                send(&mut w, &mut cmds, RequestType::AddCluster(cluster_with(&c, Some(k))), cmd("SetHealthCheck", &c, Some(k), "", 0))
            } else if sub < 60 {
                // RemoveCluster, and the cluster comes back at once (the frontends keep pointing at it)
                has_cfg.insert(c.clone(), false);
                let a = send(&mut w, &mut cmds, RequestType::RemoveCluster(c.clone()), cmd("RemoveCluster", &c, None, "", 0));
                a & send(&mut w, &mut cmds, RequestType::AddCluster(cluster_with(&c, None)), cmd("AddClusterNoHc", &c, None, "", 0))
            } else if sub < 86 {
                let (id, a) = *rng.pick(&slots);
                let list = registered.get_mut(&c).unwrap();
                if !list.iter().any(|x| x.0 == id && x.1 == a) {
                    list.push((id.to_string(), a));
                }
                send(&mut w, &mut cmds, RequestType::AddBackend(Worker::backend(&c, id, net.backend(a))), cmd("AddBackend", &c, None, id, a))
            } else {
                let (id, a) = *rng.pick(&slots);
                registered.get_mut(&c).unwrap().retain(|x| x.1 != a);
                send(
                    &mut w,
                    &mut cmds,
                    RequestType::RemoveBackend(RemoveBackend { cluster_id: c.clone(), backend_id: id.to_string(), address: net.backend(a).into() }),
                    cmd("RemoveBackend", &c, None, id, a),
                )
            };
            bump(&mut counts, if okay { "cmd_ok" } else { "cmd_failed" });
        }
        std::thread::sleep(Duration::from_millis(20 + rng.below(110)));
    }
    let end_pos = log.position();
    let end_st = hckit::now_ms();

    // stop the worker before the mocks go away (their teardown must not become probe results)
    if !w.is_finished() {
        let _ = w.send_type(RequestType::HardStop(HardStop {}));
    }
    match w.join_within(Duration::from_secs(5)) {
        Ok(true) => unsafe {
            libc::close(w.scm_main_to_worker.raw_fd());
            libc::close(w.scm_worker_to_main.raw_fd());
        },
        Ok(false) => bump(&mut counts, "worker_hang"),
        Err(p) => panic = Some(p),
    }
    let raw: Vec<Hook> = log.events.lock().unwrap_or_else(|p| p.into_inner()).clone();
    let raw: Vec<Hook> = raw.into_iter().take(end_pos).collect();
    hckit::forget_log(&name);
    let seen: HashMap<usize, Vec<hckit::Seen>> = mocks.iter().map(|m| (m.addr, m.probes.lock().unwrap().clone())).collect();
    let client_total: usize = mocks.iter().map(|m| m.client_requests.load(Ordering::SeqCst)).sum();
    counts.insert("mock_client_requests".to_string(), client_total as u64);
    drop(mocks);

    // ---- build the trace ------------------------------------------------------------------------
    // hook-derived events, each with the raw position after which it is complete
    let mut derived: Vec<(usize, Value)> = Vec::new();
    let mut timed_out: HashSet<i64> = HashSet::new();
    let mut started: HashMap<i64, (i64, usize)> = HashMap::new(); // token -> (local port, model addr)
    let mut used: HashMap<usize, HashSet<usize>> = HashMap::new(); // addr -> consumed indexes of `seen`
    let mut pending_drop: Option<(String, i64, i64)> = None;
    let mut tick = -1i64;
    let mut push_ticks = |derived: &mut Vec<(usize, Value)>, pos: usize, t_ms: i64, st: i64, counts: &mut Counts| {
        let now = t_ms / 1000;
        if tick < 0 {
            tick = now;
        }
        while tick < now {
            tick += 1;
            derived.push((pos, json!({"ev": "tick", "st": st})));
            bump(counts, "ev_tick");
        }
    };
    let result_fields = |h: &Hook, net: &Net| -> Value {
        json!({
            "id": h.s("backend"), "addr": net.model_addr(&h.s("address")), "ok": h.num("success") == 1,
            "credited": h.num("credited") == 1, "cid": h.s("credited_backend"), "caddr": net.model_addr(&h.s("credited_address")),
            "h": h.num("healthy") == 1, "cs": h.num("consecutive_successes").max(0), "cf": h.num("consecutive_failures").max(0),
        })
    };
    let mut i = 0usize;
    while i < raw.len() {
        let h = &raw[i];
        match h.kind {
            "hc_round" => {
                push_ticks(&mut derived, i, h.num("t_ms"), h.st, &mut counts);
                let mut probes: Vec<Value> = Vec::new();
                let mut imm: Vec<Value> = Vec::new();
                let mut j = i + 1;
                while j < raw.len() && (raw[j].kind == "hc_start" || raw[j].kind == "hc_result") {
                    let x = &raw[j];
                    if x.kind == "hc_start" {
                        let a = net.model_addr(&x.s("address"));
                        started.insert(x.num("token"), (x.num("local_port"), a));
                        probes.push(json!({"id": x.s("backend"), "addr": a, "tok": x.num("token")}));
                    } else {
                        imm.push(result_fields(x, &net));
                    }
                    j += 1;
                }
                bump(&mut counts, "ev_round");
                counts.insert("probes_started".to_string(), counts.get("probes_started").copied().unwrap_or(0) + probes.len() as u64);
                counts.insert("immediate_failures".to_string(), counts.get("immediate_failures").copied().unwrap_or(0) + imm.len() as u64);
                derived.push((j, json!({
                    "ev": "round", "c": h.s("cluster"), "since": h.num("since_ms"), "st": h.st,
                    "k": {"interval": h.num("interval"), "timeout": h.num("timeout"), "hth": h.num("healthy_threshold"),
                          "uth": h.num("unhealthy_threshold"), "expect": h.num("expected_status")},
                    "probes": probes, "imm": imm,
                })));
                i = j;
                continue;
            }
            "hc_timeout" => {
                timed_out.insert(h.num("token"));
            }
            "hc_done" => {
                push_ticks(&mut derived, i, h.num("t_ms"), h.st, &mut counts);
                let tok = h.num("token");
                let (lport, a) = started.remove(&tok).unwrap_or((-1, 0));
                let mut srv = "none";
                let mut partial = false;
                if let Some(list) = seen.get(&a) {
                    let taken = used.entry(a).or_default();
                    if let Some((n, s)) = list.iter().enumerate().find(|(n, s)| s.port as i64 == lport && !taken.contains(n)) {
                        taken.insert(n);
                        srv = s.what;
                        partial = s.partial;
                    }
                }
                let to = timed_out.remove(&tok);
                if i + 1 < raw.len() && raw[i + 1].kind == "hc_result" {
                    let mut e = result_fields(&raw[i + 1], &net);
                    let o = e.as_object_mut().unwrap();
                    o.insert("ev".into(), json!("done"));
                    o.insert("c".into(), json!(h.s("cluster")));
                    o.insert("tok".into(), json!(tok));
                    o.insert("to".into(), json!(to));
                    o.insert("el".into(), json!(h.num("elapsed_ms")));
                    o.insert("srv".into(), json!(srv));
                    o.insert("partial".into(), json!(partial));
                    o.insert("sent".into(), json!(h.num("request_sent") == 1));
                    o.insert("st".into(), json!(h.st));
                    bump(&mut counts, &format!("done_{}", if to { "timeout".to_string() } else { format!("{}_{}", if h.num("success") == 1 { "ok" } else { "fail" }, srv) }));
                    if samples.len() < 3 && (to || srv != "200") {
                        samples.push(format!("run {run}: probe of {}@{} in {}: server {}, result {}{} after {} ms -> healthy={} cs={} cf={}",
                            h.s("backend"), a, h.s("cluster"), srv, if h.num("success") == 1 { "success" } else { "failure" },
                            if to { " (timeout)" } else { "" }, h.num("elapsed_ms"), raw[i + 1].num("healthy"),
                            raw[i + 1].num("consecutive_successes"), raw[i + 1].num("consecutive_failures")));
                    }
                    derived.push((i + 2, e));
                    i += 2;
                    continue;
                }
                derived.push((i + 1, json!({"ev": "stray", "kind": "hc_done without hc_result", "st": h.st})));
                bump(&mut counts, "stray");
            }
            "hc_remove_cluster" => {
                pending_drop = Some((h.s("cluster"), h.num("dropped"), h.num("had_last_check")));
            }
            "worker_cmd" => {
                if let Some(c) = cmds.get(&h.s("id")) {
                    let (dropped, had_last) = match pending_drop.take() {
                        Some((pc, d, l)) if pc == c.c => (d, l),
                        _ => (-1, -1),
                    };
                    if h.num("ok") >= 1 {
                        bump(&mut counts, &format!("cmd_{}", c.op));
                        derived.push((i + 1, json!({"ev": "cmd", "op": c.op, "c": c.c, "k": cfg_json(c.k), "id": c.bid, "addr": c.addr,
                                                    "dropped": dropped, "hadlast": had_last, "st": h.st})));
                    } else {
                        bump(&mut counts, "cmd_not_ok");
                    }
                } else {
                    pending_drop = None;
                }
            }
            "hc_start" | "hc_result" => {
                derived.push((i + 1, json!({"ev": "stray", "kind": h.kind, "st": h.st})));
                bump(&mut counts, "stray");
            }
            _ => {}
        }
        i += 1;
    }

    // merge the observations of the other threads: an observation made at raw position q (q hook events had been
    // emitted) follows the hook-derived event whose span (previous end, end] contains q
    let mut events: Vec<Value> = vec![json!({"ev": "reset", "run": run, "unroutable": unroutable, "profile": profile})];
    // per event of `events`: Some(raw end) for the reset and the hook-derived events, None for observations
    let mut ends: Vec<Option<usize>> = vec![Some(0)];
    let mut obs: Vec<(usize, u8, usize)> = Vec::new(); // (position, 0 = mode / 1 = request, index)
    for (n, m) in modes.iter().enumerate() {
        obs.push((m.pos, 0, n));
    }
    for (n, r) in reqs.iter().enumerate() {
        obs.push((r.hi, 1, n));
    }
    obs.sort();
    let mut oi = 0usize;
    let mut flush = |events: &mut Vec<Value>, ends: &mut Vec<Option<usize>>, upto: usize, counts: &mut Counts| {
        while oi < obs.len() && obs[oi].0 <= upto {
            let (_, kind, n) = obs[oi];
            if kind == 0 {
                let m = &modes[n];
                events.push(json!({"ev": "mode", "addr": m.addr, "m": hckit::mode_name(m.m), "st": m.st}));
                bump(counts, "ev_mode");
            } else {
                let r = &reqs[n];
                // the state when the request was sent: after the last hook-derived event complete at raw position lo
                // (number of events consumed since the reset)
                let lo = ends.iter().enumerate().filter(|(_, e)| e.is_some_and(|e| e <= r.lo)).map(|(k, _)| k).max().unwrap_or(0);
                events.push(json!({"ev": "req", "c": r.c, "lo": lo, "served": r.served, "status": r.status, "st": r.st}));
                bump(counts, "ev_req");
            }
            ends.push(None);
            oi += 1;
        }
    };
    let mut prev_end = 0usize;
    for (end, e) in derived {
        flush(&mut events, &mut ends, prev_end, &mut counts);
        events.push(e);
        ends.push(Some(end));
        prev_end = end;
    }
    flush(&mut events, &mut ends, usize::MAX, &mut counts);
    events.push(json!({"ev": "end", "st": end_st}));
    RunOut { events, counts, panic, samples }
}

fn main() {
    vh::util::quiet_panics();
    let a: Vec<String> = std::env::args().collect();
    let (mut seed, mut runs, mut threads, mut secs) = (1u64, 8u64, 8usize, 14u64);
    let mut scenarios = 4u64; // the first runs are the scripted scenarios 1..=4
    let mut out = String::from("trace.ndjson");
    let mut i = 1;
    while i + 1 < a.len() {
        match a[i].as_str() {
            "--seed" => seed = a[i + 1].parse().unwrap(),
            "--runs" => runs = a[i + 1].parse().unwrap(),
            "--threads" => threads = a[i + 1].parse().unwrap(),
            "--secs" => secs = a[i + 1].parse().unwrap(),
            "--scenarios" => scenarios = a[i + 1].parse().unwrap(),
            "--out" => out = a[i + 1].clone(),
            _ => {}
        }
        i += 2;
    }
    let hooked = hckit::install_sink();
    let _ = hckit::now_ms();
    let watchdog = hckit::Watchdog::start();
    let index_base = (std::process::id() as u64 * 131) % 400_000;
    let next = Arc::new(AtomicUsize::new(0));
    let results: Arc<Mutex<BTreeMap<u64, RunOut>>> = Arc::new(Mutex::new(BTreeMap::new()));
    let t0 = Instant::now();
    let mut handles = Vec::new();
    for _ in 0..threads.max(1) {
        let (next, results) = (next.clone(), results.clone());
        handles.push(std::thread::spawn(move || {
            loop {
                let r = next.fetch_add(1, Ordering::SeqCst) as u64;
                if r >= runs {
                    break;
                }
                let out = match catch_unwind(AssertUnwindSafe(|| drive(r + 1, seed, index_base, secs, if r < scenarios { Some(r + 1) } else { None }))) {
                    Ok(o) => o,
                    Err(e) => {
                        let mut counts = Counts::new();
                        bump(&mut counts, "harness_panic");
                        RunOut { events: vec![json!({"ev": "reset", "run": r + 1, "unroutable": 0, "profile": 0})], counts, panic: None,
                                 samples: vec![format!("harness panic: {}", vh::util::panic_message(e))] }
                    }
                };
                results.lock().unwrap().insert(r + 1, out);
            }
        }));
    }
    for h in handles {
        let _ = h.join();
    }
    let res = results.lock().unwrap();
    let mut f = std::io::BufWriter::new(std::fs::File::create(&out).expect("create trace file"));
    let mut total = Counts::new();
    let mut n_ev = 0u64;
    let mut samples: Vec<String> = Vec::new();
    let mut run_index: Vec<Value> = Vec::new();
    for (r, run) in res.iter() {
        run_index.push(json!({"run": r, "first_event": n_ev + 1, "events": run.events.len()}));
        for e in &run.events {
            writeln!(f, "{e}").expect("write");
            n_ev += 1;
        }
        for (k, v) in &run.counts {
            *total.entry(k.clone()).or_insert(0) += v;
        }
        for s in &run.samples {
            if samples.len() < 6 {
                samples.push(s.clone());
            }
        }
        if let Some(p) = &run.panic {
            vh::util::emit(&json!({"kind": "violation", "class": "panic:worker", "detail": {"run": r, "panic": p}}));
        }
    }
    f.flush().expect("flush");
    vh::util::emit(&json!({"kind": "summary", "hooked": hooked, "runs": runs, "events": n_ev, "counts": total, "samples": samples,
                           "worst_stall_ms": watchdog.worst(), "wall_s": t0.elapsed().as_secs_f64(), "run_index": run_index}));
    std::process::exit(0);
}
