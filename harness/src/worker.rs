//! In-process sozu worker scaffolding (same pattern as /repo/e2e/src/sozu/worker.rs, whose
//! modules are private): a real `sozu_lib::server::Server` running on its own thread, driven
//! through the real command `Channel` and `ScmSocket`.
//!
//! NOTE: sozu's logger writes to stdout when initialised; this module never initialises it, so
//! harness binaries can keep stdout for their ndjson results.

use std::net::{SocketAddr, TcpListener};
use std::os::unix::prelude::{AsRawFd, IntoRawFd};
use std::sync::atomic::{AtomicU16, Ordering};
use std::thread::{self, JoinHandle};
use std::time::{Duration, Instant};

use mio::net::UnixStream;
use sozu_command_lib::{
    channel::Channel,
    config::{ConfigBuilder, FileConfig, ListenerBuilder},
    proto::command::{
        ActivateListener, AddBackend, Cluster, ListenerType, LoadBalancingParams, PathRule, Request,
        RequestHttpFrontend, RequestTcpFrontend, ResponseStatus, RulePosition, ServerConfig,
        WorkerRequest, WorkerResponse, request::RequestType,
    },
    scm_socket::{Listeners, ScmSocket},
    state::ConfigState,
};
use sozu_lib::server::Server;

static NEXT_PORT: AtomicU16 = AtomicU16::new(0);

/// A localhost port that was free a moment ago. Ports are handed out from a per-process window
/// (derived from the pid) so that harness processes running in parallel rarely collide.
pub fn free_port() -> u16 {
    loop {
        let mut p = NEXT_PORT.fetch_add(1, Ordering::SeqCst);
        if p == 0 {
            let base = 20_000 + ((std::process::id() as u32 * 97) % 400) as u16 * 100;
            NEXT_PORT.store(base + 1, Ordering::SeqCst);
            p = base;
        }
        if p < 20_000 || p > 64_000 {
            NEXT_PORT.store(20_000, Ordering::SeqCst);
            continue;
        }
        let addr = SocketAddr::from(([127, 0, 0, 1], p));
        if let Ok(l) = TcpListener::bind(addr) {
            drop(l);
            // also make sure UDP is free (UDP listeners use the same numbers)
            if std::net::UdpSocket::bind(addr).is_ok() {
                return p;
            }
        }
    }
}

pub fn free_addr() -> SocketAddr {
    SocketAddr::from(([127, 0, 0, 1], free_port()))
}

fn set_no_close_exec(fd: i32) {
    unsafe {
        let old = libc::fcntl(fd, libc::F_GETFD);
        libc::fcntl(fd, libc::F_SETFD, old & !1);
    }
}

pub struct Worker {
    pub name: String,
    pub config: ServerConfig,
    /// the master-side mirror of what was sent (dispatch result ignored, like e2e)
    pub state: ConfigState,
    pub scm_main_to_worker: ScmSocket,
    pub scm_worker_to_main: ScmSocket,
    pub channel: Channel<WorkerRequest, WorkerResponse>,
    pub next_id: u64,
    pub job: Option<JoinHandle<()>>,
    /// responses read while waiting for another id
    pub backlog: Vec<WorkerResponse>,
}

pub fn server_config(mutate: impl FnOnce(&mut FileConfig)) -> ServerConfig {
    let mut fc = FileConfig::default();
    mutate(&mut fc);
    let config = ConfigBuilder::new(fc, "").into_config().expect("could not create Config");
    ServerConfig::from(&config)
}

impl Worker {
    /// Start a worker thread with the given server config, pre-bound listeners and initial state.
    pub fn start(name: &str, config: ServerConfig, listeners: &Listeners, state: ConfigState) -> Worker {
        let (scm_m2w, scm_w2m) = UnixStream::pair().expect("unix pair");
        let (cmd_m2w, cmd_w2m): (Channel<WorkerRequest, WorkerResponse>, Channel<WorkerResponse, WorkerRequest>) =
            Channel::generate(config.command_buffer_size, config.max_command_buffer_size).expect("channel");
        set_no_close_exec(scm_m2w.as_raw_fd());
        set_no_close_exec(scm_w2m.as_raw_fd());
        let scm_m2w = ScmSocket::new(scm_m2w.into_raw_fd()).expect("scm");
        let scm_w2m = ScmSocket::new(scm_w2m.into_raw_fd()).expect("scm");
        scm_m2w.send_listeners(listeners).expect("send listeners");
        let thread_config = config.clone();
        let initial_state = state.produce_initial_state();
        let thread_scm = scm_w2m.to_owned();
        let job = thread::Builder::new()
            .name(name.to_string())
            .spawn(move || {
                let mut server = Server::try_new_from_config(cmd_w2m, thread_scm, thread_config, initial_state, false)
                    .expect("could not create sozu worker");
                server.run();
            })
            .expect("spawn worker");
        Worker {
            name: name.to_string(),
            config,
            state,
            scm_main_to_worker: scm_m2w,
            scm_worker_to_main: scm_w2m,
            channel: cmd_m2w,
            next_id: 0,
            job: Some(job),
            backlog: Vec::new(),
        }
    }

    /// Worker with default config, no listeners, empty state.
    pub fn start_empty(name: &str) -> Worker {
        Worker::start(name, server_config(|_| {}), &Listeners::default(), ConfigState::new())
    }

    /// Send a request (also applied to the local mirror state); returns its id.
    pub fn send(&mut self, request: Request) -> String {
        let _ = self.state.dispatch(&request);
        self.send_raw(request)
    }

    /// Send without touching the mirror state.
    pub fn send_raw(&mut self, request: Request) -> String {
        self.next_id += 1;
        let id = format!("{}-{}", self.name, self.next_id);
        self.channel
            .write_message(&WorkerRequest { id: id.clone(), content: request })
            .expect("write on command channel");
        id
    }

    pub fn send_type(&mut self, rt: RequestType) -> String {
        self.send(rt.into())
    }

    /// Read one response, waiting at most `timeout`. None on timeout or closed channel.
    pub fn read(&mut self, timeout: Duration) -> Option<WorkerResponse> {
        match self.channel.read_message_blocking_timeout(Some(timeout)) {
            Ok(r) => Some(r),
            Err(_) => None,
        }
    }

    /// Collect all responses for `id` until a terminal status (Ok/Failure) or the deadline.
    /// Responses for other ids go to `backlog`.
    pub fn wait_for(&mut self, id: &str, timeout: Duration) -> Vec<WorkerResponse> {
        let deadline = Instant::now() + timeout;
        let mut out: Vec<WorkerResponse> = Vec::new();
        let mut i = 0;
        while i < self.backlog.len() {
            if self.backlog[i].id == id {
                out.push(self.backlog.remove(i));
            } else {
                i += 1;
            }
        }
        loop {
            if out.iter().any(|r| r.status != ResponseStatus::Processing as i32) {
                return out;
            }
            let now = Instant::now();
            if now >= deadline {
                return out;
            }
            match self.read(deadline - now) {
                Some(r) if r.id == id => out.push(r),
                Some(r) => self.backlog.push(r),
                None => {
                    if self.is_finished() {
                        return out;
                    }
                }
            }
        }
    }

    /// send + wait_for; returns the terminal status if any
    pub fn request(&mut self, rt: RequestType, timeout: Duration) -> Option<WorkerResponse> {
        let id = self.send_type(rt);
        self.wait_for(&id, timeout)
            .into_iter()
            .find(|r| r.status != ResponseStatus::Processing as i32)
    }

    pub fn is_finished(&self) -> bool {
        self.job.as_ref().map(|j| j.is_finished()).unwrap_or(true)
    }

    /// Join the worker thread if it finished (or finishes within `timeout`).
    /// Ok(true) = exited cleanly, Ok(false) = still running, Err = panicked with message.
    pub fn join_within(&mut self, timeout: Duration) -> Result<bool, String> {
        let deadline = Instant::now() + timeout;
        while !self.is_finished() && Instant::now() < deadline {
            thread::sleep(Duration::from_millis(10));
        }
        if !self.is_finished() {
            return Ok(false);
        }
        match self.job.take() {
            None => Ok(true),
            Some(j) => match j.join() {
                Ok(()) => Ok(true),
                Err(e) => Err(crate::util::panic_message(e)),
            },
        }
    }

    // ---- convenience builders -------------------------------------------------------------

    pub fn add_http_listener(&mut self, addr: SocketAddr, timeout: Duration) -> bool {
        let l = ListenerBuilder::new_http(addr.into()).to_http(None).expect("http listener");
        let a = self.request(RequestType::AddHttpListener(l), timeout);
        let b = self.request(
            RequestType::ActivateListener(ActivateListener {
                address: addr.into(),
                proxy: ListenerType::Http.into(),
                from_scm: false,
            }),
            timeout,
        );
        ok(&a) && ok(&b)
    }

    pub fn add_tcp_listener(&mut self, addr: SocketAddr, timeout: Duration) -> bool {
        let l = ListenerBuilder::new_tcp(addr.into()).to_tcp(None).expect("tcp listener");
        let a = self.request(RequestType::AddTcpListener(l), timeout);
        let b = self.request(
            RequestType::ActivateListener(ActivateListener {
                address: addr.into(),
                proxy: ListenerType::Tcp.into(),
                from_scm: false,
            }),
            timeout,
        );
        ok(&a) && ok(&b)
    }

    pub fn default_cluster(id: &str) -> Cluster {
        Cluster { cluster_id: id.to_string(), sticky_session: false, https_redirect: false, ..Default::default() }
    }

    pub fn http_frontend(cluster: &str, addr: SocketAddr, hostname: &str, path_prefix: &str) -> RequestHttpFrontend {
        RequestHttpFrontend {
            cluster_id: Some(cluster.to_string()),
            address: addr.into(),
            hostname: hostname.to_string(),
            path: PathRule::prefix(path_prefix.to_string()),
            position: RulePosition::Tree.into(),
            ..Default::default()
        }
    }

    pub fn tcp_frontend(cluster: &str, addr: SocketAddr) -> RequestTcpFrontend {
        RequestTcpFrontend { cluster_id: cluster.to_string(), address: addr.into(), ..Default::default() }
    }

    pub fn backend(cluster: &str, backend_id: &str, addr: SocketAddr) -> AddBackend {
        AddBackend {
            cluster_id: cluster.to_string(),
            backend_id: backend_id.to_string(),
            address: addr.into(),
            load_balancing_parameters: Some(LoadBalancingParams::default()),
            sticky_id: None,
            backup: None,
        }
    }
}

pub fn ok(r: &Option<WorkerResponse>) -> bool {
    r.as_ref().map(|r| r.status == ResponseStatus::Ok as i32).unwrap_or(false)
}

// ---- HTTPS helpers ---------------------------------------------------------------------------

pub const LOCAL_CERT: &str = include_str!("/repo/lib/assets/local-certificate.pem");
pub const LOCAL_KEY: &str = include_str!("/repo/lib/assets/local-key.pem");

impl Worker {
    /// HTTPS listener (default ALPN h2 + http/1.1) with the repository's `localhost` certificate.
    pub fn add_https_listener(&mut self, addr: SocketAddr, timeout: Duration) -> bool {
        use sozu_command_lib::proto::command::{AddCertificate, CertificateAndKey};
        let l = ListenerBuilder::new_https(addr.into()).to_tls(None).expect("https listener");
        let a = self.request(RequestType::AddHttpsListener(l), timeout);
        let b = self.request(
            RequestType::ActivateListener(ActivateListener {
                address: addr.into(),
                proxy: ListenerType::Https.into(),
                from_scm: false,
            }),
            timeout,
        );
        let c = self.request(
            RequestType::AddCertificate(AddCertificate {
                address: addr.into(),
                certificate: CertificateAndKey {
                    certificate: LOCAL_CERT.to_string(),
                    key: LOCAL_KEY.to_string(),
                    certificate_chain: vec![],
                    versions: vec![],
                    names: vec![],
                },
                expired_at: None,
            }),
            timeout,
        );
        ok(&a) && ok(&b) && ok(&c)
    }
}
