--------------------------- MODULE ProxyProtocol ---------------------------
(***************************************************************************)
(* PROXY protocol v2 on sozu's TCP listeners (C18).                        *)
(*                                                                         *)
(* Part 1 - codec.  Header values, their wire layout `Encode` (written     *)
(* from the PROXY protocol specification, section 2.2 "Binary header       *)
(* format (version 2)", NOT from sozu's code) and the streaming parser     *)
(* verdict `Parse` on a prefix of the stream.                              *)
(*                                                                         *)
(* Part 2 - the three header machines of lib/src/tcp.rs, one behaviour =   *)
(* one TCP session on a cluster in mode send / expect / relay:             *)
(*   expect : lib/src/protocol/proxy_protocol/expect.rs  readable()        *)
(*   relay  : .../relay.rs  readable() + back_writable()                   *)
(*   send   : .../send.rs   back_writable()                                *)
(* followed by the pipe, which moves whatever arrives to the backend.      *)
(* Bytes are identified by their position: the client stream is            *)
(* header(1..L) o payload(L+1..N); the backend stream `bk` is a record     *)
(* [g, c]: g = number of bytes of the header sozu generates (send mode)    *)
(* written so far, always first; c = the client-stream positions written   *)
(* after them, as a sequence of maximal runs <<from, to>>.                  *)
(*                                                                         *)
(* Environment: the client writes the stream in at most MaxSeg segments.   *)
(* It writes only when sozu is parked (lock-step); because every read of   *)
(* the machines is bounded by "what is in the kernel" and "what the        *)
(* machine asks for", a write racing with a wake-up is the same as a       *)
(* different segmentation.                                                 *)
(*                                                                         *)
(* Readiness is edge-triggered (mio): `fev` is the READABLE event latched  *)
(* for the front socket.  It is set when bytes arrive and cleared only by  *)
(* a read that hits would-block; a machine reads only while it is          *)
(* interested AND the event is latched.  The latched event is the one and  *)
(* only notification for bytes that arrived while a machine was not        *)
(* reading (header already parsed, backend not yet writable): it has to    *)
(* survive the switch to the pipe ("Remember to set the events from the    *)
(* previous State!", Pipe::new).                                           *)
(*                                                                         *)
(* Backend connection (SlowConnect = TRUE): the backend starts to accept   *)
(* connections (`conn` = "up") at an arbitrary point of the client's       *)
(* schedule (environment action Backend_Up); until then sozu's connect()   *)
(* stays pending and nothing can be written to the backend.                *)
(***************************************************************************)
EXTENDS Integers, Sequences, FiniteSets, TLC, Json

CONSTANTS Deviations,  \* subset of DevNames: code behaviours that deviate from the property
          TlvLens,     \* lengths of the TLV tail (applied to every family), e.g. {0, 1}
          HdrLens,     \* TOTAL header lengths: for every family the TLV tail that makes the header exactly that long
                       \* (16 + address block + tail; lengths the family cannot reach are skipped)
          SlowConnect, \* TRUE: the backend accepts connections only from some point of the schedule on
          Payloads,    \* payload lengths, e.g. {0, 3}
          MaxSeg,      \* the client splits its stream into at most MaxSeg segments
          CutMode,     \* "all": a segment may end anywhere; "edges": only near field/window boundaries
          Modes,       \* subset of {"send", "expect", "relay"}
          Emit         \* TRUE in generator configs: print REPLAY lines

DevNames == {"ExpectOverRead",  \* old reader: fixed windows 28 -> 52 -> 232, over-read bytes dropped at the upgrade
             "ExpectPanic",     \* old tcp.rs: backend connection attempted while in the expect state: worker panics
             "RelayWedge",      \* old relay.rs: buffer consumed after parsing; back_writable spins forever
             "UnixRejected",    \* parser.rs: AF_UNIX family is a parse error (open finding)
             \* self-test switches (defect classes the check must be able to see; TLC must refute each):
             "ExpectMaxRefused",     \* expect.rs: one of the two checks of the size limit says >= : 232 bytes are "oversized"
             "SwitchDropsReadable"}  \* into_pipe: the latched READABLE event of the front socket is not handed to the pipe
ASSUME Deviations \subseteq DevNames
ASSUME SlowConnect \in BOOLEAN

Min(a, b) == IF a < b THEN a ELSE b
Max(a, b) == IF a > b THEN a ELSE b

---------------------------------------------------------------------------
(* Part 1: header values and wire layout                                   *)

Cmds == {"LOCAL", "PROXY"}
Fams == {"UNSPEC", "INET", "INET6", "UNIX"}

CmdCode(c) == IF c = "LOCAL" THEN 0 ELSE 1
FamCode(f) == CASE f = "UNSPEC" -> 0 [] f = "INET" -> 1 [] f = "INET6" -> 2 [] f = "UNIX" -> 3
\* length of the address block (spec 2.2: 12 / 36 / 216 bytes, none for UNSPEC)
AddrLen(f) == CASE f = "UNSPEC" -> 0 [] f = "INET" -> 12 [] f = "INET6" -> 36 [] f = "UNIX" -> 216

MaxHeader == 232   \* 16 + 216: what sozu's expect state accepts; longer headers are "oversized"
Fixed == 16        \* signature(12) ver_cmd(1) fam(1) len(2)

\* A header class.  kind "ok" is a well-formed header; the others are malformed:
\*   badsig(bad = p): byte p of the signature is wrong     badver: version nibble is 1
\*   badcmd: command nibble is 2                           badfam: family nibble is 4
\*   shortlen: INET family but declared length 4 (< 12)
\* TLV tails: the family-independent ones (both commands), and for the PROXY command those that give one
\* of the total lengths HdrLens (the command nibble plays no role in the length handling)
LenTlvs(f) == { n - Fixed - AddrLen(f) : n \in { m \in HdrLens : m >= Fixed + AddrLen(f) } }
OkHdrs == [kind : {"ok"}, cmd : Cmds, fam : Fams, tlv : TlvLens, bad : {0}]
          \cup UNION { [kind : {"ok"}, cmd : {"PROXY"}, fam : {f}, tlv : LenTlvs(f), bad : {0}] : f \in Fams }
BadHdrs == { [kind |-> "badsig", cmd |-> "PROXY", fam |-> "INET", tlv |-> 0, bad |-> p] : p \in {1, 12} }
           \cup { [kind |-> k, cmd |-> "PROXY", fam |-> "INET", tlv |-> 0, bad |-> 0] :
                    k \in {"badver", "badcmd", "badfam", "shortlen"} }
Hdrs == OkHdrs \cup BadHdrs

Decl(h) == IF h.kind = "shortlen" THEN 4 ELSE AddrLen(h.fam) + h.tlv   \* value of the length field
HLen(h) == Fixed + Decl(h)                                            \* bytes the header occupies on the wire

WellFormed(h) == h.kind = "ok"
Oversized(h) == HLen(h) > MaxHeader

\* --- concrete bytes (for the codec replay and as client input of the machine replays)
Sig == <<13, 10, 13, 10, 0, 13, 10, 81, 85, 73, 84, 10>>
BE16(n) == <<n \div 256, n % 256>>
Pad(s, n) == [i \in 1..n |-> IF i <= Len(s) THEN s[i] ELSE 0]

NConc == 3   \* concretisations per class
InetA(j) == CASE j = 1 -> [sip |-> <<10, 1, 2, 3>>, dip |-> <<192, 168, 0, 1>>, sp |-> 12345, dp |-> 443]
              [] j = 2 -> [sip |-> <<255, 255, 255, 255>>, dip |-> <<0, 0, 0, 0>>, sp |-> 65535, dp |-> 0]
              [] j = 3 -> [sip |-> <<127, 0, 0, 1>>, dip |-> <<127, 0, 0, 2>>, sp |-> 256, dp |-> 255]
Inet6A(j) == CASE j = 1 -> [sip |-> <<32, 1, 13, 184, 0, 0, 0, 0, 0, 0, 0, 0, 0, 0, 0, 1>>,
                            dip |-> <<0, 0, 0, 0, 0, 0, 0, 0, 0, 0, 0, 0, 0, 0, 0, 1>>, sp |-> 40000, dp |-> 8080]
               [] j = 2 -> [sip |-> [i \in 1..16 |-> 255], dip |-> [i \in 1..16 |-> 0], sp |-> 0, dp |-> 65535]
               [] j = 3 -> [sip |-> [i \in 1..16 |-> i], dip |-> [i \in 1..16 |-> 240 + i - 1], sp |-> 1, dp |-> 2]
UnixA(j) == CASE j = 1 -> [s |-> Pad(<<47, 116, 109, 112, 47, 97>>, 108), d |-> Pad(<<47, 116, 109, 112, 47, 98>>, 108)]
              [] j = 2 -> [s |-> [i \in 1..108 |-> 65 + (i % 26)], d |-> [i \in 1..108 |-> 97 + (i % 26)]]
              [] j = 3 -> [s |-> Pad(<<>>, 108), d |-> Pad(<<47>>, 108)]

AddrBytes(f, j) ==
  CASE f = "UNSPEC" -> <<>>
    [] f = "INET"   -> InetA(j).sip \o InetA(j).dip \o BE16(InetA(j).sp) \o BE16(InetA(j).dp)
    [] f = "INET6"  -> Inet6A(j).sip \o Inet6A(j).dip \o BE16(Inet6A(j).sp) \o BE16(Inet6A(j).dp)
    [] f = "UNIX"   -> UnixA(j).s \o UnixA(j).d
\* TLV tail of n bytes: one private-use TLV (type 0xE0) when n >= 3, NOOP type bytes otherwise
TlvBytes(n) == IF n = 0 THEN <<>>
               ELSE IF n < 3 THEN [i \in 1..n |-> 4]
               ELSE <<224>> \o BE16(n - 3) \o [i \in 1..(n - 3) |-> (i * 7) % 256]
\* transport nibble: STREAM (1) for the address families, UNSPEC (0) for AF_UNSPEC
FamByte(f) == 16 * FamCode(f) + (IF f = "UNSPEC" THEN 0 ELSE 1)

Encode(h, j) ==
  LET ok == Sig \o <<32 + CmdCode(h.cmd), FamByte(h.fam)>> \o BE16(Decl(h)) \o AddrBytes(h.fam, j) \o TlvBytes(h.tlv)
  IN CASE h.kind = "ok"       -> ok
       [] h.kind = "badsig"   -> [ok EXCEPT ![h.bad] = 255 - ok[h.bad]]
       [] h.kind = "badver"   -> [ok EXCEPT ![13] = 16 + CmdCode(h.cmd)]
       [] h.kind = "badcmd"   -> [ok EXCEPT ![13] = 32 + 2]
       [] h.kind = "badfam"   -> [ok EXCEPT ![14] = 64 + 1]
       [] h.kind = "shortlen" -> SubSeq(ok, 1, 14) \o BE16(4) \o SubSeq(ok, 17, 20)

\* Layout of the header sozu must generate in send mode for a TCP session whose
\* client/listener sockets are of family f: PROXY command, no TLV. Address bytes
\* are symbolic ("S" i = byte i of the client address, "D" = listener address,
\* "SP"/"DP" ports); the harness substitutes the real socket addresses.
SendHdr(f) == [kind |-> "ok", cmd |-> "PROXY", fam |-> f, tlv |-> 0, bad |-> 0]
SendTemplate(f) ==
  LET n == IF f = "INET" THEN 4 ELSE 16
      N(x) == [t |-> "n", v |-> x]
  IN [i \in 1..12 |-> N(Sig[i])] \o <<N(33), N(FamByte(f)), N(0), N(AddrLen(f))>>
     \o [i \in 1..n |-> [t |-> "S", v |-> i]] \o [i \in 1..n |-> [t |-> "D", v |-> i]]
     \o <<[t |-> "SP", v |-> 1], [t |-> "SP", v |-> 2], [t |-> "DP", v |-> 1], [t |-> "DP", v |-> 2]>>

\* --- the streaming parser on the first n bytes of `header o payload` (payload is never inspected
\* because a verdict other than "inc" is reached at HLen(h) at the latest).
\* The family check happens after the declared length has been buffered; a length that is too short
\* for the family leaves the address parser incomplete for ever.
FamSupported(f) == ~(f = "UNIX" /\ "UnixRejected" \in Deviations)
Parse(h, n) ==
  CASE h.kind = "badsig" /\ n >= h.bad          -> "err"
    [] h.kind \in {"badver", "badcmd"} /\ n >= 13 -> "err"
    [] n < Fixed                                -> "inc"
    [] n < HLen(h)                              -> "inc"
    [] h.kind = "badfam"                        -> "err"
    [] h.kind = "shortlen"                      -> "inc"
    [] ~FamSupported(h.fam)                     -> "err"
    [] OTHER                                    -> "ok"

\* What the property wants from a header class (independent of Deviations):
\* accepted iff well-formed (and, for the expect state, not oversized).
Acceptable(m, h) == WellFormed(h) /\ (m = "expect" => ~Oversized(h))

---------------------------------------------------------------------------
(* Part 2: the session machines                                            *)

VARIABLES mode,     \* "send" | "expect" | "relay"
          hdr,      \* header class the client sends (ignored in send mode)
          sfam,     \* family of the client/listener sockets: "INET" | "INET6" (send mode header)
          pay,      \* payload length
          written,  \* bytes of the client stream written so far
          nseg,     \* segments written so far
          inK,      \* bytes in the kernel not yet read by sozu
          fev,      \* the READABLE event of the front socket is latched (edge-triggered readiness)
          conn,     \* "pending" | "up": the backend accepts connections (sozu's connect() can complete)
          st,       \* "hdr" | "fwd" | "send" | "pipe" | "closed" | "panic" | "wedged"
          index,    \* expect/relay: bytes accumulated in the staging buffer
          stage,    \* expect (old reader only): current window 28 | 52 | 232
          cursor,   \* send: bytes of the generated header already written
          rd,       \* client stream bytes taken out of the kernel so far
          pb,       \* pipe: bytes read from the client and not yet written to the backend (positions rd-pb+1..rd)
          bk,       \* backend stream
          segs,     \* history: segment lengths (generator)
          upAt      \* history: segments written before the backend accepted (generator)

vars == <<mode, hdr, sfam, pay, written, nseg, inK, fev, conn, st, index, stage, cursor, rd, pb, bk, segs, upAt>>

L == IF mode = "send" THEN 0 ELSE HLen(hdr)     \* header bytes in the client stream
N == L + pay                                    \* client stream length
GLen == Fixed + AddrLen(sfam)                   \* generated header length (send mode)
\* run-compressed position sequences: append positions a..b (nothing when b < a)
AppendRun(c, a, b) ==
  IF b < a THEN c
  ELSE IF c # <<>> /\ c[Len(c)][2] + 1 = a THEN [c EXCEPT ![Len(c)] = <<c[Len(c)][1], b>>]
  ELSE Append(c, <<a, b>>)
RunSeq(a, b) == AppendRun(<<>>, a, b)
NoBytes == [g |-> 0, c |-> <<>>]

\* positions after which a segment may end
\*   "all"  : anywhere          "edges": near field / window boundaries, around the end of the header
\*   "hdr"  : only right after the header (and at the end of the stream): the cheap sweep over all lengths
EdgeSet == {1, 11, 12, 13, 15, 16, 17, 27, 28, 29, 51, 52, 53, 231, 232, 233}
CutOK(p) == \/ CutMode = "all"
            \/ CutMode = "edges" /\ (p \in EdgeSet \/ (p >= L - 1 /\ p <= L + 2))
            \/ CutMode = "hdr" /\ p = L
            \/ p = N

Init ==
  /\ mode \in Modes
  /\ hdr \in (IF mode = "send" THEN {SendHdr("INET")} ELSE Hdrs)
  /\ sfam \in (IF mode = "send" THEN {"INET", "INET6"} ELSE {"INET"})
  /\ pay \in Payloads
  /\ written = 0 /\ nseg = 0 /\ inK = 0 /\ fev = FALSE
  /\ conn = (IF SlowConnect THEN "pending" ELSE "up")
  /\ st = (IF mode = "send" THEN "send" ELSE "hdr")
  /\ index = 0 /\ stage = 28 /\ cursor = 0 /\ rd = 0 /\ pb = 0
  /\ bk = NoBytes /\ segs = <<>> /\ upAt = 0

Live == st \notin {"closed", "panic", "wedged"}

\* the event the pipe inherits at the switch: the one the previous state holds
Inherit(e) == IF "SwitchDropsReadable" \in Deviations THEN FALSE ELSE e

\* ---- sozu steps -----------------------------------------------------------

\* tcp.rs ready_inner on the first event of a session. Old code connected to the backend whatever the
\* state and set_back_socket panicked for the expect state: the whole worker thread dies.
Expect_PanicOnConnect ==
  /\ "ExpectPanic" \in Deviations /\ mode = "expect" /\ st = "hdr" /\ written > 0
  /\ st' = "panic"
  /\ UNCHANGED <<mode, hdr, sfam, pay, written, nseg, inK, fev, conn, index, stage, cursor, rd, pb, bk, segs, upAt>>

\* expect.rs readable(): one socket_read into frontend_buffer[index..window], then parse.
\* socket_read stops when the slice is full (event stays latched) or at would-block (event cleared).
Window == IF "ExpectOverRead" \in Deviations THEN stage
          ELSE IF index < Fixed THEN Fixed ELSE HLen(hdr)
\* the size check done before each read stage (first of the two checks of the same limit)
TooLongAtEntry == index >= Fixed /\ (IF "ExpectMaxRefused" \in Deviations THEN HLen(hdr) >= MaxHeader ELSE Oversized(hdr))
Expect_Readable ==
  /\ mode = "expect" /\ st = "hdr" /\ fev
  /\ IF ~("ExpectOverRead" \in Deviations) /\ TooLongAtEntry
     THEN \* "exceeds maximum size (232 bytes)": closed before anything more is read
          /\ st' = "closed"
          /\ UNCHANGED <<index, inK, rd, stage, fev>>
     ELSE
     LET w   == Window
         n   == Min(inK, w - index)
         idx == index + n
         v   == Parse(hdr, idx)
         nst == IF "ExpectOverRead" \in Deviations
                THEN \* fixed windows; `rest` (bytes read beyond the header) is dropped by into_pipe
                     CASE v = "ok" -> "pipe" [] v = "err" -> "closed"
                       [] v = "inc" /\ idx = 232 -> "closed"    \* "header exceeds maximum size"
                       [] OTHER -> "hdr"
                ELSE \* self-describing read: 16 bytes, then exactly the declared length
                     CASE v = "ok" -> "pipe" [] v = "err" -> "closed"
                       [] idx >= Fixed /\ Oversized(hdr) -> "closed"      \* declared length does not fit (second check)
                       [] idx >= Fixed /\ idx = HLen(hdr) -> "closed"      \* all declared bytes, still incomplete
                       [] OTHER -> "hdr"
         ev  == (n = w - index) /\ n > 0        \* slice filled: no would-block seen, the event stays
     IN /\ index' = idx /\ inK' = inK - n /\ rd' = rd + n
        /\ stage' = IF "ExpectOverRead" \in Deviations /\ v = "inc" /\ idx = stage /\ stage < 232
                    THEN (IF stage = 28 THEN 52 ELSE 232) ELSE stage
        /\ st' = nst
        /\ fev' = IF nst = "pipe" THEN Inherit(ev) ELSE ev
  /\ UNCHANGED <<mode, hdr, sfam, pay, written, nseg, conn, cursor, pb, bk, segs, upAt>>

\* relay.rs readable(): reads everything into the session buffer (16 KiB >> N) until would-block, then
\* parse. Once the header is parsed the machine stops reading (READABLE leaves the interest).
Relay_Readable ==
  /\ mode = "relay" /\ st = "hdr" /\ fev
  /\ LET idx == index + inK
         v   == Parse(hdr, idx)
     IN /\ index' = idx /\ inK' = 0 /\ rd' = rd + inK /\ fev' = FALSE
        /\ st' = CASE v = "ok" -> (IF "RelayWedge" \in Deviations THEN "wedged" ELSE "fwd")
                   [] v = "err" -> "closed"
                   [] OTHER -> "hdr"
  /\ UNCHANGED <<mode, hdr, sfam, pay, written, nseg, conn, stage, cursor, pb, bk, segs, upAt>>

\* relay.rs back_writable(): the buffer (header and whatever was read with it) goes out verbatim;
\* needs the backend connection. Then the upgrade: into_pipe hands the latched front event over.
Relay_BackWritable ==
  /\ mode = "relay" /\ st = "fwd" /\ conn = "up"
  /\ bk' = [bk EXCEPT !.c = AppendRun(@, 1, index)]
  /\ st' = "pipe" /\ fev' = Inherit(fev)
  /\ UNCHANGED <<mode, hdr, sfam, pay, written, nseg, inK, conn, index, stage, cursor, rd, pb, segs, upAt>>

\* send.rs back_writable(): the generated header, possibly in several partial writes; the front
\* socket is not read before the header is out (what arrives meanwhile is only latched in `fev`).
SendCuts == {1, 12, 16, GLen - 1}
Send_BackWritable(k) ==
  /\ mode = "send" /\ st = "send" /\ conn = "up"
  /\ k >= 1 /\ cursor + k <= GLen
  /\ (cursor + k = GLen \/ cursor + k \in SendCuts)
  /\ bk' = [bk EXCEPT !.g = @ + k]
  /\ cursor' = cursor + k
  /\ st' = IF cursor' = GLen THEN "pipe" ELSE "send"
  /\ fev' = IF cursor' = GLen THEN Inherit(fev) ELSE fev
  /\ UNCHANGED <<mode, hdr, sfam, pay, written, nseg, inK, conn, index, stage, rd, pb, segs, upAt>>

\* pipe.rs readable(): what is in the kernel goes into the session buffer (until would-block) ...
Pipe_Read ==
  /\ st = "pipe" /\ fev
  /\ rd' = rd + inK /\ pb' = pb + inK /\ inK' = 0 /\ fev' = FALSE
  /\ UNCHANGED <<mode, hdr, sfam, pay, written, nseg, conn, st, index, stage, cursor, bk, segs, upAt>>
\* ... and backend_writable(): from there to the backend, once the connection is there
Pipe_Write ==
  /\ st = "pipe" /\ pb > 0 /\ conn = "up"
  /\ bk' = [bk EXCEPT !.c = AppendRun(@, rd - pb + 1, rd)]
  /\ pb' = 0
  /\ UNCHANGED <<mode, hdr, sfam, pay, written, nseg, inK, fev, conn, st, index, stage, cursor, rd, segs, upAt>>
Pipe_Forward == Pipe_Read \/ Pipe_Write

Send_Step == \E k \in {GLen - cursor} \cup {c - cursor : c \in SendCuts} : Send_BackWritable(k)
SozuStep == Expect_PanicOnConnect \/ Expect_Readable \/ Relay_Readable \/ Relay_BackWritable \/ Send_Step \/ Pipe_Forward

\* ---- environment ------------------------------------------------------------
\* sozu is parked in epoll: no step of the session is enabled (explicit form of ~ENABLED SozuStep)
Parked == /\ ~(st = "hdr" /\ fev /\ mode \in {"expect", "relay"})
          /\ ~("ExpectPanic" \in Deviations /\ mode = "expect" /\ st = "hdr" /\ written > 0)
          /\ ~(st \in {"fwd", "send"} /\ conn = "up")
          /\ ~(st = "pipe" /\ fev)
          /\ ~(st = "pipe" /\ pb > 0 /\ conn = "up")

Client_Write(k) ==
  /\ Live /\ Parked /\ nseg < MaxSeg /\ k >= 1 /\ written + k <= N
  /\ (nseg = MaxSeg - 1 => written + k = N)     \* the last segment carries the rest
  /\ CutOK(written + k)
  /\ written' = written + k /\ inK' = inK + k /\ nseg' = nseg + 1
  /\ fev' = TRUE                                \* new bytes: one edge
  /\ segs' = Append(segs, k)
  /\ UNCHANGED <<mode, hdr, sfam, pay, conn, st, index, stage, cursor, rd, pb, bk, upAt>>

\* the backend starts accepting: sozu's pending connect() completes (or the next one does)
Backend_Up ==
  /\ conn = "pending" /\ Live /\ Parked
  /\ conn' = "up" /\ upAt' = nseg
  /\ UNCHANGED <<mode, hdr, sfam, pay, written, nseg, inK, fev, st, index, stage, cursor, rd, pb, bk, segs>>

\* front_timeout fires on a session that is still waiting for its header
Timeout ==
  /\ st = "hdr" /\ Parked /\ written = N
  /\ st' = "closed"
  /\ UNCHANGED <<mode, hdr, sfam, pay, written, nseg, inK, fev, conn, index, stage, cursor, rd, pb, bk, segs, upAt>>

ClientStep == Live /\ Parked /\ \E p \in (written + 1)..N : Client_Write(p - written)
Next == SozuStep \/ ClientStep \/ Backend_Up \/ Timeout
Spec == Init /\ [][Next]_vars
FairSpec == Spec /\ WF_vars(SozuStep) /\ WF_vars(Timeout) /\ WF_vars(ClientStep) /\ WF_vars(Backend_Up)

---------------------------------------------------------------------------
(* Properties (C18, header part)                                           *)

\* What the backend must receive once everything the client wrote has been processed.
Expected ==
  CASE mode = "send"                              -> [g |-> GLen, c |-> RunSeq(1, N)]
    [] mode = "relay"  /\ Acceptable(mode, hdr)   -> [g |-> 0, c |-> RunSeq(1, N)]       \* incoming header verbatim, then payload
    [] mode = "expect" /\ Acceptable(mode, hdr)   -> [g |-> 0, c |-> RunSeq(L + 1, N)]   \* payload exactly
    [] OTHER                                      -> NoBytes

\* prefix order on run-compressed sequences (both canonical: runs are maximal)
RunsPrefix(s, t) ==
  \/ s = <<>>
  \/ /\ Len(s) <= Len(t)
     /\ \A i \in 1..(Len(s) - 1) : s[i] = t[i]
     /\ s[Len(s)][1] = t[Len(s)][1]
     /\ IF Len(s) = Len(t) THEN s[Len(s)][2] <= t[Len(s)][2] ELSE s[Len(s)][2] = t[Len(s)][2]
IsPrefixOf(b, e) == /\ b.g <= e.g
                    /\ (b.c # <<>> => b.g = e.g)     \* no payload byte before the generated header is complete
                    /\ RunsPrefix(b.c, e.c)

TypeOK == /\ written \in 0..N /\ inK \in 0..N /\ rd + inK = written /\ pb \in 0..rd
          /\ index \in 0..MaxHeader + 260 /\ cursor \in 0..GLen
          /\ fev \in BOOLEAN /\ conn \in {"pending", "up"} /\ upAt \in 0..MaxSeg

\* safety: at every moment the backend stream is a prefix of the expected one: exactly one header
\* first (send/relay), nothing reordered, duplicated, or skipped, nothing at all for bad headers
P_C18_BackendPrefix == IsPrefixOf(bk, Expected)

\* the worker never dies or spins because of a session
P_C18_WorkerSurvives == st \notin {"panic", "wedged"}

\* completeness at rest: when the client has written everything and sozu is parked, the backend has
\* everything (NO payload byte lost to the header reader), or the session is closed/waiting if the
\* header is not acceptable
Rest == written = N /\ Parked /\ conn = "up"
P_C18_CompleteAtRest ==
  Rest => IF mode = "send" \/ Acceptable(mode, hdr)
          THEN bk = Expected /\ st = "pipe"
          ELSE bk = NoBytes /\ st \in {"closed", "hdr"}

\* liveness: unacceptable headers end with the session closed
P_C18_BadHeaderCloses == (mode # "send" /\ ~Acceptable(mode, hdr)) => <>(st = "closed")

P_C18_Header == P_C18_BackendPrefix /\ P_C18_WorkerSurvives /\ P_C18_CompleteAtRest

---------------------------------------------------------------------------
(* Generator (S->I).  One REPLAY line per finished behaviour: the client    *)
(* segments and what the spec predicts at the backend; plus, once, the     *)
(* codec table: concrete bytes of every class and the parser verdicts.     *)

Finished == (written = N /\ Parked /\ conn = "up") \/ ~Live
EmitBehaviour ==
  (Emit /\ Finished /\ ~ENABLED Timeout) =>
     PrintT(<<"REPLAY", ToJson([kind |-> "beh", mode |-> mode, hdr |-> hdr, sfam |-> sfam, pay |-> pay,
                                segs |-> segs, upAt |-> (IF SlowConnect /\ conn = "up" THEN upAt ELSE 0),
                                slowc |-> SlowConnect, g |-> bk.g, c |-> bk.c, st |-> st,
                                closes |-> (st = "closed" \/ (st = "hdr" /\ written = N)),
                                slow |-> (st = "closed" /\ mode = "relay" /\ Parse(hdr, index) = "inc"),   \* closed by the front timeout
                                hlen |-> L])>>)

ParseCuts(h) == {n \in 0..(HLen(h) + 3) : n <= 17 \/ n >= HLen(h) - 1 \/ n \in EdgeSet \/ n % 16 = 0}
CodecTable ==
  { [kind |-> "codec", hdr |-> h, conc |-> j, bytes |-> Encode(h, j),
     addr |-> (CASE h.fam = "INET" -> InetA(j) [] h.fam = "INET6" -> Inet6A(j) [] h.fam = "UNIX" -> UnixA(j) [] OTHER -> [none |-> 0]),
     hlen |-> HLen(h), verdicts |-> { <<n, Parse(h, n)>> : n \in ParseCuts(h) }] : h \in Hdrs, j \in 1..NConc }
SendTable == { [kind |-> "sendhdr", fam |-> f, template |-> SendTemplate(f)] : f \in {"INET", "INET6"} }

ASSUME IF Emit THEN /\ \A r \in CodecTable : PrintT(<<"REPLAY", ToJson(r)>>)
                    /\ \A r \in SendTable : PrintT(<<"REPLAY", ToJson(r)>>)
       ELSE TRUE
=============================================================================
