//! S->I replayer and I->S driver for spec/BufferPool.tla (property C16, buffer pool part).
//!
//! The objects under test are a REAL `sozu_lib::pool::Pool` and the `Checkout` guards it hands out; only
//! public APIs are used.  A symbol k of the spec's alphabet is the byte b'a' + k - 1.
//!
//! replay mode (default): stdin = ndjson, one behaviour of spec/Gen_BufferPool.tla per line (array of
//!   {"step":{op,args,predicted result}, "used", "cap", "gauge", "bufs":{guard: {held, avail, space, data}}}).
//!   Every step is executed; the call's result (and the bytes a read returned), `Pool::used()`,
//!   `Pool::capacity()`, the `buffer.in_use` gauge and, for every held guard, available_data(),
//!   available_space(), capacity(), empty() and data() byte for byte are compared with the prediction.
//! drive mode (`--drive`): seeded random long op sequences on the real objects, every call with its
//!   arguments, its result and the same projection recorded as one ndjson event (`--out`), validated by TLC
//!   against spec/Trace_BufferPool.tla.
//!
//! A panic inside sozu (the debug assertions are on) is data: a violation of class `panic`.
//! stdout: {"kind":"violation",...}* {"kind":"summary",...}

use std::collections::{BTreeMap, BTreeSet};
use std::io::{BufRead, BufReader, Read, Write};
use std::panic::{AssertUnwindSafe, catch_unwind};

use serde_json::{Value, json};
use sozu_command_lib::proto::command::filtered_metrics;
use sozu_lib::metrics::METRICS;
use sozu_lib::pool::{Checkout, Pool};
use vh::c12kit::Rng;

fn arg(name: &str, default: &str) -> String {
    let a: Vec<String> = std::env::args().collect();
    a.iter().position(|x| x == name).and_then(|i| a.get(i + 1).cloned()).unwrap_or_else(|| default.to_string())
}
fn flag(name: &str) -> bool {
    std::env::args().any(|x| x == name)
}

fn bytes_of(v: &Value) -> Vec<u8> {
    v.as_array().map(|a| a.iter().map(|x| (x.as_i64().unwrap_or(0) + 96) as u8).collect()).unwrap_or_default()
}
fn syms_of(b: &[u8]) -> Value {
    json!(b.iter().map(|x| *x as i64 - 96).collect::<Vec<i64>>())
}

struct World {
    // guards are declared before the pool: they are dropped first
    guards: BTreeMap<String, Checkout>,
    pool: Pool,
    cap: usize,
}

fn gauge() -> i64 {
    METRICS.with(|m| {
        let d = m.borrow_mut().dump_local_proxy_metrics();
        match d.get("buffer.in_use").and_then(|v| v.inner.as_ref()) {
            Some(filtered_metrics::Inner::Gauge(g)) => *g as i64,
            _ => -1,
        }
    })
}

impl World {
    fn new(min: usize, max: usize, size: usize) -> World {
        World { guards: BTreeMap::new(), pool: Pool::with_capacity(min, max, size), cap: 0 }
    }

    fn buf(&mut self, g: &str) -> Result<&mut Checkout, String> {
        self.guards.get_mut(g).ok_or_else(|| format!("guard {g} is not held"))
    }

    fn exec(&mut self, step: &Value) -> Result<Value, String> {
        let op = step["op"].as_str().unwrap_or("");
        let g = step["g"].as_str().unwrap_or("").to_string();
        let n = step["n"].as_u64().unwrap_or(0) as usize;
        let s = step["s"].as_u64().unwrap_or(0) as usize;
        let l = step["l"].as_u64().unwrap_or(0) as usize;
        let data = bytes_of(&step["data"]);
        let opt = |r: Option<usize>| json!({"ret": r.map(|x| x as i64).unwrap_or(-1)});
        Ok(match op {
            "Checkout" => {
                if self.guards.contains_key(&g) { return Err(format!("guard {g} is held")); }
                match self.pool.checkout() {
                    Some(c) => {
                        self.cap = c.capacity();
                        self.guards.insert(g, c);
                        json!({"ok": true})
                    }
                    None => json!({"ok": false}),
                }
            }
            "Drop" => { self.buf(&g)?; drop(self.guards.remove(&g)); json!({}) }
            "Write" => json!({"ret": self.buf(&g)?.write(&data).map_err(|e| e.to_string())?}),
            "Consume" => json!({"ret": self.buf(&g)?.consume(n)}),
            "Read" => {
                let mut out = vec![0u8; n];
                let k = self.buf(&g)?.read(&mut out).map_err(|e| e.to_string())?;
                json!({"ret": k, "bytes": syms_of(&out[..k])})
            }
            "Shift" => { self.buf(&g)?.shift(); json!({}) }
            "Reset" => { self.buf(&g)?.reset(); json!({}) }
            "Sync" => { let (e, p) = (step["e"].as_u64().unwrap_or(0) as usize, step["p"].as_u64().unwrap_or(0) as usize); self.buf(&g)?.sync(e, p); json!({}) }
            "Delete" => opt(self.buf(&g)?.delete_slice(s, l)),
            "Replace" => opt(self.buf(&g)?.replace_slice(&data, s, l)),
            "Insert" => opt(self.buf(&g)?.insert_slice(&data, s)),
            other => return Err(format!("unknown operation {other}")),
        })
    }

    fn proj(&mut self, names: &[String]) -> Value {
        let mut m = serde_json::Map::new();
        for n in names {
            let v = match self.guards.get(n) {
                None => json!({"held": false, "avail": 0, "space": 0, "data": []}),
                Some(c) => json!({"held": true, "avail": c.available_data(), "space": c.available_space(), "data": syms_of(c.data())}),
            };
            m.insert(n.clone(), v);
        }
        json!({"used": self.pool.used(), "cap": self.pool.capacity(), "gauge": gauge(), "bufs": Value::Object(m)})
    }

    /// what the snapshot does not carry but must hold for every held guard
    fn self_consistent(&self) -> Option<String> {
        for (n, c) in &self.guards {
            if c.capacity() != self.cap { return Some(format!("guard {n}: capacity {} differs from {}", c.capacity(), self.cap)); }
            if c.empty() != (c.available_data() == 0) { return Some(format!("guard {n}: empty() = {} with {} bytes of data", c.empty(), c.available_data())); }
            if c.data().len() != c.available_data() { return Some(format!("guard {n}: data() has {} bytes, available_data() = {}", c.data().len(), c.available_data())); }
        }
        None
    }
}

struct Viol { class: String, what: String }

const RESULT_FIELDS: [&str; 3] = ["ret", "ok", "bytes"];

fn replay_one(beh: &[Value], min: usize, max: usize, size: usize, cap: usize, st: &mut Stats) -> Result<(), Viol> {
    let mut w = World::new(min, max, size);
    for (i, snap) in beh.iter().enumerate() {
        let step = &snap["step"];
        let op = step["op"].as_str().unwrap_or("?");
        let names: Vec<String> = snap["bufs"].as_object().map(|m| m.keys().cloned().collect()).unwrap_or_default();
        let obs = w.exec(step).map_err(|e| Viol { class: "harness".into(), what: format!("step {i} {step}: {e}") })?;
        for f in RESULT_FIELDS {
            if let (Some(exp), Some(got)) = (step.get(f), obs.get(f)) {
                st.comparisons += 1;
                if exp != got {
                    return Err(Viol { class: format!("replay:{op}:{f}"), what: format!("step {i} {step}: the call answered {f} = {got}, the spec says {exp}") });
                }
            }
        }
        if w.cap != 0 && w.cap != cap {
            return Err(Viol { class: "replay:capacity".into(), what: format!("a buffer of size {size} has capacity {}, the instance assumes {cap}", w.cap) });
        }
        let real = w.proj(&names);
        for f in ["used", "cap", "gauge"] {
            st.comparisons += 1;
            if real[f] != snap[f] {
                return Err(Viol { class: format!("replay:{op}:{f}"), what: format!("after step {i} {step}: {f} is {}, the spec says {}", real[f], snap[f]) });
            }
        }
        for n in &names {
            st.comparisons += 1;
            if real["bufs"][n] != snap["bufs"][n] {
                return Err(Viol { class: format!("replay:{op}:buffer"), what: format!(
                    "after step {i} {step}: buffer of {n} is {}, the spec says {}", real["bufs"][n], snap["bufs"][n]) });
            }
        }
        if let Some(e) = w.self_consistent() {
            return Err(Viol { class: format!("replay:{op}:views"), what: format!("after step {i} {step}: {e}") });
        }
        st.steps += 1;
        *st.by_op.entry(op.to_string()).or_default() += 1;
        let sig = format!("{op}:{}:{}", step.get("ret").or(step.get("ok")).map(|x| (x != &json!(-1) && x != &json!(false) && x != &json!(0)).to_string()).unwrap_or_default(),
            names.iter().filter(|n| snap["bufs"][*n]["held"] == json!(true)).map(|n| format!("{}/{}", snap["bufs"][n]["avail"], snap["bufs"][n]["space"])).collect::<Vec<_>>().join(","));
        st.distinct.insert(sig);
    }
    drop(w);
    let g = gauge();
    if g > 0 {
        return Err(Viol { class: "replay:baseline".into(), what: format!("every guard and the pool are dropped, the buffer.in_use gauge still reads {g}") });
    }
    Ok(())
}

#[derive(Default)]
struct Stats {
    steps: u64,
    comparisons: u64,
    by_op: BTreeMap<String, u64>,
    distinct: BTreeSet<String>,
}

fn replay_main() {
    let (min, max, size, cap) = (arg("--min", "1").parse().unwrap(), arg("--max", "2").parse().unwrap(), arg("--size", "8").parse().unwrap(), arg("--cap", "8").parse().unwrap());
    let mut st = Stats::default();
    let (mut n, mut violations) = (0u64, 0u64);
    let mut samples = Vec::new();
    for line in BufReader::new(std::io::stdin()).lines() {
        let line = line.expect("stdin");
        if !line.starts_with('[') { continue; }
        let beh: Vec<Value> = serde_json::from_str(&line).expect("behaviour line");
        n += 1;
        let r = catch_unwind(AssertUnwindSafe(|| replay_one(&beh, min, max, size, cap, &mut st)));
        let v = match r {
            Ok(Ok(())) => None,
            Ok(Err(v)) => Some(v),
            Err(p) => Some(Viol { class: "panic".into(), what: format!("sozu panicked: {}", vh::util::panic_message(p)) }),
        };
        match v {
            Some(v) => {
                violations += 1;
                if violations <= 30 {
                    vh::util::emit(&json!({"kind":"violation","class":v.class,"detail":{"what":v.what,"behaviour":n},"input":beh,
                        "params":{"min":min,"max":max,"size":size,"cap":cap}}));
                }
            }
            None => if samples.len() < 2 {
                samples.push(format!("behaviour {n}: {}", beh.iter().take(8).map(|s| s["step"].to_string()).collect::<Vec<_>>().join(" ")));
            },
        }
    }
    vh::util::emit(&json!({"kind":"summary","behaviours":n,"steps":st.steps,"comparisons":st.comparisons,"violations":violations,
        "distinct":st.distinct.len(),"by_op":st.by_op,"samples":samples}));
}

// ---------------------------------------------------------------------------------------------
// drive mode

fn drive_run(rng: &mut Rng, steps: usize, min: usize, max: usize, size: usize, names: &[String], events: &mut Vec<Value>) {
    let mut w = World::new(min, max, size);
    events.push(json!({"ev":"reset","min":min,"max":max}));
    let datas: Vec<Vec<i64>> = vec![vec![], vec![1], vec![2], vec![3, 1], vec![1, 2, 3], vec![2, 2, 1, 3], vec![3, 1, 2, 1, 3], vec![1, 3, 2, 1, 3, 2, 2]];
    for _ in 0..steps {
        let held: Vec<String> = names.iter().filter(|n| w.guards.contains_key(*n)).cloned().collect();
        let free: Vec<String> = names.iter().filter(|n| !w.guards.contains_key(*n)).cloned().collect();
        let r = rng.below(100);
        let step = if (r < 14 || held.is_empty()) && !free.is_empty() {
            json!({"op":"Checkout","g":rng.pick(&free)})
        } else if r < 22 && !held.is_empty() {
            json!({"op":"Drop","g":rng.pick(&held)})
        } else if held.is_empty() {
            continue;
        } else {
            let g = rng.pick(&held).clone();
            let (avail, pos_end) = { let c = &w.guards[&g]; (c.available_data(), (c.capacity() - c.available_space() - c.available_data(), c.capacity() - c.available_space())) };
            let near = |rng: &mut Rng| rng.below(avail as u64 + 2);
            match rng.below(20) {
                0..=4 => json!({"op":"Write","g":g,"data":rng.pick(&datas)}),
                5..=7 => json!({"op":"Consume","g":g,"n":*rng.pick(&[0, 1, 1, 2, 3, 5, 9])}),
                8 => json!({"op":"Read","g":g,"n":*rng.pick(&[0, 1, 2, 4, 9])}),
                9 => json!({"op":"Shift","g":g}),
                10 => if rng.chance(1, 4) { json!({"op":"Reset","g":g}) } else { json!({"op":"Shift","g":g}) },
                11 => {
                    let p = pos_end.0 as u64 + rng.below(avail as u64 + 1);
                    let e = p + rng.below(pos_end.1 as u64 - p + 1);
                    json!({"op":"Sync","g":g,"e":e,"p":p})
                }
                12..=13 => { let s = near(rng); json!({"op":"Delete","g":g,"s":s,"l":rng.below(avail as u64 + 2 - s.min(avail as u64 + 1))}) }
                14..=16 => { let s = near(rng); json!({"op":"Replace","g":g,"data":rng.pick(&datas[..5]),"s":s,"l":rng.below(4)}) }
                _ => json!({"op":"Insert","g":g,"data":rng.pick(&datas[..5]),"s":near(rng)}),
            }
        };
        let obs = match w.exec(&step) {
            Ok(o) => o,
            Err(e) => { events.push(json!({"ev":"harness_error","what":e})); return; }
        };
        let mut ev = step.clone();
        ev["ev"] = ev["op"].take();
        ev.as_object_mut().unwrap().remove("op");
        for f in RESULT_FIELDS {
            if let Some(v) = obs.get(f) { ev[f] = v.clone(); }
        }
        let p = w.proj(names);
        for f in ["used", "cap", "gauge", "bufs"] { ev[f] = p[f].clone(); }
        if let Some(e) = w.self_consistent() { ev["inconsistent"] = json!(e); }
        events.push(ev);
    }
    // the session is over: everything is given back
    for n in names {
        if w.guards.contains_key(n) {
            drop(w.guards.remove(n));
            let p = w.proj(names);
            let mut ev = json!({"ev":"Drop","g":n});
            for f in ["used", "cap", "gauge", "bufs"] { ev[f] = p[f].clone(); }
            events.push(ev);
        }
    }
}

fn drive_main() {
    let seed: u64 = arg("--seed", "1").parse().unwrap();
    let runs: usize = arg("--runs", "60").parse().unwrap();
    let steps: usize = arg("--steps", "120").parse().unwrap();
    let size: usize = arg("--size", "8").parse().unwrap();
    let max: usize = arg("--max", "3").parse().unwrap();
    let out = arg("--out", "/dev/null");
    let names: Vec<String> = (1..=4).map(|i| format!("g{i}")).collect();
    let mut rng = Rng(seed ^ 0xC16B);
    let mut f = std::io::BufWriter::new(std::fs::File::create(&out).expect("--out"));
    let (mut total, mut traces) = (0u64, 0u64);
    let mut by = BTreeMap::<String, u64>::new();
    let mut refused = 0u64;
    for run in 0..runs {
        // the minimum varies per run (0: the pool has to grow from nothing; = max: it never grows)
        let min = rng.below(max as u64 + 1) as usize;
        let mut events = Vec::new();
        let r = catch_unwind(AssertUnwindSafe(|| drive_run(&mut rng, steps, min, max, size, &names, &mut events)));
        if let Err(p) = r {
            vh::util::emit(&json!({"kind":"violation","class":"drive:panic","detail":{"what":format!("sozu panicked: {}", vh::util::panic_message(p)),"run":run},
                "events":events}));
            continue;
        }
        traces += 1;
        for e in &events {
            writeln!(f, "{}", e).unwrap();
            total += 1;
            *by.entry(e["ev"].as_str().unwrap_or("?").to_string()).or_default() += 1;
            if e.get("ret") == Some(&json!(-1)) || e.get("ok") == Some(&json!(false)) { refused += 1; }
        }
    }
    f.flush().unwrap();
    vh::util::emit(&json!({"kind":"summary","runs":runs,"traces":traces,"events":total,"by_action":by,"refused":refused,"size":size}));
}

fn main() {
    vh::util::quiet_panics();
    vh::c12kit::quiet_logs();
    if flag("--drive") { drive_main() } else { replay_main() }
}
