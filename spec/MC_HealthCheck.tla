--------------------------- MODULE MC_HealthCheck ---------------------------
(* Bounded instances of HealthCheck.tla for TLC. *)
EXTENDS HealthCheck

\* two backends at one address (A/B variants) and one at another
MCSlots3 == {[id |-> "b1", addr |-> 1], [id |-> "b2", addr |-> 2], [id |-> "b3", addr |-> 1]}
MCSlots2 == {[id |-> "b1", addr |-> 1], [id |-> "b2", addr |-> 2]}
MCSlotsSame == {[id |-> "b1", addr |-> 1], [id |-> "b3", addr |-> 1]}
MCSlots1 == {[id |-> "b1", addr |-> 1]}
\* one backend id at two addresses
MCSlotsSameId == {[id |-> "b1", addr |-> 1], [id |-> "b1", addr |-> 2]}

Cf(i, t, h, u, e) == [interval |-> i, timeout |-> t, hth |-> h, uth |-> u, expect |-> e]
\* thresholds 2/2 with a timeout as long as the interval, and 1/1 with a timeout longer than the interval
MCConfigs == {Cf(1, 1, 2, 2, 0), Cf(1, 2, 1, 1, 200)}
MCConfigs3 == MCConfigs \cup {Cf(2, 1, 1, 2, 204)}
MCConfigs1 == {Cf(1, 1, 2, 2, 0)}
MCConfigsMin == {Cf(1, 1, 1, 1, 0)}
\* budgets: a negative number is "unlimited" (the configuration file cannot spell one)
Unlimited == -1
MCConfigsUth1 == {Cf(1, 2, 1, 1, 0)}
=============================================================================
