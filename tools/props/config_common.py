"""Shared by c05.py, c06.py, c07.py: the three checks bound to spec/ConfigState.tla.

One TLC run per object family (listeners, clusters+backends, http/https fronts, certificates, tcp/udp fronts,
mixed) both model-checks the property's invariants and prints one REPLAY line per distinct state (path to the
state, projection, predicted result/effect of every command, verb multisets of Generate/Diff). The lines of all
families are concatenated into one ndjson file which harness/replay_config executes on the real ConfigState.
"""
import concurrent.futures
import json
import os

import vlib

MODULE = "ConfigState"

# family -> (MaxObj, MaxDepth) ; sizes measured, see design_notes/C07.md
BOUNDS = {
    "quick": {"L": (2, 3), "C": (3, 4), "F": (3, 4), "K": (4, 6), "T": (3, 4), "M": (4, 4)},
    # K: (6, 7) before the spellings of the certificate text (1.2 k states); with them (5, 6) = 4.6 k states
    "thorough": {"L": (2, 4), "C": (3, 5), "F": (4, 5), "K": (5, 6), "T": (4, 5), "M": (5, 5)},
}
PAIR_BOUNDS = {
    "quick": {"L": (2, 3), "C": (3, 3), "F": (3, 3), "K": (4, 3), "T": (3, 3), "M": (4, 3)},
    "thorough": {"L": (2, 4), "C": (3, 4), "F": (3, 4), "K": (4, 5), "T": (4, 4), "M": (4, 4)},
}
FAMILY_NAMES = {"L": "listeners", "C": "clusters+backends", "F": "http/https frontends", "K": "certificates",
                "T": "tcp/udp frontends", "M": "mixed"}

CFG = """SPECIFICATION %(spec)s
CONSTANTS
  Family = "%(family)s"
  MaxObj = %(maxobj)d
  MaxDepth = %(depth)d
  Wide = %(wide)s
  Deviations = %(dev)s
  Emit = "%(emit)s"
INVARIANTS %(inv)s
CONSTRAINT DepthBound
VIEW View
CHECK_DEADLOCK FALSE
"""

ARMS = {
    "L": ["Dispatch_AddListener", "Dispatch_RemoveListener", "Dispatch_ActivateListener", "Dispatch_DeactivateListener",
          "Dispatch_UpdateListener"],
    "C": ["Dispatch_AddCluster", "Dispatch_RemoveCluster", "Dispatch_SetHealthCheck", "Dispatch_RemoveHealthCheck",
          "Dispatch_AddBackend", "Dispatch_RemoveBackend"],
    "F": ["Dispatch_AddFrontend", "Dispatch_RemoveFrontend"],
    "K": ["Dispatch_AddCertificate", "Dispatch_RemoveCertificate", "Dispatch_ReplaceCertificate"],
    "T": ["Dispatch_AddL4Frontend", "Dispatch_RemoveL4Frontend"],
}


def tla_set(xs):
    return "{" + ", ".join('"%s"' % x for x in xs) + "}"


def write_cfg(wd, name, family, maxobj, depth, wide, emit, inv, spec="Spec", dev=()):
    path = os.path.join(wd, name)
    with open(path, "w") as f:
        f.write(CFG % {"spec": spec, "family": family, "maxobj": maxobj, "depth": depth,
                       "wide": "TRUE" if wide else "FALSE", "dev": tla_set(dev), "emit": emit,
                       "inv": " ".join(inv)})
    return path


def families(tier):
    return ["L", "C", "F", "K", "T", "M"]


def run_families(pid, tier, wd, invariants, emit, out_path, dev=(), coverage=False):
    """Model-check `invariants` (+ EmitState when emit != none) per family, in parallel; concatenate the
    REPLAY lines (header line + de-duplicated state lines) of all families into out_path.
    Returns (list of tlc results by family, number of state lines)."""
    thorough = tier == "thorough"
    inv = list(invariants) + (["EmitState"] if emit != "none" else [])
    results = {}
    tmp = {}

    def one(fam):
        maxobj, depth = BOUNDS[tier][fam]
        cfg = write_cfg(wd, "mc_%s.cfg" % fam, fam, maxobj, depth, thorough, emit, inv, dev=dev)
        seen = set()
        path = os.path.join(wd, "beh_%s.ndjson" % fam)
        n = [0]
        with open(path, "w") as f:
            def sink(o):
                if "cmds" in o:
                    f.write(json.dumps(o) + "\n")
                    return
                # several TLC workers may evaluate the invariant on the same new state
                # (TLC prints a set in the order it happens to hold it, so sort before comparing)
                key = json.dumps({k: sorted(json.dumps(x, sort_keys=True) for x in v) for k, v in o["st"].items()}, sort_keys=True)
                if key in seen:
                    return
                seen.add(key)
                n[0] += 1
                f.write(json.dumps(o) + "\n")
            r = vlib.tlc(MODULE, cfg, pid, workers=4 if not thorough else 6, timeout=3000 if thorough else 900,
                         coverage=coverage, want_replay=(emit != "none"), replay_sink=sink)
        r["state_lines"] = n[0]
        return fam, r, path

    with concurrent.futures.ThreadPoolExecutor(max_workers=3) as ex:
        for fam, r, path in ex.map(one, families(tier)):
            results[fam] = r
            tmp[fam] = path
    total = 0
    if out_path:
        with open(out_path, "w") as out:
            for fam in families(tier):
                with open(tmp[fam]) as f:
                    for line in f:
                        out.write(line)
                total += results[fam]["state_lines"]
    for fam in families(tier):
        try:
            os.unlink(tmp[fam])
        except OSError:
            pass
    return results, total


def check_model_results(rep, pid, results, coverage=False):
    for fam, r in results.items():
        rep.add_tlc(r)
        if r["violated"]:
            rep.violation("spec:%s:%s" % (fam, r["violated"]),
                          "the specification itself violates %s in family %s" % (r["violated"], FAMILY_NAMES[fam]), r["out"])
        if coverage and fam in ARMS and not r["violated"]:
            vlib.require_actions_covered(r, ARMS[fam])


def deviations_still_break(rep, pid, tier, wd, invariants):
    """Every open deviation, switched on, must make TLC find a counterexample (known findings stay honest)."""
    for d in vlib.open_deviations(pid):
        broke = False
        for fam in families(tier):
            maxobj, depth = BOUNDS["quick"][fam]
            cfg = write_cfg(wd, "dev_%s_%s.cfg" % (d, fam), fam, maxobj, depth, False, "none", invariants, dev=[d])
            r = vlib.tlc(MODULE, cfg, pid, workers=4, timeout=600)
            rep.add_tlc(r)
            if r["violated"]:
                broke = True
                vlib.log("deviation %s: TLC counterexample to %s (family %s) as expected" % (d, r["violated"], fam))
                break
        if not broke:
            raise vlib.ToolError("deviation %s no longer violates the property in the model" % d)


# self-test switches of a defect class (never on in a conformance run): switch -> (family whose universe reaches it, invariant)
SELFTEST_SWITCHES = {
    "SpellingSplit": ("K", "P_C05"),      # AddCertificate refuses a spelling of the text that ReplaceCertificate stores
    "HealthCheckSplit": ("C", "P_C05"),   # the inline check of AddCluster refuses what SetHealthCheck stored
}


def selftest_switches(rep, pid, wd, switches=SELFTEST_SWITCHES):
    """Each switch models a defect class the legs must reach; switched on, TLC must refute the invariant in the quick universe."""
    def one(item):
        d, (fam, inv) = item
        maxobj, depth = BOUNDS["quick"][fam]
        cfg = write_cfg(wd, "selftest_%s.cfg" % d, fam, maxobj, depth, False, "none", ["TypeOK", inv], dev=[d])
        return d, inv, vlib.tlc(MODULE, cfg, pid, workers=2, timeout=600)

    with concurrent.futures.ThreadPoolExecutor(max_workers=2) as ex:
        for d, inv, r in ex.map(one, sorted(switches.items())):
            rep.add_tlc(r)
            if r["violated"] != inv:
                raise vlib.ToolError("self-test: with the switch %s on TLC must refute %s in the quick universe, it reported %r: "
                                     "the universe no longer reaches the defect class" % (d, inv, r["violated"]))
            vlib.log("self-test switch %s: TLC counterexample to %s as expected" % (d, inv))
    rep.extra["selftest_switches_refuted"] = sorted(switches)


def replay(rep, pid, bins, mode, beh, variants, extra_args=(), threads=12, timeout=2400):
    """Run replay_config over `beh` once per concretisation variant; record violations; return summaries."""
    sums = []
    for v in variants:
        out = vlib.run_harness(bins["replay_config"],
                               ["--seed", str(vlib.seed() + 17 * v), "--threads", str(threads), "--mode", mode,
                                "--variant", str(v)] + list(extra_args), stdin_path=beh, timeout=timeout)
        summ = [o for o in out if o.get("kind") == "summary"]
        if not summ:
            raise vlib.ToolError("replay_config produced no summary")
        sums.append(summ[0])
        for o in out:
            if o.get("kind") == "violation":
                rep.violation(o["class"], "%s: %s" % (o["class"], json.dumps(o["detail"])[:260]), o)
        # classes with more occurrences than the stored examples are already represented by them
    return sums


def run_pairs(pid, tier, wd):
    """P_C06 over every ordered pair of configurations reachable with MaxDepth commands in total (PairSpec)."""
    thorough = tier == "thorough"
    out = {}

    def one(fam):
        maxobj, depth = PAIR_BOUNDS[tier][fam]
        # the product of two configurations grows fast: the pair runs keep the narrow universe in both tiers
        cfg = write_cfg(wd, "pairs_%s.cfg" % fam, fam, maxobj, depth, False, "none", ["P_C06"], spec="PairSpec")
        return fam, vlib.tlc(MODULE, cfg, pid, workers=2 if not thorough else 5, timeout=3000 if thorough else 900)

    with concurrent.futures.ThreadPoolExecutor(max_workers=6 if not thorough else 3) as ex:
        for fam, r in ex.map(one, families(tier)):
            out[fam] = r
    return out


def drive_bins(worker=False):
    names = ["drive_config"] + (["drive_config_worker"] if worker else [])
    return [n for n in names if os.path.exists(os.path.join(vlib.HARNESS, "src", "bin", n + ".rs"))]


TRACE_CFG = """SPECIFICATION TraceSpec
CONSTANTS
  Family = "M"
  MaxObj = 1000
  MaxDepth = 1000000
  Wide = FALSE
  Deviations = %(dev)s
  Emit = "none"
INVARIANTS %(inv)s
CONSTRAINT Track
POSTCONDITION TraceAccepted
CHECK_DEADLOCK FALSE
"""


def trace_cfg(wd, name, dev=(), inv=("P_C05", "P_C06_Near", "P_C07")):
    path = os.path.join(wd, name)
    with open(path, "w") as f:
        f.write(TRACE_CFG % {"dev": tla_set(dev), "inv": " ".join(inv)})
    return path


def worker_leg(rep, pid, tier, wd, bins):
    """C07 at worker level: a real worker thread receives seeded random commands; a Failure answer must leave
    its queryable view unchanged, the view must match a library ConfigState fed with the same commands, and the
    recorded (command, answer, configuration) trace must be a behaviour of WorkerHandle in ConfigState.tla with
    exactly the open deviations switched on."""
    if "drive_config_worker" not in bins:
        return
    thorough = tier == "thorough"
    devs = vlib.open_deviations(pid)
    trace = os.path.join(wd, "worker_trace.ndjson")
    runs, steps = (8, 300) if thorough else (3, 200)
    out = vlib.run_harness(bins["drive_config_worker"], ["--seed", str(vlib.seed()), "--runs", str(runs), "--steps", str(steps),
                                                          "--out", trace], timeout=900)
    summ = [o for o in out if o.get("kind") == "summary"]
    if not summ:
        raise vlib.ToolError("drive_config_worker produced no summary")
    summ = summ[0]
    for o in out:
        if o.get("kind") == "violation":
            rep.violation(o["class"], "%s: %s" % (o["class"], json.dumps(o["detail"])[:260]), o)
    extra = summ["classes"].get("dev:WorkerKeepsRefused", 0) - sum(1 for o in out if o.get("class") == "dev:WorkerKeepsRefused")
    if extra > 0 and "worker-keeps-refused" in rep.known:
        rep.known["worker-keeps-refused"]["n"] += extra
    r = vlib.tlc_trace("Trace_ConfigState", trace_cfg(wd, "worker_trace.cfg", dev=devs, inv=["P_C07"]), pid, trace, timeout=900)
    rep.add_tlc(r)
    if not r["accepted"]:
        with open(trace) as f:
            lines = f.readlines()
        k = r["consumed"] or 0
        ev = json.loads(lines[k]) if k < len(lines) else {}
        ev.pop("post", None)
        rep.violation("worker-trace-rejected:%s" % (ev.get("cmd", {}).get("verb", "?")),
                      "the worker's behaviour is not explained by WorkerHandle with deviations %s: event %d: %s"
                      % (devs, k + 1, json.dumps(ev)[:240]), "".join(lines[:k + 1]), name="worker_trace_rejected.ndjson")
    else:
        rep.cov["traces_validated_against_impl"] += summ["runs"]
        rep.extra["worker_trace_events_validated"] = r["consumed"]
    rep.extra["worker_leg"] = {k: summ[k] for k in ("runs", "commands", "failures", "no_answer", "classes")}
    if summ["failures"] == 0:
        raise vlib.ToolError("vacuous worker leg: no command was answered with Failure")
    # the binding itself: with the deviations switched off the same trace must be rejected when it used one
    if devs and summ["classes"].get("dev:WorkerKeepsRefused", 0) > 0:
        rc = vlib.tlc_trace("Trace_ConfigState", trace_cfg(wd, "worker_trace_nodev.cfg", dev=[], inv=["P_C07"]), pid, trace, timeout=900)
        if rc["accepted"]:
            raise vlib.ToolError("the worker trace is accepted without the deviation although the harness saw it: the trace spec binds nothing")


def trace_leg(rep, pid, tier, wd, bins, mode):
    """I->S: seeded random full-width command sequences on a real ConfigState, validated by Trace_ConfigState."""
    if "drive_config" not in bins:
        return
    thorough = tier == "thorough"
    trace = os.path.join(wd, "trace.ndjson")
    runs, steps = (40, 120) if thorough else (12, 80)
    out = vlib.run_harness(bins["drive_config"], ["--seed", str(vlib.seed()), "--runs", str(runs), "--steps", str(steps),
                                                   "--mode", mode, "--out", trace], timeout=1200)
    summ = [o for o in out if o.get("kind") == "summary"]
    if not summ:
        raise vlib.ToolError("drive_config produced no summary")
    summ = summ[0]
    for o in out:
        if o.get("kind") == "violation":
            rep.violation(o["class"], "%s: %s" % (o["class"], json.dumps(o["detail"])[:260]), o)
    cfg = trace_cfg(wd, "trace.cfg")
    r = vlib.tlc_trace("Trace_ConfigState", cfg, pid, trace, timeout=1500 if thorough else 600)
    rep.add_tlc(r)
    if not r["accepted"]:
        with open(trace) as f:
            lines = f.readlines()
        k = r["consumed"] or 0
        rep.violation("trace-rejected", "the recorded trace is not a behaviour of ConfigState.tla: event %s of %s is not explained: %s"
                      % (k + 1, r["total"], lines[k].strip()[:300] if k < len(lines) else "?"),
                      "".join(lines[:k + 1]), name="trace_rejected.ndjson")
    else:
        rep.cov["traces_validated_against_impl"] += summ["runs"]
        rep.extra["trace_events_validated"] = r["consumed"]
    rep.extra["trace_leg"] = {k: summ[k] for k in summ if k not in ("kind", "samples")}
    # canary: a corrupted trace must be rejected, otherwise the trace spec binds nothing
    if thorough or True:
        bad = os.path.join(wd, "trace_canary.ndjson")
        if corrupt_trace(trace, bad):
            rc = vlib.tlc_trace("Trace_ConfigState", cfg, pid, bad, timeout=600)
            if rc["accepted"]:
                raise vlib.ToolError("canary: a corrupted trace was accepted by Trace_ConfigState")


def corrupt_trace(src, dst):
    """flip the result of the last rejected-or-accepted dispatch event of the first run"""
    with open(src) as f:
        lines = f.readlines()
    for i, l in enumerate(lines):
        o = json.loads(l)
        if o.get("ev") == "dispatch" and i > 5:
            o["res"] = "err" if o["res"] == "ok" else "ok"
            lines[i] = json.dumps(o) + "\n"
            with open(dst, "w") as g:
                g.writelines(lines)
            return True
    return False


def explain_replay(bins, replay):
    """./check Cxx --replay <violation.json>: re-execute the stored commands verbosely (stdout), exit 0."""
    out = vlib.run_harness(bins["replay_config"], ["--explain", replay], timeout=300)
    for o in out:
        print(json.dumps(o)[:1500])
    raise SystemExit(0)
