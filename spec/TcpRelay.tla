------------------------------ MODULE TcpRelay ------------------------------
(***************************************************************************)
(* One TCP session of sozu once it is a pipe (lib/src/protocol/pipe.rs,    *)
(* driven by lib/src/tcp.rs ready_inner): two byte streams, "c2b" (client  *)
(* to backend) and "b2c".  Bytes are identified by their offset, so each   *)
(* direction is a pipeline of four counters                                *)
(*                                                                         *)
(*    sent >= rd >= wr >= rcvd                                             *)
(*    sent - rd   bytes in the kernel between the sender and sozu  (<= K)  *)
(*    rd - wr     bytes in sozu's session buffer                   (<= B)  *)
(*    wr - rcvd   bytes in the kernel between sozu and the receiver (<= K) *)
(*                                                                         *)
(* End of stream.  sozu never shuts down one direction only: a peer's FIN  *)
(* reaches the other peer when the whole session is closed, and            *)
(* check_connections() closes the session once the FIN'ed direction has    *)
(* been drained into the kernel and nothing of the other direction is      *)
(* buffered in sozu.  The other direction may be cut at that point (what   *)
(* is still in the kernel towards sozu is not read any more); this is the  *)
(* documented policy of the code ("technically we should keep it open")    *)
(* and is modelled as such, not as a deviation.                            *)
(*                                                                         *)
(* Deviation FrontFinDrops (open finding): tcp.rs ready_inner maps the     *)
(* client's FIN (EPOLLRDHUP -> Ready::HUP) to frontend_hup() -> Close      *)
(* before reading: whatever the client sent that sozu has not yet written  *)
(* to the backend is dropped.                                              *)
(*                                                                         *)
(* Pacing.  Peers are free: a receiver may stop reading for as long as it  *)
(* likes (Peer_Read is never forced before the sender has finished), so    *)
(* every state "sender finished and closed, receiver has read nothing yet, *)
(* kernel queue towards the receiver full, bytes left in sozu's buffer and *)
(* in the kernel behind it" is part of the model.  The end of stream must  *)
(* wait there.  Two self-test switches model the ways the readiness logic  *)
(* can get this wrong (TLC must refute P_C18_FinAfterPending for each):    *)
(*   FinOvertakesBuffered - check_connections() does not count the bytes   *)
(*       of the finished direction still held in the session buffer;       *)
(*   BlockedHupCloses - the hang-up of the sender is known, the receiver's *)
(*       socket is not writable: instead of waiting, the readiness loop    *)
(*       burns its iteration budget and the session is closed.             *)
(***************************************************************************)
EXTENDS Integers, Sequences, FiniteSets, TLC

CONSTANTS Deviations,  \* subset of {"FrontFinDrops"} \cup self-test switches {"FinOvertakesBuffered", "BlockedHupCloses"}
          MaxBytes,    \* bytes each side may send
          B,           \* capacity of a session buffer
          K            \* capacity of a kernel queue

Dirs == {"c2b", "b2c"}
Other(d) == IF d = "c2b" THEN "b2c" ELSE "c2b"
Min(a, b) == IF a < b THEN a ELSE b

VARIABLES sent, rd, wr, rcvd,   \* Dirs -> Nat
          finSent,              \* Dirs -> BOOLEAN: the sender of d has shut down its write side
          finSeen,              \* Dirs -> BOOLEAN: sozu has read the end of stream of d
          sess,                 \* "open" | "closed"
          closedBy,             \* direction whose FIN closed the session ("none" while open)
          eof                   \* Dirs -> {"none", "fin", "cut"}: what the receiver of d has observed

vars == <<sent, rd, wr, rcvd, finSent, finSeen, sess, closedBy, eof>>
obs  == <<sent, rcvd, finSent, eof>>     \* what the peers can observe

Init == /\ sent = [d \in Dirs |-> 0] /\ rd = [d \in Dirs |-> 0] /\ wr = [d \in Dirs |-> 0]
        /\ rcvd = [d \in Dirs |-> 0]
        /\ finSent = [d \in Dirs |-> FALSE] /\ finSeen = [d \in Dirs |-> FALSE]
        /\ sess = "open" /\ closedBy = "none" /\ eof = [d \in Dirs |-> "none"]

\* ---- peers (environment) ---------------------------------------------------
Peer_Write(d, k) ==
  /\ sess = "open" /\ ~finSent[d] /\ eof[Other(d)] = "none"
  /\ sent[d] + k <= MaxBytes
  /\ sent[d] + k - rd[d] <= K                       \* back-pressure: the kernel queue is bounded
  /\ sent' = [sent EXCEPT ![d] = @ + k]
  /\ UNCHANGED <<rd, wr, rcvd, finSent, finSeen, sess, closedBy, eof>>

Peer_Fin(d) ==
  /\ ~finSent[d]
  /\ finSent' = [finSent EXCEPT ![d] = TRUE]
  /\ UNCHANGED <<sent, rd, wr, rcvd, finSeen, sess, closedBy, eof>>

Peer_Read(d, k) ==
  /\ eof[d] = "none" /\ k >= 1 /\ rcvd[d] + k <= wr[d]
  /\ rcvd' = [rcvd EXCEPT ![d] = @ + k]
  /\ UNCHANGED <<sent, rd, wr, finSent, finSeen, sess, closedBy, eof>>

\* the receiver reads the end of stream: only after the session is closed, and after everything sozu
\* wrote to it.  "fin": the complete stream of a sender that finished; "cut" otherwise.
Peer_Eof(d) ==
  /\ sess = "closed" /\ eof[d] = "none" /\ rcvd[d] = wr[d]
  /\ eof' = [eof EXCEPT ![d] = IF finSent[d] /\ wr[d] = sent[d] THEN "fin" ELSE "cut"]
  /\ UNCHANGED <<sent, rd, wr, rcvd, finSent, finSeen, sess, closedBy>>

\* ---- sozu ---------------------------------------------------------------------
\* pipe.rs readable() / backend_readable(): read until would-block or the buffer is full
Sozu_Read(d) ==
  /\ sess = "open" /\ rd[d] < sent[d] /\ rd[d] - wr[d] < B
  /\ rd' = [rd EXCEPT ![d] = Min(sent[d], wr[d] + B)]
  /\ UNCHANGED <<sent, wr, rcvd, finSent, finSeen, sess, closedBy, eof>>

\* pipe.rs backend_writable() / writable(): write until would-block or the buffer is empty
Sozu_Write(d) ==
  /\ sess = "open" /\ wr[d] < rd[d] /\ wr[d] - rcvd[d] < K
  /\ wr' = [wr EXCEPT ![d] = Min(rd[d], rcvd[d] + K)]
  /\ UNCHANGED <<sent, rd, rcvd, finSent, finSeen, sess, closedBy, eof>>

\* the read that returns 0 comes after every byte of the stream
Sozu_SeeFin(d) ==
  /\ sess = "open" /\ finSent[d] /\ ~finSeen[d] /\ rd[d] = sent[d]
  /\ ~("FrontFinDrops" \in Deviations /\ d = "c2b")        \* the deviation closes before reading
  /\ finSeen' = [finSeen EXCEPT ![d] = TRUE]
  /\ UNCHANGED <<sent, rd, wr, rcvd, finSent, sess, closedBy, eof>>

\* check_connections() = false: the FIN'ed direction is drained and sozu holds nothing of the other one
Sozu_CloseAfterFin(d) ==
  /\ sess = "open" /\ finSeen[d] /\ wr[d] = rd[d]
  /\ wr[Other(d)] = rd[Other(d)]
  /\ sess' = "closed" /\ closedBy' = d
  /\ UNCHANGED <<sent, rd, wr, rcvd, finSent, finSeen, eof>>

\* DEVIATION: front HUP closes the session at once
Sozu_FrontHup ==
  /\ "FrontFinDrops" \in Deviations
  /\ sess = "open" /\ finSent["c2b"]
  /\ sess' = "closed" /\ closedBy' = "c2b"
  /\ UNCHANGED <<sent, rd, wr, rcvd, finSent, finSeen, eof>>

\* SELF-TEST DEVIATION: the end of stream of d was read, bytes of d are still in the session buffer
\* (the receiver is slow), and the keep-alive decision looks at the other direction only
Sozu_CloseOverBuffered(d) ==
  /\ "FinOvertakesBuffered" \in Deviations
  /\ sess = "open" /\ finSeen[d] /\ wr[d] < rd[d]
  /\ wr[Other(d)] = rd[Other(d)]
  /\ sess' = "closed" /\ closedBy' = d
  /\ UNCHANGED <<sent, rd, wr, rcvd, finSent, finSeen, eof>>

\* SELF-TEST DEVIATION: the sender of d hung up, bytes of d are pending in sozu (buffer or its kernel
\* queue), the kernel queue towards the receiver is full: nothing can progress, the loop spins and closes
Sozu_CloseBlockedHup(d) ==
  /\ "BlockedHupCloses" \in Deviations
  /\ sess = "open" /\ finSent[d] /\ wr[d] < sent[d]
  /\ wr[d] - rcvd[d] = K
  /\ sess' = "closed" /\ closedBy' = d
  /\ UNCHANGED <<sent, rd, wr, rcvd, finSent, finSeen, eof>>
Sozu_SelfTest == \E d \in Dirs : Sozu_CloseOverBuffered(d) \/ Sozu_CloseBlockedHup(d)

\* one wrapper per action so that TLC's coverage names them
Any_Sozu_Read == \E d \in Dirs : Sozu_Read(d)
Any_Sozu_Write == \E d \in Dirs : Sozu_Write(d)
Any_Sozu_SeeFin == \E d \in Dirs : Sozu_SeeFin(d)
Any_Sozu_CloseAfterFin == \E d \in Dirs : Sozu_CloseAfterFin(d)
Any_Peer_Read == \E d \in Dirs : \E k \in 1..K : Peer_Read(d, k)
Any_Peer_Eof == \E d \in Dirs : Peer_Eof(d)
Any_Peer_Write == \E d \in Dirs : \E k \in 1..K : Peer_Write(d, k)
Any_Peer_Fin == \E d \in Dirs : Peer_Fin(d)

SozuStep == Any_Sozu_Read \/ Any_Sozu_Write \/ Any_Sozu_SeeFin \/ Any_Sozu_CloseAfterFin
PeerReads == Any_Peer_Read \/ Any_Peer_Eof
Next == SozuStep \/ Sozu_FrontHup \/ Sozu_SelfTest \/ PeerReads \/ Any_Peer_Write \/ Any_Peer_Fin

Spec == Init /\ [][Next]_vars
\* sozu's steps, the kernel and the receivers are fair; senders are free
FairSpec == Spec /\ WF_vars(SozuStep) /\ WF_vars(Sozu_FrontHup) /\ WF_vars(Sozu_SelfTest) /\ WF_vars(PeerReads)

---------------------------------------------------------------------------
(* Properties (C18, relay part)                                            *)

TypeOK == /\ \A d \in Dirs : rcvd[d] <= wr[d] /\ wr[d] <= rd[d] /\ rd[d] <= sent[d] /\ sent[d] <= MaxBytes
          /\ \A d \in Dirs : rd[d] - wr[d] <= B /\ sent[d] - rd[d] <= K /\ wr[d] - rcvd[d] <= K

\* safety: what a receiver got is a prefix of what the sender wrote (offsets: in order, no duplicate)
P_C18_Prefix == \A d \in Dirs : rcvd[d] <= sent[d]

\* a FIN is passed on (the session is closed because of it) only after every pending byte of that
\* direction went out
P_C18_FinAfterPending == sess = "closed" => (finSent[closedBy] /\ wr[closedBy] = sent[closedBy])

\* consequently the receiver of the finished direction sees the end of stream after the whole stream
P_C18_EofComplete == \A d \in Dirs : (eof[d] # "none" /\ closedBy = d) => (eof[d] = "fin" /\ rcvd[d] = sent[d])

\* a direction is only ever cut by the other side's FIN
P_C18_CutOnlyByOtherFin == \A d \in Dirs : eof[d] = "cut" => closedBy = Other(d)

\* liveness: bytes keep flowing while the session is open, and a FIN ends the session
P_C18_Delivery == \A d \in Dirs : \A n \in 1..MaxBytes : [](sent[d] >= n => <>(rcvd[d] >= n \/ sess = "closed"))
P_C18_FinPassed == \A d \in Dirs : finSent[d] ~> (eof["c2b"] # "none" /\ eof["b2c"] # "none")

P_C18_Relay == P_C18_Prefix /\ P_C18_FinAfterPending /\ P_C18_EofComplete /\ P_C18_CutOnlyByOtherFin

---------------------------------------------------------------------------
(* The observable projection.  Trace_TcpRelay validates recorded peer      *)
(* events against these actions; TLC checks that every step of the         *)
(* detailed model is one of them (or stutters on `obs`), so a trace the    *)
(* observable spec rejects is not a behaviour of the model.                *)

CutAllowed(d, fs) == fs[Other(d)] \/ ("FrontFinDrops" \in Deviations /\ d = "c2b" /\ fs[d])

O_Sent(d) == /\ ~finSent[d] /\ sent'[d] > sent[d] /\ sent' = [sent EXCEPT ![d] = sent'[d]]
             /\ UNCHANGED <<rcvd, finSent, eof>>
O_Fin(d) == /\ ~finSent[d] /\ finSent' = [finSent EXCEPT ![d] = TRUE] /\ UNCHANGED <<sent, rcvd, eof>>
O_Rcvd(d) == /\ eof[d] = "none" /\ rcvd'[d] > rcvd[d] /\ rcvd'[d] <= sent[d]
             /\ rcvd' = [rcvd EXCEPT ![d] = rcvd'[d]] /\ UNCHANGED <<sent, finSent, eof>>
O_Eof(d) == /\ eof[d] = "none" /\ eof'[d] \in {"fin", "cut"} /\ eof' = [eof EXCEPT ![d] = eof'[d]]
            /\ (eof'[d] = "fin" => finSent[d] /\ rcvd[d] = sent[d])
            /\ (eof'[d] = "cut" => CutAllowed(d, finSent))
            /\ UNCHANGED <<sent, rcvd, finSent>>
ObsNext == \E d \in Dirs : O_Sent(d) \/ O_Fin(d) \/ O_Rcvd(d) \/ O_Eof(d)
P_C18_RefinesObs == [][ObsNext]_obs
=============================================================================
