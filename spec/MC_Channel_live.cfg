SPECIFICATION FairSpec
CONSTANTS
  D = 8
  InitCap = 16
  MaxCap = 32
  WriteSizes = {20, 33}
  InjGood = {}
  InjUndec = {12}
  InjShort = {7}
  InjOver = {}
  MaxWrites = 1
  MaxInjects = 1
  MaxInFlight = 2
  MaxChunks = 1
  Scope = "e2e"
  LazyInject = TRUE
  Canonical = TRUE
  Bounded = TRUE
  Record = FALSE
  History = TRUE
  Depth = 0
  Edges = TRUE
  Deviations = {}
INVARIANTS TypeOK P_C11_Slices P_C11_Bounded P_C11_Conservation P_C11_NoBufferFull P_C11_CanReceive Lemma_PosHalf P_C11_History P_C11_WriteAccepted
PROPERTIES P_C11_Live P_C11_DeliverHead
CHECK_DEADLOCK FALSE
