#!/bin/sh
# Offline setup: copy the repository lockfile and build every harness binary once (cold build ~1-2 min).
set -e
cd "$(dirname "$0")/harness"
cp /repo/Cargo.lock Cargo.lock
CARGO_NET_OFFLINE=true cargo build --offline --bins 2>&1 | tail -3
