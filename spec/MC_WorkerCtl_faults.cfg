\* C07 (worker side): the listener life-cycle with an environment that holds / releases listener
\* addresses (a foreign socket without SO_REUSEPORT): a refused ActivateListener leaves no trace.
\* tools/props/c07_listen_faults.py writes the tier's variants (and the deviation self-tests).
SPECIFICATION Spec
CONSTANTS
  Listeners = {"hA", "tC", "uE"}
  Clusters = {}
  HFronts = {}
  TFronts = {}
  UFronts = {}
  Backends = {}
  Verbs <- VerbsFaults
  MaxReq = 4
  AfterStop <- AfterStopKinds
  Deviations = {}
  Deterministic = FALSE
  Preamble <- NoPreamble
  Traffic = FALSE
  Faults = TRUE
  Emit = FALSE
VIEW MCView
INVARIANTS TypeOK P_C07_ActiveListens P_C08_ExactlyOnce P_C08_BaseCount
PROPERTIES P_C07_RefusedNoTrace P_C07_ActivatedListens
CHECK_DEADLOCK FALSE
