---------------------------- MODULE MC_WorkerCtl ----------------------------
(* Constant definitions for the TLC configurations of WorkerCtl (C08).      *)
EXTENDS WorkerCtl

NoPreamble == <<>>
ServingPreamble == <<[k |-> "AddListener", a |-> "hA"], [k |-> "Activate", a |-> "hA"],
                     [k |-> "AddListener", a |-> "tC"], [k |-> "Activate", a |-> "tC"]>>

\* request-kind families (the generator explores one family at a time to keep the number of
\* transitions replayable; the exhaustive configuration takes their union)
VerbsListeners == ListenKinds \cup {"Status", "ReturnSockets", "SoftStop", "HardStop"}
VerbsRouting   == {"QueryCluster", "AddCluster", "RemoveCluster", "AddBackend", "RemoveBackend",
                   "AddHFront", "RemoveHFront", "AddTFront", "RemoveTFront",
                   "RemoveListener", "AddListener", "Activate", "Deactivate"}
VerbsWorker    == WorkerKinds \cup ClusterKinds \cup {"SoftStop", "HardStop", "ReturnSockets"}
VerbsAll       == WorkerKinds \cup ClusterKinds \cup BackendKinds \cup HFrontKinds \cup TFrontKinds \cup UFrontKinds
                  \cup ListenKinds \cup StopKinds \cup MalformedKinds
VerbsCore      == {"Status", "MetricDetailBad", "AddCluster", "AddClusterBadHc", "RemoveCluster",
                   "AddBackend", "RemoveBackend", "AddHFront", "RemoveHFront", "AddTFront", "RemoveTFront",
                   "AddListener", "RemoveListener", "Activate", "Deactivate", "UpdateListener",
                   "ReturnSockets", "SoftStop", "HardStop"}
VerbsRelisten  == {"AddHFront", "AddBackend", "RemoveBackend", "RemoveListener", "AddListener", "Activate", "Deactivate"}
HaPreamble == <<[k |-> "AddListener", a |-> "hA"], [k |-> "Activate", a |-> "hA"]>>
AfterStopKinds == {"SoftStop", "Status"}
\* C07, commands that touch sockets under OS-level faults (Faults = TRUE): the listener life-cycle
VerbsFaults    == {"AddListener", "RemoveListener", "Activate", "Deactivate", "UpdateListener", "ReturnSockets"}
\* ... and what a client is served once the address is free again (one http route, one tcp route)
VerbsFaultsServe == {"Activate", "Deactivate", "AddBackend", "AddHFront", "AddTFront"}
ServeNothingPreamble == <<[k |-> "AddListener", a |-> "hA"], [k |-> "AddListener", a |-> "tC"]>>
\* C08, malformed requests (enum fields outside their enum, no request type, a kind of the main process):
\* every one answered exactly once, the worker as it was, the next requests served as usual
VerbsMalformed == MalformedKinds \cup {"Status", "AddListener", "Activate", "RemoveListener", "AddHFront", "SoftStop"}
\* C08, one cluster published on several listeners of ONE kind, then redefined / removed / its backends changed
VerbsSharedUdp  == {"AddCluster", "AddClusterAlt", "RemoveCluster", "AddUFront", "RemoveUFront", "AddBackend", "RemoveBackend",
                    "UpdateListener"}
VerbsSharedTcp  == {"AddCluster", "AddClusterAlt", "RemoveCluster", "AddTFront", "RemoveTFront", "AddBackend", "RemoveBackend"}
VerbsSharedHttp == {"AddCluster", "AddClusterAlt", "RemoveCluster", "AddHFront", "RemoveHFront", "AddBackend", "RemoveBackend"}
\* (exhaustive configuration of the class: the three kinds together, listener removal included)
VerbsShared     == VerbsSharedUdp \cup {"AddTFront", "RemoveListener", "AddListener", "Activate"}
TwoUdpPreamble  == <<[k |-> "AddListener", a |-> "uE"], [k |-> "Activate", a |-> "uE"],
                     [k |-> "AddListener", a |-> "uF"], [k |-> "Activate", a |-> "uF"]>>
TwoTcpPreamble  == <<[k |-> "AddListener", a |-> "tC"], [k |-> "Activate", a |-> "tC"],
                     [k |-> "AddListener", a |-> "tG"], [k |-> "Activate", a |-> "tG"]>>
TwoHttpPreamble == <<[k |-> "AddListener", a |-> "hA"], [k |-> "Activate", a |-> "hA"],
                     [k |-> "AddListener", a |-> "hB"], [k |-> "Activate", a |-> "hB"]>>
SharedPreamble  == TwoUdpPreamble \o <<[k |-> "AddListener", a |-> "tC"], [k |-> "Activate", a |-> "tC"]>>
=============================================================================
