--------------------------- MODULE Trace_UdpShell ---------------------------
(***************************************************************************)
(* Shell leg of C19: what mock UDP clients and backends observed around a  *)
(* REAL sozu worker (harness/shell_udp, lock step), validated against the  *)
(* same handlers as the pure core (UdpFlows.tla), composed the way         *)
(* lib/src/udp.rs composes them: a SelectBackend is answered at once by    *)
(* BackendResolved with a backend of the load balancer's choice (the one   *)
(* that was observed to receive the datagram).                             *)
(*                                                                         *)
(*   {"ev":"reset","cluster":CfgT,"maxFlows":k,"maxRx":k,"clients":[ports]}*)
(*   {"ev":"c2b","client":i,"port":p,"pl":{id,len},                        *)
(*        "obs":{"got":0} | {"got":1,"backend":b,"up":u,"id":x,"intact":t}, *)
(*        "dup":0|1}      a client datagram and what the backends received *)
(*   {"ev":"b2c","backend":b,"up":u,"foreign":t,"pl":{id,len},             *)
(*        "obs":{"got":0} | {"got":1,"client":i,"id":x,"intact":t},"dup":…}*)
(*                        a datagram sent by backend b to upstream port u  *)
(*   {"ev":"cfg","what":"SetCluster","cfg":CfgT} | {…"SetMaxFlows","v":k}  *)
(*                                                                         *)
(* The flow id is not visible on the wire; the proxy's upstream source     *)
(* port stands for the flow incarnation (umap: live flow -> port).         *)
(* No idle timeout fires during a run (timeouts are 120 s): time stays 0.  *)
(***************************************************************************)
EXTENDS UdpFlows, IOUtils

ASSUME TLCSet(1, 0)

Rec == ndJsonDeserialize(IOEnv.TRACE)

VARIABLES idx,      \* next event to explain
          umap,     \* live flow id -> upstream port observed at the backends
          ports,    \* client index -> its source port
          sel       \* flow whose SelectBackend waits for the shell's answer (NoFlow if none)

tvars == <<vars, idx, umap, ports, sel>>

CfgOf(a) == Cfg(a[1], a[2] = 1, a[3], a[4], a[5], a[6], a[7] = 1, a[8] = 1)

SetCore(s) ==
  /\ table' = s.table /\ flows' = s.flows /\ free' = s.free /\ slabLen' = s.slabLen
  /\ maxFlows' = s.maxFlows /\ maxRx' = s.maxRx /\ draining' = s.draining /\ cluster' = s.cluster
  /\ armed' = s.armed /\ now' = s.now

RestrictTo(m, live) == [f \in DOMAIN m \cap live |-> m[f]]
Sends(o) == {j \in 1..Len(o) : o[j].k = "SendToBackend"}
Selects(o) == {j \in 1..Len(o) : o[j].k = "SelectBackend"}
ToClient(o) == {j \in 1..Len(o) : o[j].k = "SendToClient"}

TInit ==
  /\ table = <<>> /\ flows = <<>> /\ free = <<>> /\ slabLen = 0
  /\ maxFlows = 1 /\ maxRx = 1 /\ draining = FALSE /\ cluster = Base(TRUE)
  /\ armed = NoTimer /\ now = 0 /\ n = 0 /\ inp = [op |-> "Init"] /\ out = <<>> /\ hist = <<>>
  /\ idx = 1 /\ umap = <<>> /\ ports = <<>> /\ sel = NoFlow

TReset(e) ==
  /\ SetCore([table |-> <<>>, flows |-> <<>>, free |-> <<>>, slabLen |-> 0, maxFlows |-> e.maxFlows, maxRx |-> e.maxRx,
              draining |-> FALSE, cluster |-> CfgOf(e.cluster), armed |-> NoTimer, now |-> 0])
  /\ n' = 0 /\ inp' = [op |-> "Init"] /\ out' = <<>> /\ hist' = hist
  /\ umap' = <<>> /\ ports' = e.clients /\ sel' = NoFlow /\ idx' = idx + 1

Fail(what, e) == PrintT(<<"MISMATCH at event", idx, what, e>>) /\ FALSE
\* (IF, not a disjunction: TLC evaluates every disjunct of an action)
Check(cond, what, e) == IF cond THEN TRUE ELSE Fail(what, e)

\* first half of a client datagram: the manager's ClientDatagram step
TClient(e) ==
  /\ sel = NoFlow
  /\ LET i == [op |-> "ClientDatagram", src |-> [ip |-> 1, port |-> e.port], pl |-> e.pl]
         r == Step(St, i)
         f == Lookup(St, i.src)
     IN /\ Check(e.dup = 0, "a datagram was delivered twice", e)
        /\ IF Selects(r.out) # {}
           THEN \* new flow: the observation is explained by the BackendResolved step that follows
                /\ sel' = r.out[CHOOSE j \in Selects(r.out) : TRUE].flow
                /\ UNCHANGED <<idx, umap>>
           ELSE /\ sel' = NoFlow /\ idx' = idx + 1
                /\ umap' = RestrictTo(umap, Live(r.s))
                /\ IF Sends(r.out) # {}
                   THEN LET x == r.out[CHOOSE j \in Sends(r.out) : TRUE] IN
                        Check(/\ e.obs.got = 1 /\ e.obs.intact /\ e.obs.id = x.p
                              /\ e.obs.backend = x.dst                       \* sticky: the flow's backend
                              /\ f \in DOMAIN umap /\ e.obs.up = umap[f],     \* on the flow's own upstream socket
                              <<"expected delivery to backend", x.dst, "via", umap>>, e)
                   ELSE Check(e.obs.got = 0, <<"expected no delivery, manager output", r.out>>, e)
        /\ SetCore(r.s) /\ n' = n + 1 /\ inp' = i /\ out' = r.out /\ hist' = hist /\ ports' = ports

\* second half: the shell's immediate BackendResolved for the flow just admitted
TResolve(e) ==
  /\ sel # NoFlow
  /\ Check(e.obs.got = 1, "a new flow was admitted but no backend received its first datagram", e)
  /\ LET i == [op |-> "BackendResolved", flow |-> sel, backend |-> e.obs.backend]
         r == Step(St, i)
     IN /\ Check(/\ Sends(r.out) # {}
                 /\ LET x == r.out[CHOOSE j \in Sends(r.out) : TRUE] IN
                    e.obs.intact /\ e.obs.id = x.p /\ e.obs.backend = x.dst
                 \* a fresh upstream socket: no other live flow uses that source port
                 /\ \A g \in DOMAIN umap \cap Live(St) : umap[g] # e.obs.up,
                 <<"first datagram of a new flow", r.out, umap>>, e)
        /\ umap' = RestrictTo((sel :> e.obs.up) @@ umap, Live(r.s))
        /\ SetCore(r.s) /\ n' = n + 1 /\ inp' = i /\ out' = r.out /\ hist' = hist /\ ports' = ports
        /\ sel' = NoFlow /\ idx' = idx + 1

\* a datagram from a backend towards an upstream port of the proxy
TBackend(e) ==
  /\ sel = NoFlow
  /\ Check(e.dup = 0, "a reply was delivered twice", e)
  /\ LET fs == {f \in DOMAIN umap \cap Live(St) : umap[f] = e.up} IN
     IF e.foreign \/ fs = {}
     THEN \* not the flow's backend (connected socket: the kernel filters it) or the flow is gone
          /\ Check(e.obs.got = 0, "a datagram from a foreign backend / for a closed flow reached a client", e)
          /\ UNCHANGED <<vars, umap, ports, sel>> /\ idx' = idx + 1
     ELSE LET f == CHOOSE x \in fs : TRUE
              i == [op |-> "BackendDatagram", flow |-> f, pl |-> e.pl]
              r == Step(St, i)
          IN /\ IF ToClient(r.out) # {}
                THEN LET x == r.out[CHOOSE j \in ToClient(r.out) : TRUE] IN
                     Check(/\ e.obs.got = 1 /\ e.obs.intact /\ e.obs.id = x.p
                           /\ ports[e.obs.client] = x.client.port,            \* isolation: the flow's client only
                           <<"expected reply at client port", x.client.port>>, e)
                ELSE Check(e.obs.got = 0, <<"expected no reply, manager output", r.out>>, e)
             /\ umap' = RestrictTo(umap, Live(r.s))
             /\ SetCore(r.s) /\ n' = n + 1 /\ inp' = i /\ out' = r.out /\ hist' = hist /\ ports' = ports
             /\ sel' = NoFlow /\ idx' = idx + 1

TConfig(e) ==
  /\ sel = NoFlow
  /\ LET i == IF e.what = "SetCluster"
              THEN [op |-> "Config", ev |-> [what |-> "SetCluster", cfg |-> CfgOf(e.cfg)]]
              ELSE [op |-> "Config", ev |-> [what |-> e.what, v |-> e.v]]
         r == Step(St, i)
     IN /\ SetCore(r.s) /\ n' = n + 1 /\ inp' = i /\ out' = r.out /\ hist' = hist
        /\ UNCHANGED <<umap, ports, sel>> /\ idx' = idx + 1

TNext ==
  /\ idx <= Len(Rec)
  /\ LET e == Rec[idx] IN
     CASE e.ev = "reset" -> TReset(e)
       [] e.ev = "c2b"   -> TClient(e) \/ TResolve(e)
       [] e.ev = "b2c"   -> TBackend(e)
       [] e.ev = "cfg"   -> TConfig(e)

TraceSpec == TInit /\ [][TNext]_tvars

Track == (idx - 1 > TLCGet(1) => TLCSet(1, idx - 1)) /\ TRUE

TraceAccepted ==
  /\ IF TLCGet(1) = Len(Rec)
     THEN PrintT(<<"TRACE-ACCEPTED", TLCGet(1)>>)
     ELSE /\ PrintT(<<"TRACE-REJECTED", TLCGet(1), Len(Rec)>>)
          /\ PrintT(<<"FIRST-UNEXPLAINED", Rec[TLCGet(1) + 1]>>)
  /\ TRUE

\* distinct live flows never share an upstream socket
UpstreamsDistinct == \A f, g \in DOMAIN umap : f # g => umap[f] # umap[g]

IsStep == inp'.op # "Init" /\ <<St, inp, out>> # <<St', inp', out'>>
S_C19_Sticky    == [][IsStep => StickyOK(St, inp', out', St', FALSE)]_tvars
S_C19_StickyModuloRekey == [][IsStep => StickyOK(St, inp', out', St', RekeyCase(St, inp'))]_tvars
S_C19_Isolation == [][IsStep => IsolationOK(St, inp', out', St')]_tvars
S_C19_Integrity == [][IsStep => IntegrityOK(St, inp', out', St')]_tvars
S_C19_Cap       == [][IsStep => CapOK(St, inp', out', St')]_tvars
S_C19_Teardown  == [][IsStep => TeardownOK(St, inp', out', St')]_tvars
=============================================================================
