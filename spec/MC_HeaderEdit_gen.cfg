SPECIFICATION Spec
CONSTANTS
  MaxReq = 2
  MaxTr = 1
  MaxResp = 2
  CheckDeviations = {}
  Deviations = {"H1TrailerIdentity", "TrailerCorr", "NominatedToH2"}
  Emit = TRUE
  SampleMod = 40
  SampleRes = 1
  Shape = "quick"
INVARIANTS TypeOK P_C13 EmitCase
CHECK_DEADLOCK FALSE
