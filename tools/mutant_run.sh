#!/bin/bash
# tools/mutant_run.sh <slot> <patch.diff|-> <check args...>
# Runs ./check <args> from a scratch copy of /verif against a scratch worktree of /repo (HEAD + patch),
# so that /repo itself and the other checks' build cache are not disturbed.
#   slot: small integer; one scratch tree + cargo target dir per slot is reused (fast incremental rebuilds).
# Leaves nothing behind except /tmp/vmut-target-<slot> (build cache; remove with --clean).
set -u
slot="$1"; patch="$2"; shift 2
WT=/tmp/vmut-repo-$slot
VC=/tmp/vmut-verif-$slot
TG=/tmp/vmut-target-$slot
if [ "$patch" = "--clean" ]; then
  git -C /repo worktree remove --force "$WT" 2>/dev/null; rm -rf "$WT" "$VC" "$TG"; git -C /repo worktree prune; exit 0
fi
exec 9>/tmp/vmut-lock-$slot; flock 9
git -C /repo worktree remove --force "$WT" 2>/dev/null; rm -rf "$WT"; git -C /repo worktree prune
git -C /repo worktree add -q --detach "$WT" HEAD || exit 2
# carry over uncommitted changes of /repo's working tree too (checks are defined on the working tree)
git -C /repo diff HEAD | (cd "$WT" && git apply --allow-empty -q 2>/dev/null)
if [ "$patch" != "-" ]; then
  (cd "$WT" && git apply "$patch") || { echo "patch does not apply"; git -C /repo worktree remove --force "$WT"; exit 2; }
fi
rm -rf "$VC"; mkdir -p "$VC"
rsync -a --exclude harness/target --exclude .work --exclude .git --exclude replays --exclude evidence /verif/ "$VC"/
mkdir -p "$VC/evidence"
sed -i "s#/repo/#$WT/#g" "$VC/harness/Cargo.toml"
sed -i "s#^target-dir = .*#target-dir = \"$TG\"#" "$VC/harness/.cargo/config.toml"
cp "$WT/Cargo.lock" "$VC/harness/Cargo.lock"
mkdir -p "$TG"
export CARGO_INCREMENTAL=0
# the harness must build into $TG (vlib looks under harness/target -> $TG): a caller's CARGO_TARGET_DIR would redirect it
unset CARGO_TARGET_DIR
# vlib expects binaries under harness/target
ln -sfn "$TG" "$VC/harness/target"
(cd "$VC" && VERIF_REPO="$WT" ./check "$@")
rc=$?
git -C /repo worktree remove --force "$WT" 2>/dev/null; rm -rf "$WT" "$VC"; git -C /repo worktree prune
echo "mutant_run: exit $rc"
exit $rc
