\* Reference copies; tools/props/c11.py writes the configs it runs (tiers, geometries, open deviations) into .work/C11/.
\* gen: java ... tlc2.TLC -simulate num=N -depth 81 -config MC_Channel_gen.cfg Channel.tla ; trace: TRACE=<file> ... -config Trace_Channel.cfg Trace_Channel.tla
SPECIFICATION GenSpec
CONSTANTS
  D = 8
  InitCap = 16
  MaxCap = 64
  WriteSizes = {8, 10, 11, 12, 13, 14, 15, 16, 17, 18, 19, 20, 21, 22, 23, 24, 25, 26, 27, 28, 29, 30, 31, 32, 33, 34, 35, 36, 37, 38, 39, 40, 41, 42, 43, 44, 45, 46, 47, 48, 49, 50, 51, 52, 53, 54, 55, 56, 57, 58, 59, 60, 61, 62, 63, 64, 65, 72}
  InjGood = {8, 10, 16, 17, 33, 56, 57, 63, 64}
  InjUndec = {9, 20, 64}
  InjShort = {0, 7}
  InjOver = {65, 72}
  MaxWrites = 8
  MaxInjects = 4
  MaxInFlight = 4
  MaxChunks = 1
  Scope = "e2e"
  LazyInject = FALSE
  Canonical = FALSE
  Bounded = TRUE
  Record = TRUE
  History = FALSE
  Depth = 80
  Edges = FALSE
  Deviations = {"OversizeWedge"}
INVARIANTS EmitHist
CHECK_DEADLOCK FALSE
