-------------------------------- MODULE Relay --------------------------------
(***************************************************************************)
(* Byte relay of sozu's HTTP mux (lib/src/protocol/mux/{mod,h1,h2}.rs,     *)
(* socket.rs, lib.rs Readiness) for property C01: proxied bodies arrive    *)
(* complete, unmodified, in order, and end cleanly when the sender ended   *)
(* them cleanly.                                                           *)
(*                                                                         *)
(* One exchange = one stream s with two PIPES <<s,"req">> and <<s,"resp">>.*)
(* A pipe is                                                               *)
(*                                                                         *)
(*   sender -> inK[RdEp] -> sozu buffer (kawa, capacity B) -> outK[WrEp]   *)
(*          -> receiver                                                    *)
(*                                                                         *)
(* Bytes are identified by position: a data item carries its offset, and   *)
(* the four counters  rcvd <= wr <= rd <= sent  say how far each stage     *)
(* got.  ENDPOINTS are sozu's sockets: F (the client connection) and the   *)
(* backend connection(s): one shared connection when the backend speaks    *)
(* HTTP/2, one per stream when it speaks HTTP/1.1.  The kernel queues      *)
(* inK[e] / outK[e] are FIFO and shared by every stream of the connection, *)
(* and for HTTP/2 the peer's WINDOW_UPDATE frames travel in the same FIFO  *)
(* as its DATA frames - that is what makes head-of-line effects visible.   *)
(*                                                                         *)
(* Readiness is edge-triggered: the kernel raises READABLE when bytes      *)
(* arrive and WRITABLE only after a write hit would-block (kfull) and room *)
(* came back; sozu keeps `event` (what it believes is ready) and           *)
(* `interest` per endpoint and runs an endpoint only when                  *)
(* event /\ interest is non-empty (Mux::ready).  Bytes that sit in sozu's  *)
(* own buffers raise no kernel event: whoever queues them must arm the     *)
(* writer (Readiness::arm_writable), whoever frees buffer room must wake   *)
(* the parked reader (try_resume_reading).                                 *)
(*                                                                         *)
(* Actions, one per run-to-completion step:                                *)
(*   Peer_Write(p,k) Peer_Close(p,kind) Peer_Read(e) Peer_Grant(e,s,n)     *)
(*   Epoll_Edge(e)   Mux_Readable(e)    Mux_Writable(e)                    *)
(*                                                                         *)
(* Deviations (what the code does or did where it departs from C01):       *)
(*   HolBlocking          OPEN.  An HTTP/2 connection stops reading as a   *)
(*                        whole when the stream of the next DATA frame has *)
(*                        no buffer room (h2.rs readable: interest.remove  *)
(*                        (READABLE)); window credit is granted on receipt *)
(*                        not on consumption, so the peer may legally have *)
(*                        such a frame in flight.  WINDOW_UPDATEs queued   *)
(*                        behind it are not read; two streams moving in    *)
(*                        opposite directions over an H2 client connection *)
(*                        and an H2 backend connection deadlock.           *)
(*   CloseDelimKeepsOpen  fixed.  After a close-delimited response an      *)
(*                        HTTP/1.1 client connection was kept open: the    *)
(*                        end of the body was never signalled.             *)
(*   DeadBackendSpin      fixed.  A backend that hung up while its buffer  *)
(*                        was full kept Mux::ready spinning until the      *)
(*                        iteration budget closed the session.             *)
(*   KeepAliveEosStale    fixed.  The second exchange of a kept-alive      *)
(*                        HTTP/1.1 client connection towards an HTTP/2     *)
(*                        backend was refused (stale end-of-stream marks). *)
(*   LoopBudgetKill       OPEN.  Mux::ready gives itself MAX_LOOP_ITERATIONS   *)
(*                        passes per wake-up and one pass handles one      *)
(*                        HTTP/2 frame per endpoint: a burst of a few      *)
(*                        thousand small frames that is already in the     *)
(*                        kernel exhausts the budget and the session is    *)
(*                        closed with its exchanges in flight.             *)
(*   FinalizeDropsWritable hypothetical: finalize_write withdraws WRITABLE *)
(*                        although buffered output remains (sanity of the  *)
(*                        model: TLC must find the lost wake-up).          *)
(*   NoArmAfterRead       hypothetical: a read path queues bytes without   *)
(*                        arm_writable on the peer endpoint.               *)
(***************************************************************************)
EXTENDS Integers, Sequences, FiniteSets, TLC

CONSTANTS N,           \* number of streams
          FrontProto,  \* "h1" | "h2"
          BackProto,   \* "h1" | "h2"
          Req1, Req2,  \* units of request body of stream 1, 2 (TLC configuration files cannot hold tuples)
          Resp1, Resp2,\* units of response body of stream 1, 2
          RespClose,   \* set of streams whose response is close-delimited at the backend (H1 backends only)
          B,           \* capacity of one kawa buffer, in units
          K,           \* capacity of a kernel queue, in items
          W0,          \* initial HTTP/2 stream send window, in units
          Ws,          \* sizes a sender may write in one call
          Aborts,      \* BOOLEAN: senders may abort
          EarlyResp,   \* BOOLEAN: a backend may answer before it has the whole request (full duplex on one stream)
          Deviations

ASSUME N \in {1, 2}
ReqLen == <<Req1, Req2>>
RespLen == <<Resp1, Resp2>>
Streams == 1..N
Dirs == {"req", "resp"}
Pipes == Streams \X Dirs
F == 0
BE(s) == IF BackProto = "h2" THEN 1 ELSE s
Endpoints == {F} \cup {BE(s) : s \in Streams}
Proto(e) == IF e = F THEN FrontProto ELSE BackProto
RdEp(p) == IF p[2] = "req" THEN F ELSE BE(p[1])      \* sozu reads pipe p from this endpoint
WrEp(p) == IF p[2] = "req" THEN BE(p[1]) ELSE F      \* and writes it to this one
DirRead(e) == IF e = F THEN "req" ELSE "resp"
DirWritten(e) == IF e = F THEN "resp" ELSE "req"
Other(p) == <<p[1], IF p[2] = "req" THEN "resp" ELSE "req">>
MsgLen(p) == IF p[2] = "req" THEN ReqLen[p[1]] ELSE RespLen[p[1]]
Min(a, b) == IF a < b THEN a ELSE b
Dev(d) == d \in Deviations

\* the framing the receiver sees: a close-delimited response stays close-delimited towards an HTTP/1.1 client
CloseTowardsClient(p) == p[2] = "resp" /\ p[1] \in RespClose /\ BackProto = "h1" /\ FrontProto = "h1"

VARIABLES sent, rd, wr, rcvd,          \* Pipes -> Nat
          endSent, endRd, endWr, endRcvd, \* Pipes -> {"none","clean","abort"}
          inK, outK,                   \* Endpoints -> sequence of items
          event, interest,             \* Endpoints -> SUBSET {"R","W"}
          kfull,                       \* Endpoints -> BOOLEAN: the last write on e hit would-block
          edgeR, edgeW,                \* Endpoints -> BOOLEAN: a kernel edge not yet seen by sozu
          parked,                      \* Endpoints -> 0..N: stream whose full buffer stopped the reads of e
          win,                         \* Endpoints -> [Streams -> Int]: HTTP/2 stream send windows of sozu on e
          credit,                      \* Pipes -> Nat: window the receiver of p has granted so far (HTTP/2)
          ok,                          \* FALSE once a receiver got a byte out of order, twice, or foreign
          killed                       \* the session was closed by sozu itself

vars == <<sent, rd, wr, rcvd, endSent, endRd, endWr, endRcvd, inK, outK, event, interest, kfull, edgeR, edgeW,
          parked, win, credit, ok, killed>>
obs == <<sent, endSent, rcvd, endRcvd>>

Ends == {"none", "clean", "abort"}
DataItem(s, o) == [t |-> "d", s |-> s, o |-> o, k |-> "none"]
EndItem(s, k) == [t |-> "end", s |-> s, o |-> 0, k |-> k]
WuItem(s, n) == [t |-> "wu", s |-> s, o |-> n, k |-> "none"]

Init ==
  /\ sent = [p \in Pipes |-> 0] /\ rd = [p \in Pipes |-> 0] /\ wr = [p \in Pipes |-> 0] /\ rcvd = [p \in Pipes |-> 0]
  /\ endSent = [p \in Pipes |-> "none"] /\ endRd = [p \in Pipes |-> "none"]
  /\ endWr = [p \in Pipes |-> "none"] /\ endRcvd = [p \in Pipes |-> "none"]
  /\ inK = [e \in Endpoints |-> <<>>] /\ outK = [e \in Endpoints |-> <<>>]
  /\ event = [e \in Endpoints |-> {}] /\ interest = [e \in Endpoints |-> {"R"}]
  /\ kfull = [e \in Endpoints |-> FALSE]
  /\ edgeR = [e \in Endpoints |-> FALSE] /\ edgeW = [e \in Endpoints |-> FALSE]
  /\ parked = [e \in Endpoints |-> 0]
  /\ win = [e \in Endpoints |-> [s \in Streams |-> W0]]
  /\ credit = [p \in Pipes |-> W0]
  /\ ok = TRUE /\ killed = FALSE

Buffered(p) == rd[p] - wr[p]
\* output sozu owes on pipe p: buffered data, or a terminator it has parsed and not yet written
TermPending(p) == endRd[p] # "none" /\ endWr[p] = "none"
Pending(p) == Buffered(p) > 0 \/ TermPending(p)
WindowOf(p) == IF Proto(WrEp(p)) = "h2" THEN win[WrEp(p)][p[1]] ELSE 1000
\* can something of p be written now, flow control permitting (a terminator needs no window)
Sendable(p) == (Buffered(p) > 0 /\ WindowOf(p) > 0) \/ (Buffered(p) = 0 /\ TermPending(p))
UnreadData(e, s) == Cardinality({i \in 1..Len(inK[e]) : inK[e][i].t = "d" /\ inK[e][i].s = s})

Arm(ev, e) == [ev EXCEPT ![e] = @ \cup {"W"}]

\* ---------------------------------------------------------------- peers ----
\* H1 client connections carry one exchange at a time; backends answer after the whole request - or, with EarlyResp,
\* while the request is still arriving: both pipes of the stream then move at once, and on a shared HTTP/2 backend
\* connection the response DATA and the WINDOW_UPDATEs for the request travel in one FIFO while the request DATA and
\* the WINDOW_UPDATEs for the response fill the other
MayStart(p) ==
  /\ ~killed
  /\ p[2] = "req" /\ FrontProto = "h1" => \A t \in Streams : t < p[1] => (endRcvd[<<t, "resp">>] # "none" /\ endSent[<<t, "req">>] # "none")
  /\ p[2] = "resp" => (EarlyResp \/ endRcvd[<<p[1], "req">>] = "clean")

Peer_Write(p, k) ==
  LET e == RdEp(p) IN
  /\ MayStart(p) /\ endSent[p] = "none" /\ k \in Ws
  /\ sent[p] + k <= MsgLen(p)
  /\ Len(inK[e]) + k <= K
  \* without the deviation sozu's window credit follows its buffer: nothing it cannot store is in flight
  /\ (Proto(e) = "h2" /\ ~Dev("HolBlocking")) => UnreadData(e, p[1]) + Buffered(p) + k <= B
  /\ inK' = [inK EXCEPT ![e] = @ \o [i \in 1..k |-> DataItem(p[1], sent[p] + i)]]
  /\ sent' = [sent EXCEPT ![p] = @ + k]
  /\ edgeR' = [edgeR EXCEPT ![e] = TRUE]
  /\ UNCHANGED <<rd, wr, rcvd, endSent, endRd, endWr, endRcvd, outK, event, interest, kfull, edgeW, parked, win, credit, ok, killed>>

Peer_Close(p, kind) ==
  LET e == RdEp(p) IN
  /\ MayStart(p) /\ endSent[p] = "none"
  /\ kind = "clean" => sent[p] = MsgLen(p)
  /\ kind = "abort" => Aborts /\ sent[p] < MsgLen(p)
  /\ Len(inK[e]) + 1 <= K
  /\ inK' = [inK EXCEPT ![e] = Append(@, EndItem(p[1], kind))]
  /\ endSent' = [endSent EXCEPT ![p] = kind]
  /\ edgeR' = [edgeR EXCEPT ![e] = TRUE]
  /\ UNCHANGED <<sent, rd, wr, rcvd, endRd, endWr, endRcvd, outK, event, interest, kfull, edgeW, parked, win, credit, ok, killed>>

\* the receiver takes the next item of the connection
Peer_Read(e) ==
  /\ outK[e] # <<>>
  /\ LET it == Head(outK[e])
         p == <<it.s, DirWritten(e)>>
     IN /\ outK' = [outK EXCEPT ![e] = Tail(@)]
        /\ IF it.t = "d"
           THEN /\ rcvd' = [rcvd EXCEPT ![p] = @ + 1]
                /\ ok' = (ok /\ it.o = rcvd[p] + 1 /\ endRcvd[p] = "none")
                /\ UNCHANGED endRcvd
           ELSE /\ endRcvd' = [endRcvd EXCEPT ![p] = IF @ = "none" THEN it.k ELSE @]
                /\ UNCHANGED <<rcvd, ok>>
  \* EPOLLOUT is raised only after a write failed for lack of room (SOCK_NOSPACE)
  /\ edgeW' = [edgeW EXCEPT ![e] = @ \/ kfull[e]]
  /\ kfull' = [kfull EXCEPT ![e] = FALSE]
  /\ UNCHANGED <<sent, rd, wr, endSent, endRd, endWr, inK, event, interest, edgeR, parked, win, credit, killed>>

\* an HTTP/2 receiver returns window for what it consumed; the frame queues behind whatever it sends itself
Peer_Grant(e, s, n) ==
  LET p == <<s, DirWritten(e)>> IN
  /\ Proto(e) = "h2" /\ n \in Ws /\ ~killed
  /\ credit[p] + n <= W0 + rcvd[p]
  /\ endRcvd[p] = "none"
  /\ Len(inK[e]) + 1 <= K
  /\ inK' = [inK EXCEPT ![e] = Append(@, WuItem(s, n))]
  /\ credit' = [credit EXCEPT ![p] = @ + n]
  /\ edgeR' = [edgeR EXCEPT ![e] = TRUE]
  /\ UNCHANGED <<sent, rd, wr, rcvd, endSent, endRd, endWr, endRcvd, outK, event, interest, kfull, edgeW, parked, win, ok, killed>>

\* epoll_wait reports the edges that happened since the last one
Epoll_Edge(e) ==
  /\ edgeR[e] \/ edgeW[e]
  /\ event' = [event EXCEPT ![e] = @ \cup (IF edgeR[e] THEN {"R"} ELSE {}) \cup (IF edgeW[e] THEN {"W"} ELSE {})]
  /\ edgeR' = [edgeR EXCEPT ![e] = FALSE] /\ edgeW' = [edgeW EXCEPT ![e] = FALSE]
  /\ UNCHANGED <<sent, rd, wr, rcvd, endSent, endRd, endWr, endRcvd, inK, outK, interest, kfull, parked, win, credit, ok, killed>>

\* ----------------------------------------------------------------- sozu ----
\* Connection::readable: one frame (HTTP/2) / what is there (HTTP/1.1) per call
Mux_Readable(e) ==
  /\ ~killed /\ "R" \in event[e] /\ "R" \in interest[e]
  /\ IF inK[e] = <<>>
     THEN \* would-block: the kernel has nothing
          /\ event' = [event EXCEPT ![e] = @ \ {"R"}]
          /\ UNCHANGED <<rd, endRd, inK, interest, parked, win>>
     ELSE LET it == Head(inK[e])
              p == <<it.s, DirRead(e)>>
              w == WrEp(p)
          IN CASE it.t = "wu" ->
                   \* handle_window_update_frame: arm the writer when the window opens
                   /\ win' = [win EXCEPT ![e][it.s] = @ + it.o]
                   /\ inK' = [inK EXCEPT ![e] = Tail(@)]
                   /\ event' = IF win[e][it.s] <= 0 THEN Arm(event, e) ELSE event
                   /\ interest' = IF win[e][it.s] <= 0 THEN Arm(interest, e) ELSE interest
                   /\ UNCHANGED <<rd, endRd, parked>>
               [] it.t = "d" /\ Buffered(p) >= B ->
                   \* no room in the stream's buffer: h2 removes READABLE from interest for the whole
                   \* connection, h1 clears the event and remembers it parked
                   /\ parked' = [parked EXCEPT ![e] = it.s]
                   /\ IF Proto(e) = "h2"
                      THEN interest' = [interest EXCEPT ![e] = @ \ {"R"}] /\ UNCHANGED event
                      ELSE event' = [event EXCEPT ![e] = @ \ {"R"}] /\ UNCHANGED interest
                   /\ UNCHANGED <<rd, endRd, inK, win>>
               [] it.t = "d" /\ Buffered(p) < B ->
                   /\ rd' = [rd EXCEPT ![p] = @ + 1]
                   /\ inK' = [inK EXCEPT ![e] = Tail(@)]
                   \* bytes queued from a read path: arm the endpoint that will write them
                   /\ event' = IF Dev("NoArmAfterRead") THEN event ELSE Arm(event, w)
                   /\ interest' = IF Dev("NoArmAfterRead") THEN interest ELSE Arm(interest, w)
                   /\ UNCHANGED <<endRd, parked, win>>
               [] it.t = "end" ->
                   /\ endRd' = [endRd EXCEPT ![p] =
                                  IF Dev("KeepAliveEosStale") /\ FrontProto = "h1" /\ BackProto = "h2"
                                     /\ p[2] = "resp" /\ p[1] > 1
                                  THEN "abort" ELSE it.k]
                   /\ inK' = [inK EXCEPT ![e] = Tail(@)]
                   /\ event' = Arm(event, w)
                   /\ interest' = Arm(interest, w)
                   /\ UNCHANGED <<rd, parked, win>>
  /\ UNCHANGED <<sent, wr, rcvd, endSent, endWr, endRcvd, outK, kfull, edgeR, edgeW, credit, ok, killed>>

\* the stream served by one writable pass step: lowest stream with something sendable
NextToWrite(e) ==
  LET c == {p \in Pipes : WrEp(p) = e /\ Sendable(p)} IN
  IF c = {} THEN <<0, "req">> ELSE CHOOSE p \in c : \A q \in c : p[1] <= q[1]

\* try_resume_reading: the reader parked on this pipe's buffer gets READABLE back once there is room
Resume(ev, e, freed) == IF freed /\ Proto(e) = "h1" THEN [ev EXCEPT ![e] = @ \cup {"R"}] ELSE ev
ResumeI(it, e, freed) == IF freed /\ Proto(e) = "h2" THEN [it EXCEPT ![e] = @ \cup {"R"}] ELSE it

\* Connection::writable (h1.rs writable / h2.rs write_streams + finalize_write)
Mux_Writable(e) ==
  /\ ~killed /\ "W" \in event[e] /\ "W" \in interest[e]
  /\ LET mine == {p \in Pipes : WrEp(p) = e}
         p == NextToWrite(e)
         space == K - Len(outK[e])
     IN IF \A q \in mine : ~Pending(q)
        THEN \* wrote everything: no interest in WRITABLE any more
             /\ interest' = [interest EXCEPT ![e] = @ \ {"W"}]
             /\ UNCHANGED <<wr, endWr, outK, event, kfull, parked, win>>
        ELSE IF p[1] = 0
        THEN \* output remains but every stream waits for window: a pass without progress gives WRITABLE up;
             \* the wake-up is the WINDOW_UPDATE
             /\ interest' = [interest EXCEPT ![e] = @ \ {"W"}]
             /\ UNCHANGED <<wr, endWr, outK, event, kfull, parked, win>>
        ELSE IF space = 0
        THEN \* would-block: the kernel will tell
             /\ event' = [event EXCEPT ![e] = @ \ {"W"}]
             /\ kfull' = [kfull EXCEPT ![e] = TRUE]
             /\ UNCHANGED <<wr, endWr, outK, interest, parked, win>>
        ELSE LET r == RdEp(p)
                 n == IF Buffered(p) > 0 THEN Min(Min(Buffered(p), space), WindowOf(p)) ELSE 0
                 freed == parked[r] = p[1] /\ n > 0
                 endNow == Buffered(p) - n = 0 /\ TermPending(p) /\ space - n >= 1
                 \* DEVIATION: nothing marks the end of a close-delimited response on a kept-alive H1 client connection
                 silentEnd == endNow /\ Dev("CloseDelimKeepsOpen") /\ CloseTowardsClient(p) /\ endRd[p] = "clean"
                 items == [i \in 1..n |-> DataItem(p[1], wr[p] + i)]
                          \o (IF endNow /\ ~silentEnd THEN <<EndItem(p[1], endRd[p])>> ELSE <<>>)
             IN /\ outK' = [outK EXCEPT ![e] = @ \o items]
                /\ wr' = [wr EXCEPT ![p] = @ + n]
                /\ endWr' = IF endNow THEN [endWr EXCEPT ![p] = endRd[p]] ELSE endWr
                /\ win' = IF Proto(e) = "h2" THEN [win EXCEPT ![e][p[1]] = @ - n] ELSE win
                /\ parked' = IF freed THEN [parked EXCEPT ![r] = 0] ELSE parked
                /\ event' = Resume(event, r, freed)
                /\ interest' = IF Dev("FinalizeDropsWritable")
                               THEN [ResumeI(interest, r, freed) EXCEPT ![e] = @ \ {"W"}]
                               ELSE ResumeI(interest, r, freed)
                /\ UNCHANGED kfull
  /\ UNCHANGED <<sent, rd, rcvd, endSent, endRd, endRcvd, inK, edgeR, edgeW, credit, ok, killed>>

\* DEVIATION (fixed): a backend that hung up while its buffer is full keeps HUP in event /\ interest; Mux::ready
\* spins and its iteration budget closes the session: every unfinished exchange is cut
Dev_SpinKill ==
  /\ Dev("DeadBackendSpin") /\ ~killed
  /\ \E e \in Endpoints \ {F} :
        /\ Proto(e) = "h1" /\ parked[e] # 0
        /\ endSent[<<parked[e], "resp">>] # "none"
        /\ "W" \notin event[F]
  /\ killed' = TRUE
  /\ endRcvd' = [p \in Pipes |-> IF endRcvd[p] = "none" /\ sent[p] > 0 THEN "abort" ELSE endRcvd[p]]
  /\ UNCHANGED <<sent, rd, wr, rcvd, endSent, endRd, endWr, inK, outK, event, interest, kfull, edgeR, edgeW, parked, win, credit, ok>>

\* DEVIATION (open): a burst that fills the kernel queue of an HTTP/2 connection is more than one wake-up's
\* iteration budget can take: the session is closed with its exchanges in flight
Dev_BudgetKill ==
  /\ Dev("LoopBudgetKill") /\ ~killed
  /\ \E e \in Endpoints : Proto(e) = "h2" /\ Len(inK[e]) = K /\ "R" \in event[e]
  /\ killed' = TRUE
  /\ endRcvd' = [p \in Pipes |-> IF endRcvd[p] = "none" /\ sent[p] > 0 THEN "abort" ELSE endRcvd[p]]
  /\ UNCHANGED <<sent, rd, wr, rcvd, endSent, endRd, endWr, inK, outK, event, interest, kfull, edgeR, edgeW, parked, win, credit, ok>>

\* wrappers (TLC coverage names)
Any_Peer_Write == \E p \in Pipes : \E k \in Ws : Peer_Write(p, k)
Any_Peer_Close == \E p \in Pipes : \E kind \in {"clean", "abort"} : Peer_Close(p, kind)
Any_Peer_Read == \E e \in Endpoints : Peer_Read(e)
Any_Peer_Grant == \E e \in Endpoints : \E s \in Streams : \E n \in Ws : Peer_Grant(e, s, n)
Any_Epoll_Edge == \E e \in Endpoints : Epoll_Edge(e)
Any_Mux_Readable == \E e \in Endpoints : Mux_Readable(e)
Any_Mux_Writable == \E e \in Endpoints : Mux_Writable(e)

SozuStep == Any_Mux_Readable \/ Any_Mux_Writable
Next == Any_Peer_Write \/ Any_Peer_Close \/ Any_Peer_Read \/ Any_Peer_Grant \/ Any_Epoll_Edge \/ SozuStep \/ Dev_SpinKill \/ Dev_BudgetKill

Spec == Init /\ [][Next]_vars
\* sozu, the kernel and the receivers are fair; senders are free (the liveness premise is "the sender ended")
FairSpec == Spec /\ WF_vars(SozuStep) /\ WF_vars(Any_Epoll_Edge) /\ WF_vars(Any_Peer_Read) /\ WF_vars(Any_Peer_Grant)
                 /\ WF_vars(Dev_SpinKill) /\ WF_vars(Dev_BudgetKill)

---------------------------------------------------------------------------
(* Properties                                                              *)

TypeOK ==
  /\ \A p \in Pipes : rcvd[p] <= wr[p] /\ wr[p] <= rd[p] /\ rd[p] <= sent[p] /\ sent[p] <= MsgLen(p) /\ Buffered(p) <= B
  /\ \A p \in Pipes : {endSent[p], endRd[p], endWr[p], endRcvd[p]} \subseteq Ends
  /\ \A e \in Endpoints : Len(inK[e]) <= K /\ Len(outK[e]) <= K /\ event[e] \subseteq {"R", "W"} /\ interest[e] \subseteq {"R", "W"}

\* delivered is always an in-order, duplicate-free prefix of sent
P_C01_Prefix == ok /\ \A p \in Pipes : rcvd[p] <= sent[p]
\* a clean end at the receiver means a clean end at the sender and the whole body
P_C01_CleanEnd == \A p \in Pipes : endRcvd[p] = "clean" => (endSent[p] = "clean" /\ rcvd[p] = sent[p])
\* a receiver is cut only when a sender of the exchange gave up
P_C01_AbortOnlyBySender == \A p \in Pipes : endRcvd[p] = "abort" => (endSent[p] = "abort" \/ endSent[Other(p)] = "abort")
P_C01_Safety == P_C01_Prefix /\ P_C01_CleanEnd /\ P_C01_AbortOnlyBySender
\* liveness: whatever was ended cleanly arrives, with its end (exchanges nobody aborts)
P_C01_Live == \A p \in Pipes : (endSent[p] = "clean" /\ endSent[Other(p)] # "abort")
                                  ~> (endRcvd[p] = "clean" \/ endSent[Other(p)] = "abort")

\* The inductive heart.  sozu is parked in epoll when no Mux action is enabled and every kernel edge was seen.
SozuParked == /\ \A e \in Endpoints : event[e] \cap interest[e] = {} \/ killed
              /\ \A e \in Endpoints : ~edgeR[e] /\ ~edgeW[e]
WindowBlocked(p) == Proto(WrEp(p)) = "h2" /\ Buffered(p) > 0 /\ WindowOf(p) <= 0
\* one record per pipe holding sozu-owned output, the same shape the mux_ready_exit snapshot is projected to
ParkRec(p) == [pend |-> Pending(p), wint |-> "W" \in interest[WrEp(p)], kfull |-> kfull[WrEp(p)],
               winblocked |-> WindowBlocked(p), rint |-> "R" \in interest[WrEp(p)]]
\* somebody will wake the writer: the kernel (WRITABLE wanted and the last write hit would-block), or the peer's
\* WINDOW_UPDATE (the connection is still being read)
WakeOK(r) == r.pend => (r.wint /\ r.kfull) \/ (r.winblocked /\ r.rint)
\* a parked reader is woken by the drain of the buffer it waits for; unread kernel input has a reason
ReaderOK(e) ==
  /\ parked[e] # 0 => Buffered(<<parked[e], DirRead(e)>>) >= B
  /\ (inK[e] # <<>> /\ parked[e] = 0) => ("R" \in event[e] /\ "R" \in interest[e])
\* The same heart, in the fields a mux_ready_exit snapshot of the real session can be projected to (it cannot
\* see kfull): the writer of pending output wants WRITABLE, or waits for a window with its connection being
\* read, or its connection is not up yet / already going down; the last disjunct is the open deviation.
\* ... and (halfzero) the connection's control-frame buffer is never marked for writing while a frame of the stream is
\* only partly on the wire: frames are atomic items in this module, spec/H2Wire.tla is the model of the writer below
\* them (H2Wire!P_Markers: expect = "zero" => curf = 0) and the snapshot shows that marker and the stream's output.
ParkRecOK(r) == /\ ~r.halfzero
                /\ \/ r.wint
                   \/ r.winblocked /\ r.rint
                   \/ r.handshake \/ r.closing \/ r.dead
                   \/ Dev("HolBlocking") /\ r.winblocked /\ r.rparked
ModelParkRec(p) == [wint |-> "W" \in interest[WrEp(p)], winblocked |-> WindowBlocked(p), rint |-> "R" \in interest[WrEp(p)],
                    handshake |-> FALSE, closing |-> FALSE, dead |-> FALSE, rparked |-> parked[WrEp(p)] # 0, halfzero |-> FALSE]
Park_OK == (SozuParked /\ ~killed) => \A p \in Pipes : Pending(p) => ParkRecOK(ModelParkRec(p))

Quiescent_OK == (SozuParked /\ ~killed) => (\A p \in Pipes : WakeOK(ParkRec(p))) /\ (\A e \in Endpoints : ReaderOK(e))

---------------------------------------------------------------------------
(* The observable projection: what the four observers of a pipe can see.   *)
(* Trace_Relay validates recorded peer events against these actions; TLC   *)
(* checks that every step of the model is one of them or stutters on obs.  *)

O_Sent(p) == /\ endSent[p] = "none" /\ sent'[p] > sent[p]
             /\ sent' = [sent EXCEPT ![p] = sent'[p]] /\ UNCHANGED <<endSent, rcvd, endRcvd>>
O_EndSent(p) == /\ endSent[p] = "none" /\ endSent'[p] \in {"clean", "abort"}
                /\ endSent' = [endSent EXCEPT ![p] = endSent'[p]] /\ UNCHANGED <<sent, rcvd, endRcvd>>
O_Rcvd(p) == /\ endRcvd[p] = "none" /\ rcvd'[p] > rcvd[p] /\ rcvd'[p] <= sent[p]
             /\ rcvd' = [rcvd EXCEPT ![p] = rcvd'[p]] /\ UNCHANGED <<sent, endSent, endRcvd>>
EndRcvdAllowed(p, kind, es, rc, sn) ==
  \/ kind = "clean" /\ es[p] = "clean" /\ rc[p] = sn[p]
  \/ kind = "abort" /\ (es[p] = "abort" \/ es[Other(p)] = "abort")
O_EndRcvd(p) == /\ endRcvd[p] = "none" /\ endRcvd'[p] \in {"clean", "abort"}
                /\ (EndRcvdAllowed(p, endRcvd'[p], endSent, rcvd, sent) \/ killed')
                /\ endRcvd' = [endRcvd EXCEPT ![p] = endRcvd'[p]] /\ UNCHANGED <<sent, endSent, rcvd>>
ObsNext == (\E p \in Pipes : O_Sent(p) \/ O_EndSent(p) \/ O_Rcvd(p) \/ O_EndRcvd(p)) \/ (killed' /\ ~killed)
P_C01_RefinesObs == [][ObsNext]_obs
=============================================================================
