----------------------------- MODULE TimerWheel -----------------------------
(***************************************************************************)
(* The hashed timer wheel of a worker (lib/src/timer.rs `Timer<T>`, code   *)
(* imported from mio-extras) and the `TimeoutContainer` wrapper sessions   *)
(* use on the thread-local `TIMER` (property C16: "idle or stuck sessions  *)
(* are reclaimed within their timeouts").                                  *)
(*                                                                         *)
(* Time.  The code reads `Instant::now()` and rounds to ticks              *)
(* (`duration_to_tick`: (ms + tick_ms/2) / tick_ms).  `now` is that        *)
(* rounded real tick; the environment action `Adv` lets time pass.  Delays *)
(* are whole ticks, so `set_timeout(d * tick_ms)` called while the clock   *)
(* reads tick `now` computes the target tick now + d.                      *)
(*                                                                         *)
(* `w` is the wheel AS THE CODE KEEPS IT:                                  *)
(*   wt     self.tick - the wheel's own tick; it lags `now` until `poll`   *)
(*          is called and is now + 1 after a poll that found nothing       *)
(*   cur    self.next - cursor into the list of slot (wt mod NSlots)       *)
(*   slots  wheel[s] = [list, nt]: the doubly linked list of the slot as a *)
(*          sequence of slab keys (head first = newest first) and          *)
(*          next_tick, a cached lower bound that cancel does NOT refresh   *)
(*   ent    entries: slab key -> [tick, tok, id] (id: ghost arming number) *)
(*   free, slen   the slab's LIFO free list / number of keys ever created  *)
(* Wheel operations are FUNCTIONS on `w` (SetW, CancelW, ResetW, PollW,    *)
(* NextTickW) so that the TimeoutContainer methods, which call several of  *)
(* them in one run-to-completion step, are written as the code is.         *)
(*                                                                         *)
(* Ghost / history: `arm` (one record per arming: deadline, token, fate),  *)
(* `hs` (every `Timeout` handle the raw API handed out: the environment    *)
(* may keep it after it went stale), `mid`, `dr` (drain bookkeeping).      *)
(***************************************************************************)
EXTENDS Naturals, Integers, Sequences, FiniteSets, TLC

CONSTANTS
  NSlots,      \* wheel slots (the code rounds num_slots up to a power of two; any value >= 1 works here)
  MaxDelay,    \* delays asked for: 0..MaxDelay ticks (> 2 * NSlots: two wraps)
  Toks,        \* state tokens (mio Tokens of sessions)
  Conts,       \* TimeoutContainer identities ({} = raw API only)
  RawOps,      \* BOOLEAN: the raw Timer API (set/cancel/reset with Timeout handles) is exercised
  MaxNow,      \* bound on real time (built into Adv)
  MaxAdv,      \* longest jump of the clock between two calls
  MaxArm,      \* bound on the number of armings (built into the guards)
  MaxSteps,    \* bound on the behaviour length (built into Step)
  FreePoll,    \* BOOLEAN: poll() may be called at any time.  FALSE = the event loop's discipline (server.rs): the
               \* timer is polled only once next_poll_date has come, then `while let Some(t) = poll()` until None
  Misuse,      \* BOOLEAN: stale handles may be used (a Timeout after it fired / was cancelled; a container
               \* whose timeout fired without `triggered()`), `triggered()` may be called on a live timeout
  Deviations   \* subset of {"PollRunsAhead"}: poll_to as it was before the fix (target clamped UP to the wheel's tick,
               \* so that every call advances the wheel at least one tick whatever the clock says)

VARIABLES now, w, arm, hs, cont, mid, dr, steps, last

vars == <<now, w, arm, hs, cont, mid, dr, steps, last>>
\* (the VIEW is defined after the ghost helpers)

Inf   == 1000000          \* TICK_MAX
NoKey == -1               \* EMPTY
NoTok == -1               \* Option::None for a token
NoH   == [key |-> NoKey, tick |-> 0, id |-> 0]     \* Option::None for a Timeout

ASSUME NSlots >= 1 /\ MaxDelay >= 0 /\ NoTok \notin Toks

---------------------------------------------------------------------------
(* Helpers *)

Min2(a, b) == IF a < b THEN a ELSE b
Max2(a, b) == IF a > b THEN a ELSE b
Slot(t) == t % NSlots
Put(f, k, v) == [x \in DOMAIN f \cup {k} |-> IF x = k THEN v ELSE f[x]]
Del(f, k) == [x \in DOMAIN f \ {k} |-> f[x]]
HeadOr(l) == IF Len(l) > 0 THEN l[1] ELSE NoKey
\* links.next of `key` in its list
Succ(l, key) == LET i == CHOOSE j \in 1..Len(l) : l[j] = key IN IF i < Len(l) THEN l[i + 1] ELSE NoKey
Without(l, key) == SelectSeq(l, LAMBDA k : k # key)
SetMin(S) == CHOOSE x \in S : \A y \in S : x <= y

---------------------------------------------------------------------------
(* The wheel as functions (timer.rs) *)

W0 == [wt |-> 0, cur |-> NoKey,
       slots |-> [s \in 0..(NSlots - 1) |-> [list |-> <<>>, nt |-> Inf]],
       ent |-> <<>>, free |-> <<>>, slen |-> 0]

\* slab::Slab::insert - the key freed last, else a new one
AllocKey(x) == IF Len(x.free) > 0 THEN Head(x.free) ELSE x.slen

\* Timer::insert: new head of the slot list, next_tick = min
InsertW(x, tick, tok, id) ==
  LET k == AllocKey(x)
      s == Slot(tick)
  IN [w |-> [x EXCEPT !.slots[s] = [list |-> <<k>> \o @.list, nt |-> Min2(tick, @.nt)],
                      !.ent = Put(@, k, [tick |-> tick, tok |-> tok, id |-> id]),
                      !.free = IF Len(@) > 0 THEN Tail(@) ELSE @,
                      !.slen = IF Len(x.free) > 0 THEN @ ELSE @ + 1],
      h |-> [key |-> k, tick |-> tick, id |-> id]]

\* Timer::set_timeout called while the clock reads tick `nw`: "always target at least 1 tick in the future"
\* - the future of the WHEEL's tick, which is nw + 1 after a poll that found nothing
SetW(x, nw, d, tok, id) ==
  LET t0 == nw + d IN InsertW(x, IF t0 <= x.wt THEN x.wt + 1 ELSE t0, tok, id)

\* Timer::unlink (the cursor moves on if it stood on the entry) + slab remove
UnlinkW(x, k) ==
  LET s == Slot(x.ent[k].tick)
      l == x.slots[s].list
  IN [x EXCEPT !.slots[s].list = Without(l, k),
               !.cur = IF x.cur = k THEN Succ(l, k) ELSE @,
               !.ent = Del(@, k),
               !.free = <<k>> \o @]

\* Timer::cancel_timeout: the slab key must be occupied and carry the handle's tick ("sanity check").
\* A stale handle whose key was reused by an entry of the same tick cancels THAT entry (ret/id are the victim's).
CancelW(x, h) ==
  IF h.key \notin DOMAIN x.ent \/ x.ent[h.key].tick # h.tick
  THEN [w |-> x, ret |-> NoTok, id |-> 0]
  ELSE [w |-> UnlinkW(x, h.key), ret |-> x.ent[h.key].tok, id |-> x.ent[h.key].id]

\* Timer::reset_timeout = cancel_timeout(..).map(|state| set_timeout(delay, state))
ResetW(x, nw, h, d, id) ==
  LET c == CancelW(x, h)
  IN IF c.ret = NoTok THEN [w |-> x, h |-> NoH, cid |-> 0, tok |-> NoTok]
     ELSE LET r == SetW(c.w, nw, d, c.ret, id) IN [w |-> r.w, h |-> r.h, cid |-> c.id, tok |-> c.ret]

\* Timer::poll_to: at most ONE expired entry per call; the walk resumes at the cursor on the next call
RECURSIVE PollLoop(_, _)
PollLoop(x, target) ==
  IF x.wt > target THEN [w |-> x, ret |-> NoTok, id |-> 0, key |-> NoKey]
  ELSE IF x.cur = NoKey
  THEN LET t == x.wt + 1
           s == Slot(t)
           hd == HeadOr(x.slots[s].list)
       IN PollLoop([x EXCEPT !.wt = t, !.cur = hd, !.slots[s].nt = IF hd = NoKey THEN Inf ELSE @], target)
  ELSE LET s == Slot(x.wt)
           k == x.cur
           e == x.ent[k]
           nt0 == IF k = HeadOr(x.slots[s].list) THEN Inf ELSE x.slots[s].nt
       IN IF e.tick <= x.wt
          THEN [w |-> UnlinkW([x EXCEPT !.slots[s].nt = nt0], k), ret |-> e.tok, id |-> e.id, key |-> k]
          ELSE PollLoop([x EXCEPT !.slots[s].nt = Min2(nt0, e.tick),
                                  !.cur = Succ(x.slots[Slot(e.tick)].list, k)], target)

\* Timer::poll called while the clock reads tick `nw`.  A wheel that is already ahead of the clock (wt = nw + 1
\* after a poll that found nothing) has nothing to do.  Before the fix the target was clamped up instead.
PollW(x, nw) ==
  IF nw < x.wt
  THEN IF "PollRunsAhead" \in Deviations THEN PollLoop(x, x.wt) ELSE [w |-> x, ret |-> NoTok, id |-> 0, key |-> NoKey]
  ELSE PollLoop(x, nw)

\* Timer::next_tick (next_poll_date = start + tick_ms * this; Inf stands for Some(TICK_MAX): the code never
\* answers None for a wheel with at least one slot)
NextTickW(x) ==
  IF x.cur # NoKey /\ x.slots[Slot(x.ent[x.cur].tick)].nt = x.wt THEN x.wt
  ELSE SetMin({x.slots[s].nt : s \in 0..(NSlots - 1)})

---------------------------------------------------------------------------
(* Ghost bookkeeping *)

Armed(id) == arm[id].st = "armed"
ArmedIds == {i \in 1..Len(arm) : Armed(i)}
NewId == Len(arm) + 1
Arming(h, tok, d, owner) == [dl |-> h.tick, tok |-> tok, st |-> "armed", owner |-> owner]
\* a cancel that hit arming `cid` although the handle was issued for `hid`: the victim is "stolen"
MarkCancel(a, cid, hid) ==
  IF cid = 0 THEN a ELSE [a EXCEPT ![cid].st = IF cid = hid THEN "cancelled" ELSE "stolen"]
LiveH(h) == h # NoH /\ Armed(h.id)
Step(lbl) == steps < MaxSteps /\ steps' = steps + 1 /\ last' = lbl
RetH(h) == [key |-> h.key, tick |-> h.tick]
\* label part of a step that arms a timeout: what was asked for and the deadline tick the wheel chose
Ask(d, h) == <<d, h.tick>>
NoAsk == <<>>

\* VIEW.  Arming numbers are names: two states that differ only in how the armings are numbered (and in the
\* fate of dead ones) have the same future.  What matters: the armed ones (by slab key), which handles are
\* live / stale (stale ones by key and tick: that is all cancel_timeout looks at), whether anything was stolen,
\* how many armings are left in the budget.
HView(h) == IF h = NoH THEN <<>> ELSE <<h.key, h.tick, Armed(h.id)>>
view == <<now, [w EXCEPT !.ent = [k \in DOMAIN w.ent |-> <<w.ent[k].tick, w.ent[k].tok, arm[w.ent[k].id].owner>>]],
          Len(arm), \E i \in 1..Len(arm) : arm[i].st = "stolen",
          {HView(hs[i]) : i \in 1..Len(hs)},
          [c \in Conts |-> <<cont[c].alive, HView(cont[c].h), cont[c].dur, cont[c].tok>>],
          mid, dr = now>>

---------------------------------------------------------------------------
(* Environment: time passes *)

Adv(k) ==
  /\ now + k <= MaxNow
  /\ Step([op |-> "Adv", k |-> k])
  /\ now' = now + k
  /\ UNCHANGED <<w, arm, hs, cont, mid, dr>>

---------------------------------------------------------------------------
(* Raw API: Timer::{set_timeout, cancel_timeout, reset_timeout, poll} *)

Set(d, tok) ==
  /\ RawOps /\ Len(arm) < MaxArm
  /\ LET r == SetW(w, now, d, tok, NewId) IN
       /\ w' = r.w
       /\ arm' = Append(arm, Arming(r.h, tok, d, "raw"))
       /\ hs' = Append(hs, r.h)
       /\ Step([op |-> "Set", d |-> d, tok |-> tok, h |-> RetH(r.h), a |-> Ask(d, r.h)])
  /\ UNCHANGED <<now, cont, mid, dr>>

Cancel(i) ==
  /\ RawOps /\ i \in 1..Len(hs)
  /\ Misuse \/ LiveH(hs[i])
  /\ LET c == CancelW(w, hs[i]) IN
       /\ w' = c.w
       /\ arm' = MarkCancel(arm, c.id, hs[i].id)
       /\ Step([op |-> "Cancel", hi |-> i, ret |-> c.ret])
  /\ UNCHANGED <<now, hs, cont, mid, dr>>

Reset(i, d) ==
  /\ RawOps /\ i \in 1..Len(hs) /\ Len(arm) < MaxArm
  /\ Misuse \/ LiveH(hs[i])
  /\ LET r == ResetW(w, now, hs[i], d, NewId) IN
       /\ w' = r.w
       /\ IF r.h = NoH
          THEN /\ UNCHANGED <<arm, hs>>
               /\ Step([op |-> "Reset", hi |-> i, d |-> d, ok |-> FALSE, h |-> RetH(NoH), a |-> NoAsk])
          ELSE /\ arm' = Append(MarkCancel(arm, r.cid, hs[i].id), Arming(r.h, r.tok, d, "raw"))
               /\ hs' = Append(hs, r.h)
               /\ Step([op |-> "Reset", hi |-> i, d |-> d, ok |-> TRUE, h |-> RetH(r.h), a |-> Ask(d, r.h)])
  /\ UNCHANGED <<now, cont, mid, dr>>

\* one call of Timer::poll.  The event loop (server.rs) polls only once next_poll_date has come and then
\* keeps polling until None (`mid`: inside such a drain; session code runs between two polls of a drain).
\* NOTE poll_to clamps its target to the wheel's own tick and then always advances at least one tick when the
\* cursor is at the end of a slot: called again and again while the clock stands still, it walks the wheel
\* ahead of the clock (every timeout fires early).  That is why the gate matters.
Gate == NextTickW(w) <= now
Poll ==
  LET p == PollW(w, now)
  IN /\ FreePoll \/ mid \/ Gate
     /\ w' = p.w
     /\ Step([op |-> "Poll", ret |-> p.ret, dl |-> IF p.id = 0 THEN -1 ELSE arm[p.id].dl])
     /\ IF p.id = 0
        THEN /\ mid' = FALSE /\ dr' = now /\ UNCHANGED arm
        ELSE /\ mid' = TRUE /\ UNCHANGED dr
             /\ arm' = [arm EXCEPT ![p.id].st = "fired"]
     /\ UNCHANGED <<now, hs, cont>>

---------------------------------------------------------------------------
(* TimeoutContainer on the thread-local TIMER.  A container follows the protocol when it calls    *)
(* triggered() after its timeout fired and before anything else; otherwise (Misuse) its handle is *)
(* stale and cancel/reset go through the same sanity check as the raw API.                        *)

Alive(c) == cont[c].alive
Dead == [alive |-> FALSE, h |-> NoH, dur |-> 0, tok |-> NoTok]
ProtoOK(c) == Misuse \/ cont[c].h = NoH \/ LiveH(cont[c].h)
CanArm == Len(arm) < MaxArm
CProj(r) == [alive |-> r.alive, h |-> RetH(r.h), dur |-> r.dur, tok |-> r.tok]

\* self.timeout.take() + cancel_timeout: the wheel after it, and which arming it hit
DropH(x, h) == IF h = NoH THEN [w |-> x, id |-> 0] ELSE LET c == CancelW(x, h) IN [w |-> c.w, id |-> c.id]

C_New(c, d, tok) ==
  /\ ~Alive(c) /\ CanArm
  /\ LET r == SetW(w, now, d, tok, NewId) IN
       /\ w' = r.w
       /\ arm' = Append(arm, Arming(r.h, tok, d, c))
       /\ cont' = [cont EXCEPT ![c] = [alive |-> TRUE, h |-> r.h, dur |-> d, tok |-> tok]]
       /\ Step([op |-> "C_New", c |-> c, d |-> d, tok |-> tok, a |-> Ask(d, r.h)])
  /\ UNCHANGED <<now, hs, mid, dr>>

C_NewEmpty(c, d) ==
  /\ ~Alive(c)
  /\ cont' = [cont EXCEPT ![c] = [alive |-> TRUE, h |-> NoH, dur |-> d, tok |-> NoTok]]
  /\ Step([op |-> "C_NewEmpty", c |-> c, d |-> d])
  /\ UNCHANGED <<now, w, arm, hs, mid, dr>>

\* set(token): cancel what is armed, arm self.duration with the new token
C_Set(c, tok) ==
  /\ Alive(c) /\ ProtoOK(c) /\ CanArm
  /\ LET k == DropH(w, cont[c].h)
         r == SetW(k.w, now, cont[c].dur, tok, NewId)
     IN /\ w' = r.w
        /\ arm' = Append(MarkCancel(arm, k.id, cont[c].h.id), Arming(r.h, tok, cont[c].dur, c))
        /\ cont' = [cont EXCEPT ![c].h = r.h, ![c].tok = tok]
        /\ Step([op |-> "C_Set", c |-> c, tok |-> tok, a |-> Ask(cont[c].dur, r.h)])
  /\ UNCHANGED <<now, hs, mid, dr>>

\* set_duration(d): cancel what is armed; re-arm only if a token is known
C_SetDuration(c, d) ==
  /\ Alive(c) /\ ProtoOK(c) /\ CanArm
  /\ LET k == DropH(w, cont[c].h) IN
       /\ IF cont[c].tok = NoTok
          THEN /\ w' = k.w
               /\ arm' = MarkCancel(arm, k.id, cont[c].h.id)
               /\ cont' = [cont EXCEPT ![c].h = NoH, ![c].dur = d]
               /\ Step([op |-> "C_SetDuration", c |-> c, d |-> d, a |-> NoAsk])
          ELSE LET r == SetW(k.w, now, d, cont[c].tok, NewId) IN
               /\ w' = r.w
               /\ arm' = Append(MarkCancel(arm, k.id, cont[c].h.id), Arming(r.h, cont[c].tok, d, c))
               /\ cont' = [cont EXCEPT ![c].h = r.h, ![c].dur = d]
               /\ Step([op |-> "C_SetDuration", c |-> c, d |-> d, a |-> Ask(d, r.h)])
  /\ UNCHANGED <<now, hs, mid, dr>>

\* cancel(): true iff a handle was held (whatever cancel_timeout answered); the token is remembered
C_Cancel(c) ==
  /\ Alive(c) /\ ProtoOK(c)
  /\ LET k == DropH(w, cont[c].h) IN
       /\ w' = k.w
       /\ arm' = MarkCancel(arm, k.id, cont[c].h.id)
       /\ cont' = [cont EXCEPT ![c].h = NoH]
       /\ Step([op |-> "C_Cancel", c |-> c, ret |-> (cont[c].h # NoH)])
  /\ UNCHANGED <<now, hs, mid, dr>>

\* reset(): re-arm for self.duration (reset_timeout on the held handle, or a fresh set if only the token is known)
C_Reset(c) ==
  /\ Alive(c) /\ ProtoOK(c) /\ CanArm
  /\ IF cont[c].h = NoH
     THEN IF cont[c].tok = NoTok
          THEN /\ UNCHANGED <<w, arm, cont>>
               /\ Step([op |-> "C_Reset", c |-> c, ret |-> FALSE, a |-> NoAsk])
          ELSE LET r == SetW(w, now, cont[c].dur, cont[c].tok, NewId) IN
               /\ w' = r.w
               /\ arm' = Append(arm, Arming(r.h, cont[c].tok, cont[c].dur, c))
               /\ cont' = [cont EXCEPT ![c].h = r.h]
               /\ Step([op |-> "C_Reset", c |-> c, ret |-> TRUE, a |-> Ask(cont[c].dur, r.h)])
     ELSE LET r == ResetW(w, now, cont[c].h, cont[c].dur, NewId) IN
          /\ w' = r.w
          /\ cont' = [cont EXCEPT ![c].h = r.h]
          /\ arm' = IF r.h = NoH THEN arm
                    ELSE Append(MarkCancel(arm, r.cid, cont[c].h.id), Arming(r.h, r.tok, cont[c].dur, c))
          /\ Step([op |-> "C_Reset", c |-> c, ret |-> (r.h # NoH), a |-> IF r.h = NoH THEN NoAsk ELSE Ask(cont[c].dur, r.h)])
  /\ UNCHANGED <<now, hs, mid, dr>>

\* triggered(): forget the handle (to be called when the timeout fired)
C_Triggered(c) ==
  /\ Alive(c)
  /\ Misuse \/ ~LiveH(cont[c].h)
  /\ cont' = [cont EXCEPT ![c].h = NoH]
  /\ Step([op |-> "C_Triggered", c |-> c])
  /\ UNCHANGED <<now, w, arm, hs, mid, dr>>

\* take(): the handle and the token move to a new container, the source keeps the duration only
C_Take(c, c2) ==
  /\ Alive(c) /\ ~Alive(c2) /\ c # c2
  /\ cont' = [cont EXCEPT ![c2] = [alive |-> TRUE, h |-> cont[c].h, dur |-> cont[c].dur, tok |-> cont[c].tok],
                          ![c].h = NoH, ![c].tok = NoTok]
  /\ arm' = IF cont[c].h # NoH /\ arm[cont[c].h.id].owner = c THEN [arm EXCEPT ![cont[c].h.id].owner = c2] ELSE arm
  /\ Step([op |-> "C_Take", c |-> c, c2 |-> c2])
  /\ UNCHANGED <<now, w, hs, mid, dr>>

\* Drop = cancel()
C_Drop(c) ==
  /\ Alive(c) /\ ProtoOK(c)
  /\ LET k == DropH(w, cont[c].h) IN
       /\ w' = k.w
       /\ arm' = MarkCancel(arm, k.id, cont[c].h.id)
       /\ cont' = [cont EXCEPT ![c] = Dead]
       /\ Step([op |-> "C_Drop", c |-> c])
  /\ UNCHANGED <<now, hs, mid, dr>>

---------------------------------------------------------------------------

Init == /\ now = 0 /\ w = W0 /\ arm = <<>> /\ hs = <<>> /\ cont = [c \in Conts |-> Dead]
        /\ mid = FALSE /\ dr = -1 /\ steps = 0 /\ last = [op |-> "Init"]

Durs == 0..MaxDelay

\* (one quantifier per action so that TLC's coverage names every action)
Ops ==
  \/ \E d \in Durs, tok \in Toks : Set(d, tok)
  \/ \E i \in 1..MaxArm : Cancel(i)
  \/ \E i \in 1..MaxArm, d \in Durs : Reset(i, d)
  \/ Poll
  \/ \E c \in Conts, d \in Durs, tok \in Toks : C_New(c, d, tok)
  \/ \E c \in Conts, d \in Durs : C_NewEmpty(c, d)
  \/ \E c \in Conts, tok \in Toks : C_Set(c, tok)
  \/ \E c \in Conts, d \in Durs : C_SetDuration(c, d)
  \/ \E c \in Conts : C_Cancel(c)
  \/ \E c \in Conts : C_Reset(c)
  \/ \E c \in Conts : C_Triggered(c)
  \/ \E c \in Conts, c2 \in Conts : C_Take(c, c2)
  \/ \E c \in Conts : C_Drop(c)

Next == (\E k \in 1..MaxAdv : Adv(k)) \/ Ops
Spec == Init /\ [][Next]_vars

---------------------------------------------------------------------------
(* Properties (C16, timer part).  Phrased over the ghost `arm`, not over the wheel's own fields. *)

Keys == DOMAIN w.ent
AllListed == UNION {{w.slots[s].list[i] : i \in 1..Len(w.slots[s].list)} : s \in 0..(NSlots - 1)}

TypeOK ==
  /\ now \in 0..MaxNow /\ w.wt \in 0..(MaxNow + 1)
  /\ Keys \subseteq 0..(w.slen - 1)
  /\ \A k \in Keys : w.ent[k].tick \in Nat /\ w.ent[k].tok \in Toks /\ w.ent[k].id \in 1..Len(arm)
  /\ w.cur = NoKey \/ w.cur \in Keys
  /\ \A c \in Conts : cont[c].alive \in BOOLEAN /\ cont[c].tok \in Toks \cup {NoTok}
  /\ mid \in BOOLEAN

\* the data structure: every slab entry is linked exactly once, in the slot of its tick; the free list and the
\* occupied keys partition the slab (a cancelled or fired entry gives its key back: the slab does not grow with
\* the number of set/cancel rounds, only with the number of timeouts in flight)
P_C16t_Structure ==
  /\ AllListed = Keys
  /\ \A s \in 0..(NSlots - 1) : LET l == w.slots[s].list IN
        /\ \A i, j \in 1..Len(l) : i # j => l[i] # l[j]
        /\ \A i \in 1..Len(l) : Slot(w.ent[l[i]].tick) = s
  /\ w.cur # NoKey => Slot(w.ent[w.cur].tick) = Slot(w.wt)
  /\ {w.free[i] : i \in 1..Len(w.free)} \cap Keys = {}
  /\ {w.free[i] : i \in 1..Len(w.free)} \cup Keys = 0..(w.slen - 1)
  /\ Len(w.free) + Cardinality(Keys) = w.slen

\* slab entries are released: never more keys than timeouts ever in flight at once
P_C16t_SlabReleased == Cardinality(Keys) = Cardinality(ArmedIds) /\ Len(w.free) + Cardinality(ArmedIds) = w.slen

\* entries <-> armed armings, one to one; a fired, cancelled (or reset) arming has no entry: it can never fire
\* (again) for its old deadline
P_C16t_OnceOnly ==
  /\ \A k \in Keys : Armed(w.ent[k].id) /\ arm[w.ent[k].id].dl = w.ent[k].tick /\ arm[w.ent[k].id].tok = w.ent[k].tok
  /\ \A k1, k2 \in Keys : k1 # k2 => w.ent[k1].id # w.ent[k2].id
  /\ \A i \in ArmedIds : \E k \in Keys : w.ent[k].id = i

\* never before the deadline, at the granularity the code defines: the wheel never runs more than one tick ahead
\* of the clock; the deadline tick is never earlier than asked (now + d) and at most two ticks later than asked
\* (the wheel's own "at least one tick in the future"); nothing fires before the clock reads its deadline tick
P_C16t_WheelNotAhead == w.wt <= now + 1
P_C16t_NotEarly ==
  [][/\ (last'.op = "Poll" /\ last'.ret # NoTok) => now >= last'.dl
     /\ (last'.op \in {"Set", "Reset", "C_New", "C_Set", "C_SetDuration", "C_Reset"} /\ last'.a # NoAsk) =>
           /\ last'.a[2] >= now + last'.a[1]
           /\ last'.a[2] <= Max2(now + last'.a[1], now + 2)]_vars

\* no lost timeout: once a poll has answered None while the clock read `dr`, every timeout still armed has a
\* deadline after `dr` - whatever wrapped around, collided in a slot or was cancelled between two polls
P_C16t_Fires == dr = now => \A i \in ArmedIds : arm[i].dl > now
\* ... and the wheel never walks past an armed entry
P_C16t_NoneBehind == \A i \in ArmedIds : arm[i].dl >= w.wt

\* next_poll_date never later than the earliest armed deadline (else the event loop oversleeps); between the
\* polls of one drain (`mid`) the cache of the slot being walked is incomplete, the loop keeps polling then
P_C16t_NoOversleep ==
  ~mid => \A i \in ArmedIds : NextTickW(w) <= arm[i].dl
\* "nothing to wait for" only when nothing is armed (the converse does not hold: cancel leaves the cache stale,
\* which costs a spurious wake-up, not a missed one)
P_C16t_IdleOnlyIfEmpty == (~mid /\ NextTickW(w) = Inf) => ArmedIds = {}

\* containers (protocol followed): what a live container holds is exactly its armed timeout; a dropped, cancelled
\* or emptied (take) container holds nothing, so nothing fires for a dead session; no handle is shared
P_C16t_Containers ==
  ~Misuse =>
    /\ \A i \in ArmedIds : arm[i].owner \in Conts =>
          /\ cont[arm[i].owner].alive /\ cont[arm[i].owner].h.id = i
          /\ cont[arm[i].owner].tok = arm[i].tok
    /\ \A c \in Conts : ~cont[c].alive => cont[c] = Dead
    /\ \A c1, c2 \in Conts : (c1 # c2 /\ cont[c1].h # NoH) => cont[c1].h.id # cont[c2].h.id
    /\ \A c \in Conts : cont[c].h # NoH => cont[c].tok # NoTok
\* nobody's timeout is cancelled through somebody else's handle
P_C16t_NoSteal == ~Misuse => \A i \in 1..Len(arm) : arm[i].st # "stolen"

P_C16t == /\ P_C16t_Structure /\ P_C16t_SlabReleased /\ P_C16t_OnceOnly /\ P_C16t_WheelNotAhead /\ P_C16t_Fires
          /\ P_C16t_NoneBehind /\ P_C16t_NoOversleep /\ P_C16t_IdleOnlyIfEmpty /\ P_C16t_Containers /\ P_C16t_NoSteal

\* a cancel / reset through a LIVE handle always succeeds and returns the handle's own token; take() empties the source
P_C16t_Results ==
  [][/\ (last'.op = "Cancel" /\ LiveH(hs[last'.hi])) => last'.ret = arm[hs[last'.hi].id].tok
     /\ (last'.op = "Reset" /\ LiveH(hs[last'.hi])) => last'.ok
     /\ last'.op = "C_Take" => cont'[last'.c].h = NoH /\ cont'[last'.c].tok = NoTok]_vars

\* self-test target: with Misuse a stale handle can cancel another timeout (slab key reused for the same tick)
StealPossible == \A i \in 1..Len(arm) : arm[i].st # "stolen"
=============================================================================
