------------------------------ MODULE Sessions ------------------------------
(***************************************************************************)
(* Admission and resource accounting of a sozu worker                      *)
(* (lib/src/server.rs: SessionManager, Server::accept / create_sessions /  *)
(* shut_down_sessions_by_frontend_tokens / zombie_check; lib/src/pool.rs;  *)
(* lib/src/backends.rs connection counters).                               *)
(*                                                                         *)
(* One action per run-to-completion step of the code:                      *)
(*   AcceptPush        Server::accept, one accepted socket -> accept queue *)
(*   Pop .. Incr       one iteration of the `while pop_back()` loop of     *)
(*                     Server::create_sessions, split at the points where  *)
(*                     the code calls into SessionManager (pc in `cs`)     *)
(*   Track / Link / Unlink / Upgrade / HandshakeOk / Serve                 *)
(*                     what a session does while it lives                  *)
(*   Close(t, why)     kill_session: close() + slab removal + decr()       *)
(*   SetPerIpLimit(n)  RequestType::SetMaxConnectionsPerIp                 *)
(*   SetOverride(c, v) RequestType::AddCluster for a cluster that exists,  *)
(*                     with another max_connections_per_ip                 *)
(* Environment: Connect(s), Tick.                                          *)
(*                                                                         *)
(* Counters (nb, poolUsed, conns, perIp) are explicit variables; a session *)
(* remembers what it took (sess[t].bufs, .backs, tracks[t]) and every exit *)
(* path gives back exactly that.  P_C16_Baseline is therefore a genuine    *)
(* invariant of the transition system, not a definition.                   *)
(* `held` is what the STATEMENT counts - the connections the per-(cluster,  *)
(* ip) gate let through - next to what the code records (`tracks`):        *)
(* P_C16_SlotRecorded / P_C16_PerIpServed say that the two agree whatever   *)
(* the limit was when a connection came (limits are switched on at run     *)
(* time).  Deviations LazyTrack / SlotLeakOnFail are refuted by TLC.        *)
(***************************************************************************)
EXTENDS Integers, Sequences, FiniteSets, TLC, Json

CONSTANTS
  Max,         \* max_connections
  Socks,       \* client connection ids (trace mode: the client's source port)
  Toks,        \* session ids (frontend tokens)
  Ips,         \* client addresses
  IpOf,        \* [Socks -> Ips]   (only used by Next; trace events carry the ip)
  Clusters,
  Override,    \* [Clusters -> Int]  cluster-level max_connections_per_ip: -1 inherit, 0 unlimited, n
  Limits,      \* values SetMaxConnectionsPerIp may carry
  EvictOn,     \* evict_on_queue_full
  QT,          \* accept_queue_timeout, in ticks: an entry has timed out iff age > QT
  Sys,         \* number of slab entries of the idle worker (channel, timer, metrics, listeners)
  MaxBack,     \* backend connections one session may hold
  PoolCap,     \* buffer pool capacity
  TlsChoices,  \* {TRUE, FALSE}: sessions may start with a TLS handshake (HTTPS listener) or not
  CreateMayFail, \* TRUE: create_session() may fail for reasons outside the model (listener gone, register error)
  PopAny,      \* FALSE: create_sessions pops the newest entry (as the code); TRUE: any entry (conformance only needs membership)
  OverrideC2,  \* cluster-level override of cluster "c2" (MC instance)
  OvrValues,   \* values a run-time change of a cluster's max_connections_per_ip (AddCluster again) may carry; {} = never changed
  Deviations,  \* open known findings modelled as the code behaves (none so far); self-test switches:
               \*   "NoHystFloor"    the 90 % mark without its floor of 1 (before fix f5d9aa4)
               \*   "LazyTrack"      the gate records no slot while the resolved limit is 0 ("feature unused")
               \*   "SlotLeakOnFail" a session that dies after the gate but before it got a backend keeps its slots
  Script,      \* generator steering: <<>> or the sequence of step names a generated behaviour must follow
               \* (the arguments and the predicted states remain the spec's)
  Gen,         \* "off" | "hist": keep a history, print one REPLAY line per behaviour of length Depth
               \*       | "last": remember the last SessionManager-level step, print one REPLAY line per transition
  Depth

VARIABLES
  nb,          \* SessionManager::nb_connections
  canAccept,   \* SessionManager::can_accept
  perIpLimit,  \* SessionManager::max_connections_per_ip
  ovr,         \* [Clusters -> Int] cluster-level max_connections_per_ip as the proxies know it now (starts as Override)
  perIp,       \* connections_per_cluster_ip : [Clusters \X Ips -> Int]
  tracks,      \* cluster_ip_tracks : [Toks -> SUBSET (Clusters \X Ips)]
  stale,       \* slots whose count was already above the limit when the limit last changed
  held,        \* ghost: [Toks -> SUBSET Slots] the slots a connection occupies as the STATEMENT means it: the gate let it
               \* through to the cluster (since the tables were last wiped), whatever the limit was at that moment
  slab,        \* set of slab entries
  backlog,     \* connected, not yet accepted (kernel listen queue)
  queue,       \* Server::accept_queue : Seq([sock, age])
  cs,          \* create_sessions loop: [pc, sock, tok]
  sess,        \* [Toks -> [stage, sock, bufs, backs]]
  poolUsed,    \* Pool used()
  conns,       \* [Clusters -> Int]  Backend::active_connections (one backend per cluster)
  served,      \* sockets that have received at least one byte from sozu and are still open
  hist         \* generator history (empty unless Gen)

vars == <<nb, canAccept, perIpLimit, ovr, perIp, tracks, stale, held, slab, backlog, queue, cs, sess, poolUsed, conns, served, hist>>

---------------------------------------------------------------------------
Slots == Clusters \X Ips
NoScript == <<>>          \* for `Script <- NoScript` in configs (a .cfg cannot spell a tuple)
NoSess == [stage |-> "none", sock |-> 0, bufs |-> 0, backs |-> {}]
Live(t) == sess[t].stage # "none"
LiveToks == {t \in Toks : Live(t)}
Idle == [pc |-> "idle", sock |-> 0, tok |-> 0]
\* inside the `while let Some(..) = accept_queue.pop_back()` loop, between two iterations
Loop == [pc |-> "loop", sock |-> 0, tok |-> 0]
AfterIter(q) == IF q = <<>> THEN Idle ELSE Loop

BaseSlab == {[k |-> "sys", i |-> i] : i \in 1..Sys}
Front(t) == [k |-> "front", t |-> t]
Back(t, c) == [k |-> "back", t |-> t, c |-> c]
SlabLen == Cardinality(slab)

\* SessionManager::accept_slab_threshold and the 90 % hysteresis of decr()
SlabThreshold == 10 + 2 * Max
HystRaw == (Max * 90) \div 100
\* floor of 1 (fix f5d9aa4 in /repo): with Max = 1 the 90 % mark is 0 and accepting would never resume
Hyst == IF "NoHystFloor" \in Deviations \/ HystRaw >= 1 THEN HystRaw ELSE 1

\* effective_max_connections_per_ip
EffLimit(c) == IF ovr[c] >= 0 THEN ovr[c] ELSE perIpLimit
EffLimitIn(ov, lim, c) == IF ov[c] >= 0 THEN ov[c] ELSE lim

\* SessionManager::cluster_ip_at_limit
AtLimit(t, c, ip) ==
  /\ EffLimit(c) > 0
  /\ <<c, ip>> \notin tracks[t]
  /\ perIp[<<c, ip>>] >= EffLimit(c)

QueueSocks == {queue[i].sock : i \in 1..Len(queue)}
RemoveAt(q, i) == SubSeq(q, 1, i - 1) \o SubSeq(q, i + 1, Len(q))

\* Generator bookkeeping: the step record plus the SessionManager-visible part of the state the
\* spec predicts after the step (S->I comparison).  Must be the LAST conjunct of an action.
AtLimitIn(tr, pi, lim, ov, t, c, ip) ==
  LET l == EffLimitIn(ov, lim, c)
  IN l > 0 /\ <<c, ip>> \notin tr[t] /\ pi[<<c, ip>>] >= l
ProjOf(n, ca, sl, lim, ov, pi, tr) ==
  [nb |-> n, ca |-> ca, slab |-> Cardinality(sl), limit |-> lim,
   ovr |-> {[c |-> c, v |-> ov[c]] : c \in {d \in Clusters : ov[d] >= 0}},
   counts |-> {[c |-> x[1], ip |-> x[2], n |-> pi[x]] : x \in {y \in Slots : pi[y] # 0}},
   tracks |-> UNION {{[t |-> t, c |-> x[1], ip |-> x[2]] : x \in tr[t]} : t \in Toks},
   atl |-> UNION {{[t |-> t, c |-> x[1], ip |-> x[2]] :
                     x \in {y \in Slots : AtLimitIn(tr, pi, lim, ov, t, y[1], y[2])}} : t \in Toks}]
PreProj == ProjOf(nb, canAccept, slab, perIpLimit, ovr, perIp, tracks)
PostProj == ProjOf(nb', canAccept', slab', perIpLimit', ovr', perIp', tracks')
\* steps that call into (or change what is visible through) the SessionManager object
ObjectOps == {"CheckLimits", "CreateOk", "Incr", "Track", "Link", "Unlink", "Close", "SetPerIpLimit", "SetOverride"}
Rec(r) ==
  CASE Gen = "hist" -> /\ Len(hist) < Depth
                       /\ Script # <<>> => r.op = Script[Len(hist) + 1]
                       /\ hist' = Append(hist, [step |-> r, post |-> PostProj])
    [] Gen = "last" -> hist' = IF r.op \in ObjectOps
                              THEN <<[pre |-> PreProj, step |-> r, post |-> PostProj,
                                      frees |-> IF r.op = "Close" THEN Cardinality(slab) - Cardinality(slab') ELSE 0]>>
                              ELSE <<>>
    [] OTHER -> hist' = hist

---------------------------------------------------------------------------
(* Environment *)

Connect(s) ==
  /\ s \notin backlog /\ s \notin QueueSocks /\ cs.sock # s
  /\ \A t \in Toks : sess[t].sock # s
  /\ backlog' = backlog \cup {s}
  /\ UNCHANGED <<nb, canAccept, perIpLimit, ovr, perIp, tracks, held, stale, slab, queue, cs, sess, poolUsed, conns, served>>
  /\ Rec([op |-> "Connect", s |-> s])

Tick ==
  /\ \E i \in 1..Len(queue) : queue[i].age <= QT
  /\ queue' = [i \in 1..Len(queue) |-> [queue[i] EXCEPT !.age = IF @ <= QT THEN @ + 1 ELSE @]]
  /\ UNCHANGED <<nb, canAccept, perIpLimit, ovr, perIp, tracks, held, stale, slab, backlog, cs, sess, poolUsed, conns, served>>
  /\ Rec([op |-> "Tick"])

---------------------------------------------------------------------------
(* Server::ready(listener) / handle_remaining_readiness -> Server::accept *)

AcceptPush(s) ==
  /\ cs.pc = "idle"
  /\ canAccept                    \* accept() is only called while can_accept
  /\ s \in backlog
  /\ backlog' = backlog \ {s}
  /\ queue' = Append(queue, [sock |-> s, age |-> 0])
  /\ UNCHANGED <<nb, canAccept, perIpLimit, ovr, perIp, tracks, held, stale, slab, cs, sess, poolUsed, conns, served>>
  /\ Rec([op |-> "AcceptPush", s |-> s])

---------------------------------------------------------------------------
(* Server::create_sessions *)

\* pop one entry; `age` is how long it waited
PopWith(i, age) ==
  /\ cs.pc \in {"idle", "loop"}
  /\ i \in 1..Len(queue)
  /\ PopAny \/ i = Len(queue)                     \* pop_back(): newest first
  /\ queue' = RemoveAt(queue, i)
  /\ IF age > QT
     THEN cs' = AfterIter(queue')                   \* accept_queue.timeout: socket dropped, loop continues
     ELSE cs' = [pc |-> "popped", sock |-> queue[i].sock, tok |-> 0]
  /\ UNCHANGED <<nb, canAccept, perIpLimit, ovr, perIp, tracks, held, stale, slab, backlog, sess, poolUsed, conns, served>>
  /\ Rec([op |-> "Pop", s |-> queue[i].sock, timedout |-> age > QT])

Pop == \E i \in 1..Len(queue) : PopWith(i, queue[i].age)

\* SessionManager::check_limits, called with the slab length `len`
CheckLimitsWith(len) ==
  /\ cs.pc \in {"popped", "rechk"}
  /\ LET room == nb < Max /\ len < SlabThreshold IN
     /\ canAccept' = IF room THEN canAccept ELSE FALSE
     /\ cs' = IF room THEN [cs EXCEPT !.pc = "admit"]
              ELSE IF cs.pc = "popped" /\ EvictOn THEN [cs EXCEPT !.pc = "evict"]
              ELSE Idle                              \* the popped socket is dropped, the loop breaks
  /\ UNCHANGED <<nb, perIpLimit, ovr, perIp, tracks, held, stale, slab, backlog, queue, sess, poolUsed, conns, served>>
  /\ Rec([op |-> "CheckLimits", res |-> (nb < Max /\ len < SlabThreshold)])

CheckLimits == CheckLimitsWith(SlabLen)

\* what a session gives back when it ends (close() + slab sweep + decr()).
\* keep = TRUE only under the self-test deviation SlotLeakOnFail: the (cluster, ip) slots stay behind.
ReleaseK(t, keep) ==
  /\ slab' = slab \ ({Front(t)} \cup {Back(t, c) : c \in Clusters})
  /\ poolUsed' = poolUsed - sess[t].bufs
  /\ conns' = [c \in Clusters |-> IF c \in sess[t].backs THEN conns[c] - 1 ELSE conns[c]]
  /\ IF keep THEN UNCHANGED <<perIp, tracks>>
     ELSE /\ perIp' = [x \in Slots |-> IF x \in tracks[t] THEN perIp[x] - 1 ELSE perIp[x]]
          /\ tracks' = [tracks EXCEPT ![t] = {}]
  /\ held' = [held EXCEPT ![t] = {}]
  /\ stale' = {x \in stale : perIp'[x] > EffLimit(x[1])}
  /\ served' = served \ {sess[t].sock}
  /\ sess' = [sess EXCEPT ![t] = NoSess]
  /\ nb' = nb - 1
  /\ canAccept' = IF ~canAccept /\ nb - 1 < Hyst THEN TRUE ELSE canAccept
Release(t) == ReleaseK(t, FALSE)

\* evict_least_active_sessions: (max/100).max(1) = 1 session for the sizes modelled;
\* which one is the least recently active is the code's choice
EvictClose(t) ==
  /\ cs.pc = "evict"
  /\ Live(t)
  /\ Release(t)
  /\ cs' = [cs EXCEPT !.pc = "rechk"]
  /\ UNCHANGED <<perIpLimit, ovr, backlog, queue>>
  /\ Rec([op |-> "Close", t |-> t, why |-> "evict"])

EvictNone ==
  /\ cs.pc = "evict"
  /\ LiveToks = {}
  /\ cs' = Idle                                     \* nothing to evict: socket dropped, loop breaks
  /\ UNCHANGED <<nb, canAccept, perIpLimit, ovr, perIp, tracks, held, stale, slab, backlog, queue, sess, poolUsed, conns, served>>
  /\ Rec([op |-> "EvictNone"])

\* proxy.create_session(): slab entry + front buffer
CreateOk(t, tls) ==
  /\ cs.pc = "admit"
  /\ ~Live(t)
  /\ poolUsed < PoolCap
  /\ slab' = slab \cup {Front(t)}
  /\ poolUsed' = poolUsed + 1
  /\ sess' = [sess EXCEPT ![t] = [stage |-> IF tls THEN "hs" ELSE "front",   \* HTTPS listener: handshake first
                                  sock |-> cs.sock, bufs |-> 1, backs |-> {}]]
  /\ cs' = [cs EXCEPT !.pc = "created", !.tok = t]
  /\ UNCHANGED <<nb, canAccept, perIpLimit, ovr, perIp, tracks, held, stale, backlog, queue, conns, served>>
  /\ Rec([op |-> "CreateOk", t |-> t, s |-> cs.sock, tls |-> tls])

\* create_session() returned Err (listener gone, register error, no buffer): socket dropped, loop breaks
CreateFail ==
  /\ cs.pc = "admit"
  /\ CreateMayFail \/ poolUsed >= PoolCap
  /\ cs' = Idle
  /\ UNCHANGED <<nb, canAccept, perIpLimit, ovr, perIp, tracks, held, stale, slab, backlog, queue, sess, poolUsed, conns, served>>
  /\ Rec([op |-> "CreateFail"])

\* SessionManager::incr
Incr ==
  /\ cs.pc = "created"
  /\ nb' = nb + 1
  /\ cs' = AfterIter(queue)                          \* the loop goes on until the queue is empty
  /\ UNCHANGED <<canAccept, perIpLimit, ovr, perIp, tracks, held, stale, slab, backlog, queue, sess, poolUsed, conns, served>>
  /\ Rec([op |-> "Incr"])

---------------------------------------------------------------------------
(* What a live session does *)

HandshakeOk(t) ==
  /\ cs.pc = "idle" /\ sess[t].stage = "hs"
  /\ sess' = [sess EXCEPT ![t].stage = "front"]
  /\ served' = served \cup {sess[t].sock}            \* ServerHello
  /\ UNCHANGED <<nb, canAccept, perIpLimit, ovr, perIp, tracks, held, stale, slab, backlog, queue, cs, poolUsed, conns>>
  /\ Rec([op |-> "HandshakeOk", t |-> t])

\* mux::Router::connect / TcpSession::connect_to_backend: the per-(cluster, ip) gate.
\* Admitted: track (idempotent per token).  At the limit: 429 / close, nothing taken.
\* The slot is recorded WHATEVER the resolved limit is (0 = unlimited included): a limit switched on later
\* (SetMaxConnectionsPerIp, a cluster re-declared with another max_connections_per_ip) must find the
\* connections already being served in the tables.  Self-test deviation LazyTrack: nothing is recorded while
\* the resolved limit is 0, the connection goes on to its backend all the same.
Track(t, c, ip) ==
  /\ cs.pc = "idle" /\ sess[t].stage \in {"front", "linked"}
  /\ ~AtLimit(t, c, ip)
  /\ IF "LazyTrack" \in Deviations /\ EffLimit(c) = 0
     THEN UNCHANGED <<tracks, perIp>>
     ELSE /\ tracks' = [tracks EXCEPT ![t] = @ \cup {<<c, ip>>}]
          /\ perIp' = [perIp EXCEPT ![<<c, ip>>] = IF <<c, ip>> \in tracks[t] THEN @ ELSE @ + 1]
  /\ held' = [held EXCEPT ![t] = @ \cup {<<c, ip>>}]
  /\ UNCHANGED <<nb, canAccept, perIpLimit, ovr, stale, slab, backlog, queue, cs, sess, poolUsed, conns, served>>
  /\ Rec([op |-> "Track", t |-> t, c |-> c, ip |-> ip, atl |-> FALSE])

Reject(t, c, ip) ==
  /\ cs.pc = "idle" /\ sess[t].stage \in {"front", "linked"}
  /\ AtLimit(t, c, ip)
  /\ served' = served \cup {sess[t].sock}            \* the 429 answer (TCP: plain close follows)
  /\ UNCHANGED <<nb, canAccept, perIpLimit, ovr, perIp, tracks, held, stale, slab, backlog, queue, cs, sess, poolUsed, conns>>
  /\ Rec([op |-> "Track", t |-> t, c |-> c, ip |-> ip, atl |-> TRUE])

\* a session reaches a backend of cluster c only through the gate (Router::connect / connect_to_backend)
LinkAllowed(t, c) == \E ip \in Ips : <<c, ip>> \in held[t]
\* backend connection: slab entry, backend counter, back buffer
Link(t, c) ==
  /\ cs.pc = "idle" /\ sess[t].stage \in {"front", "linked"}
  /\ LinkAllowed(t, c)                              \* the gate ran first
  /\ c \notin sess[t].backs /\ Cardinality(sess[t].backs) < MaxBack
  /\ poolUsed < PoolCap
  /\ slab' = slab \cup {Back(t, c)}
  /\ conns' = [conns EXCEPT ![c] = @ + 1]
  /\ poolUsed' = poolUsed + 1
  /\ sess' = [sess EXCEPT ![t].stage = "linked", ![t].bufs = @ + 1, ![t].backs = @ \cup {c}]
  /\ UNCHANGED <<nb, canAccept, perIpLimit, ovr, perIp, tracks, held, stale, backlog, queue, cs, served>>
  /\ Rec([op |-> "Link", t |-> t, c |-> c])

\* backend closed / failed / keep-alive expired while the session goes on
Unlink(t, c) ==
  /\ cs.pc = "idle" /\ sess[t].stage = "linked" /\ c \in sess[t].backs
  /\ slab' = slab \ {Back(t, c)}
  /\ conns' = [conns EXCEPT ![c] = @ - 1]
  /\ poolUsed' = poolUsed - 1
  /\ sess' = [sess EXCEPT ![t].backs = @ \ {c}, ![t].bufs = @ - 1,
                          ![t].stage = IF sess[t].backs = {c} THEN "front" ELSE "linked"]
  /\ UNCHANGED <<nb, canAccept, perIpLimit, ovr, perIp, tracks, held, stale, backlog, queue, cs, served>>
  /\ Rec([op |-> "Unlink", t |-> t, c |-> c])

\* WebSocket upgrade: mux -> pipe, same token, same resources
Upgrade(t) ==
  /\ cs.pc = "idle" /\ sess[t].stage = "linked" /\ Cardinality(sess[t].backs) = 1
  /\ sess' = [sess EXCEPT ![t].stage = "ws"]
  /\ UNCHANGED <<nb, canAccept, perIpLimit, ovr, perIp, tracks, held, stale, slab, backlog, queue, cs, poolUsed, conns, served>>
  /\ Rec([op |-> "Upgrade", t |-> t])

\* any answer byte written to the client (response, default answer, relay)
Serve(t) ==
  /\ cs.pc = "idle" /\ sess[t].stage \in {"front", "linked", "ws"}
  /\ sess[t].sock \notin served
  /\ served' = served \cup {sess[t].sock}
  /\ UNCHANGED <<nb, canAccept, perIpLimit, ovr, perIp, tracks, held, stale, slab, backlog, queue, cs, sess, poolUsed, conns>>
  /\ Rec([op |-> "Serve", t |-> t])

Reasons == {"complete", "fail", "timeout", "reset", "handshakefail", "zombie"}

\* kill_session / zombie_check / timeout: every way a session ends outside of eviction
Close(t, why) ==
  /\ cs.pc = "idle" /\ Live(t)
  /\ why \in Reasons
  /\ (why = "handshakefail") = (sess[t].stage = "hs")
  /\ ReleaseK(t, "SlotLeakOnFail" \in Deviations /\ why = "fail" /\ sess[t].backs = {} /\ tracks[t] # {})
  /\ UNCHANGED <<perIpLimit, ovr, backlog, queue, cs>>
  /\ Rec([op |-> "Close", t |-> t, why |-> why])

\* ZombieSweep: zombie_check closes every session idle for longer than the interval, one kill_session each
ZombieSweep(t) == Close(t, "zombie")

---------------------------------------------------------------------------
(* RequestType::SetMaxConnectionsPerIp *)

SetPerIpLimit(n) ==
  /\ cs.pc = "idle"
  /\ n \in Limits
  /\ n # perIpLimit \/ n = 0       \* 0 wipes the tables even when the limit already is 0; n -> n otherwise changes nothing
  /\ perIpLimit' = n
  /\ IF n = 0
     THEN /\ perIp' = [x \in Slots |-> 0]            \* clear_cluster_ip_tracking
          /\ tracks' = [t \in Toks |-> {}]
          /\ held' = [t \in Toks |-> {}]             \* the code forgets the connections open at that moment (as is)
     ELSE UNCHANGED <<perIp, tracks, held>>
  /\ stale' = {x \in Slots : LET l == EffLimitIn(ovr, n, x[1]) IN l > 0 /\ perIp'[x] > l}
  /\ UNCHANGED <<nb, canAccept, ovr, slab, backlog, queue, cs, sess, poolUsed, conns, served>>
  /\ Rec([op |-> "SetPerIpLimit", n |-> n])

\* AddCluster for a cluster that exists, with another max_connections_per_ip (-1 = inherit the global limit,
\* 0 = unlimited, n).  Nothing is wiped: the tables keep counting, only the resolved limit changes.
SetOverride(c, v) ==
  /\ cs.pc = "idle"
  /\ v \in OvrValues /\ v # ovr[c]
  /\ ovr' = [ovr EXCEPT ![c] = v]
  /\ stale' = {x \in Slots : LET l == EffLimitIn(ovr', perIpLimit, x[1]) IN l > 0 /\ perIp[x] > l}
  /\ UNCHANGED <<nb, canAccept, perIpLimit, perIp, tracks, held, slab, backlog, queue, cs, sess, poolUsed, conns, served>>
  /\ Rec([op |-> "SetOverride", c |-> c, v |-> v])

---------------------------------------------------------------------------
InitWith(limit) ==
  /\ nb = 0 /\ canAccept = TRUE
  /\ perIpLimit = limit
  /\ ovr = Override
  /\ perIp = [x \in Slots |-> 0]
  /\ tracks = [t \in Toks |-> {}]
  /\ held = [t \in Toks |-> {}]
  /\ stale = {}
  /\ slab = BaseSlab
  /\ backlog = {} /\ queue = <<>> /\ cs = Idle
  /\ sess = [t \in Toks |-> NoSess]
  /\ poolUsed = 0
  /\ conns = [c \in Clusters |-> 0]
  /\ served = {}
  /\ hist = <<>>
Init == \E l \in Limits : InitWith(l)

\* the slab hands out the lowest free key here; which key is irrelevant
FreeTok == CHOOSE t \in Toks : ~Live(t) /\ \A u \in Toks : ~Live(u) => t <= u
\* client sockets of one address are interchangeable: the lowest unused one connects next
InUse(s) == s \in backlog \/ s \in QueueSocks \/ cs.sock = s \/ \E t \in Toks : sess[t].sock = s
NextSock(ip) == CHOOSE s \in Socks : IpOf[s] = ip /\ ~InUse(s) /\ \A u \in Socks : (IpOf[u] = ip /\ ~InUse(u)) => s <= u

\* top-level actions (named so that TLC's coverage shows every one of them being taken)
Env_Connect    == \E ip \in Ips : (\E s \in Socks : IpOf[s] = ip /\ ~InUse(s)) /\ Connect(NextSock(ip))
Accept         == \E s \in Socks : AcceptPush(s)
Create         == (\E t \in Toks : ~Live(t)) /\ \E tls \in TlsChoices : CreateOk(FreeTok, tls)
Evict          == \E t \in Toks : EvictClose(t)
Handshake      == \E t \in Toks : HandshakeOk(t)
UpgradeWs      == \E t \in Toks : Upgrade(t)
ServeByte      == \E t \in Toks : Serve(t)
LinkBackend    == \E t \in Toks, c \in Clusters : Link(t, c)
UnlinkBackend  == \E t \in Toks, c \in Clusters : Unlink(t, c)
TrackIp        == \E t \in Toks, c \in Clusters : Live(t) /\ Track(t, c, IpOf[sess[t].sock])
RejectIp       == \E t \in Toks, c \in Clusters : Live(t) /\ Reject(t, c, IpOf[sess[t].sock])
Complete       == \E t \in Toks : Close(t, "complete")
Fail           == \E t \in Toks : Close(t, "fail")
Timeout        == \E t \in Toks : Close(t, "timeout")
Reset          == \E t \in Toks : Close(t, "reset")
HandshakeFail  == \E t \in Toks : Close(t, "handshakefail")
Zombie         == \E t \in Toks : ZombieSweep(t)
SetLimit       == \E n \in Limits : SetPerIpLimit(n)
SetClusterLimit == \E c \in Clusters, v \in OvrValues : Override[c] >= 0 /\ SetOverride(c, v)   \* (MC: only the cluster that has an override)

Next ==
  \/ Env_Connect \/ Tick
  \/ Accept \/ Pop \/ CheckLimits \/ Evict \/ EvictNone \/ Create \/ CreateFail \/ Incr
  \/ Handshake \/ UpgradeWs \/ ServeByte \/ LinkBackend \/ UnlinkBackend \/ TrackIp \/ RejectIp
  \/ Complete \/ Fail \/ Timeout \/ Reset \/ HandshakeFail \/ Zombie
  \/ SetLimit \/ SetClusterLimit

Spec == Init /\ [][Next]_vars

\* Fairness for the liveness part: the event loop keeps running (accept, create_sessions), and
\* timers / the zombie sweep eventually end every session ("reclaimed within their timeouts").
Fairness ==
  /\ WF_vars(Accept)
  /\ WF_vars(Pop) /\ WF_vars(CheckLimits) /\ WF_vars(EvictNone) /\ WF_vars(Incr)
  /\ WF_vars(CreateFail \/ Create)
  /\ WF_vars(Evict)
  /\ \A t \in Toks : SF_vars(Close(t, "timeout") \/ Close(t, "handshakefail"))
FairSpec == Spec /\ Fairness

---------------------------------------------------------------------------
(* VIEW for the exhaustive configs: client sockets of one address and session tokens are       *)
(* interchangeable, so a state is identified by the bag of session descriptors, the queue as a *)
(* sequence of (address, age), the backlog as a bag of addresses, and the counters.            *)
Desc(t) == [stage |-> sess[t].stage, ip |-> IpOf[sess[t].sock], bufs |-> sess[t].bufs, backs |-> sess[t].backs,
            tracks |-> tracks[t], held |-> held[t], served |-> sess[t].sock \in served,
            cur |-> cs.tok = t,
            slab |-> <<Front(t) \in slab, {c \in Clusters : Back(t, c) \in slab}>>]
View ==
  <<nb, canAccept, perIpLimit, ovr, perIp, stale, poolUsed, conns,
    Cardinality(slab \cap BaseSlab), Cardinality(slab),
    {<<ip, Cardinality({s \in backlog : IpOf[s] = ip})>> : ip \in Ips},
    [i \in 1..Len(queue) |-> <<IpOf[queue[i].sock], queue[i].age>>],
    cs.pc, IF cs.sock = 0 THEN "-" ELSE IpOf[cs.sock],
    {<<Desc(t), Cardinality({u \in LiveToks : Desc(u) = Desc(t)})>> : t \in LiveToks},
    {<<t, tracks[t]>> : t \in {u \in Toks : ~Live(u) /\ tracks[u] # {}}},
    Cardinality(served \ {sess[t].sock : t \in LiveToks})>>

---------------------------------------------------------------------------
(* Properties (C16) *)

TypeOK ==
  /\ nb \in Int /\ canAccept \in BOOLEAN /\ perIpLimit \in Limits
  /\ perIp \in [Slots -> Int] /\ tracks \in [Toks -> SUBSET Slots] /\ held \in [Toks -> SUBSET Slots]
  /\ ovr \in [Clusters -> Int]
  /\ poolUsed \in Int /\ conns \in [Clusters -> Int]
  /\ cs.pc \in {"idle", "loop", "popped", "admit", "evict", "rechk", "created"}
  /\ \A t \in Toks : sess[t].stage \in {"none", "hs", "front", "linked", "ws"}
  /\ served \subseteq Socks /\ backlog \subseteq Socks

\* the connection count never exceeds max_connections, and it counts exactly the sessions that exist
P_C16_NbLeMax == nb <= Max
P_C16_NbCountsSessions == nb = Cardinality(LiveToks) - (IF cs.pc = "created" THEN 1 ELSE 0)
\* sockets being served (they got a byte and are still open) never exceed max_connections
P_C16_ServedLeMax == Cardinality(served) <= Max /\ served \subseteq {sess[t].sock : t \in LiveToks}
\* per-(cluster, ip) limit, unless the slot was already above it when the limit last changed
P_C16_PerIpLimit == \A x \in Slots : (EffLimit(x[1]) > 0 /\ x \notin stale) => perIp[x] <= EffLimit(x[1])
\* one connection occupies at most one slot per (cluster, ip): the count is the number of tokens holding the slot
P_C16_OneSlotPerToken == \A x \in Slots : perIp[x] = Cardinality({t \in Toks : x \in tracks[t]})
P_C16_TracksOnlyLive == \A t \in Toks : tracks[t] # {} => Live(t)
\* every connection the gate let through to a cluster occupies a RECORDED slot - also when it came while the
\* resolved limit was 0: the tables count the connections being served, so that a limit switched on at run time
\* is in force at once ...
P_C16_SlotRecorded == \A t \in Toks : held[t] \subseteq tracks[t]
\* ... and the statement itself: the connections of one address being served by one cluster never exceed the limit
\* in force (unless they were already above it when the limit last changed)
ServedBy(x) == {t \in Toks : x \in held[t]}
P_C16_PerIpServed == \A x \in Slots : (EffLimit(x[1]) > 0 /\ x \notin stale) => Cardinality(ServedBy(x)) <= EffLimit(x[1])
\* no counter below zero
P_C16_NoUnderflow == /\ nb >= 0 /\ poolUsed >= 0 /\ poolUsed <= PoolCap
                     /\ \A c \in Clusters : conns[c] >= 0
                     /\ \A x \in Slots : perIp[x] >= 0
\* baseline: once no session is left, the idle footprint is back
NoSession == LiveToks = {} /\ cs.pc \in {"idle", "loop"}
P_C16_Baseline ==
  NoSession => /\ nb = 0 /\ slab = BaseSlab /\ poolUsed = 0
               /\ \A c \in Clusters : conns[c] = 0
               /\ \A x \in Slots : perIp[x] = 0
               /\ \A t \in Toks : tracks[t] = {} /\ held[t] = {}
               /\ served = {}
\* resources in use are exactly what the live sessions hold
P_C16_Accounting ==
  /\ slab = BaseSlab \cup {Front(t) : t \in LiveToks}
                    \cup UNION {{Back(t, c) : c \in sess[t].backs} : t \in LiveToks}
  /\ poolUsed = 0 + Cardinality(LiveToks) + Cardinality(UNION {{<<t, c>> : c \in sess[t].backs} : t \in LiveToks})
  /\ \A c \in Clusters : conns[c] = Cardinality({t \in LiveToks : c \in sess[t].backs})

P_C16 == /\ P_C16_NbLeMax /\ P_C16_NbCountsSessions /\ P_C16_ServedLeMax /\ P_C16_PerIpLimit
         /\ P_C16_OneSlotPerToken /\ P_C16_TracksOnlyLive /\ P_C16_SlotRecorded /\ P_C16_PerIpServed
         /\ P_C16_NoUnderflow /\ P_C16_Baseline
         /\ P_C16_Accounting

\* action properties
\* a session is only counted after check_limits found room; sockets are only queued while can_accept
P_C16_Admission ==
  [][/\ (nb' = nb + 1 => nb < Max /\ cs.pc = "created")
     /\ (Len(queue') > Len(queue) => canAccept)]_vars
\* hysteresis: accept is switched off only at a saturated gate, back on only below 90 %
P_C16_Hysteresis ==
  [][/\ (canAccept /\ ~canAccept' => nb >= Max \/ SlabLen >= SlabThreshold)
     /\ (~canAccept /\ canAccept' => nb' < Hyst)]_vars
\* a per-IP count only grows below the limit
P_C16_PerIpAdmission ==
  [][\A x \in Slots : perIp'[x] > perIp[x] => (EffLimit(x[1]) = 0 \/ perIp[x] < EffLimit(x[1]))]_vars

\* liveness (FairSpec): accepting resumes once load has dropped; queued sockets are served or dropped
P_C16_Resumes == []<>canAccept
P_C16_QueueDrains == \A s \in Socks : (s \in QueueSocks) ~> (s \notin QueueSocks)
P_C16_Reclaimed == \A t \in Toks : Live(t) ~> ~Live(t)

---------------------------------------------------------------------------
(* Generator (S->I): one REPLAY line per behaviour of length Depth; every   *)
(* step carries the SessionManager-visible state the spec predicts.         *)

EmitHist ==
  /\ (Gen = "hist" /\ Len(hist) = Depth) =>
        PrintT(<<"REPLAY", ToJson([max |-> Max, sys |-> Sys, toks |-> Toks, clusters |-> Clusters, ips |-> Ips, steps |-> hist])>>)
  /\ (Gen = "last" /\ hist # <<>>) =>
        PrintT(<<"REPLAY", ToJson([max |-> Max, sys |-> Sys, toks |-> Toks, clusters |-> Clusters, ips |-> Ips, trans |-> hist[1]])>>)
\* Generation only needs every SessionManager-level transition once; the replayer builds the
\* pre-state from its projection, so states that differ only in the environment are merged.
GDesc(t) == <<sess[t].stage = "hs", sess[t].backs, tracks[t], IpOf[sess[t].sock], cs.tok = t>>
GenView == <<nb, canAccept, perIpLimit, ovr, perIp, Cardinality(slab), cs.pc, queue # <<>>, backlog # {}, hist,
             {<<GDesc(t), Cardinality({u \in LiveToks : GDesc(u) = GDesc(t)})>> : t \in LiveToks}>>

=============================================================================
