------------------------------- MODULE H2Wire -------------------------------
(***************************************************************************)
(* C14 / C01 - the WRITER of one HTTP/2 connection of sozu: what           *)
(* ConnectionH2 puts on its socket is a sequence of WHOLE frames.          *)
(*                                                                         *)
(* H2Flow.tla is the peer's ledger (what the peer may conclude from the    *)
(* frames it reads) and states the observable property P_C14_WholeFrames;  *)
(* Relay.tla moves position-coded bytes through per-direction pipes.       *)
(* Neither says WHY a frame of sozu is contiguous on the wire: this module *)
(* does, at the granularity the code works at.  A connection is FULL       *)
(* DUPLEX: while the socket is blocked in the middle of a stream frame     *)
(* (the peer does not read), frames of that same peer keep arriving and    *)
(* the READ path produces output of its own - WINDOW_UPDATE for received   *)
(* DATA, RST_STREAM for a refused / illegal stream frame, SETTINGS ACK,    *)
(* PING ACK, GOAWAY.  All of it must wait for the frame boundary.          *)
(*                                                                         *)
(* Code: lib/src/protocol/mux/h2.rs                                        *)
(*   writable -> flush_pending_control_frames  Stage0, StageWU, StageRst   *)
(*            -> write_streams                 Resume, NewFrames           *)
(*   flush_stream_out (Stalled => expect_write = Some(Other))              *)
(*   flush_zero_to_socket                      FlushZero                   *)
(*   expect_zero_write + zero_write_deferred   Peer_Ctl (PING, SETTINGS,   *)
(*                                             graceful GOAWAY)            *)
(*   handle_data_frame -> queue_window_update  Peer_Data                   *)
(*   enqueue_rst / pending_rst_streams         Peer_Bad                    *)
(*   `zero` is also where incoming frame headers / control payloads are    *)
(*   received: Peer_Partial leaves received bytes ("in") in it             *)
(*                                                                         *)
(* A frame is FParts (stream frame) or CParts (control frame) PARTS; the   *)
(* kernel takes parts while it has room (Room), the peer frees room one    *)
(* part at a time, so a write can stop after any part.  `tail` is the last *)
(* part put on the wire and `garbled` the peer's frame parser: it becomes  *)
(* TRUE when a part arrives that does not continue the frame in progress.  *)
(*                                                                         *)
(* One action per run-to-completion step: Mux_Writable is one call of      *)
(* ConnectionH2::writable, Peer_* one frame handled by readable.           *)
(* Readiness / wake-ups are Relay.tla's business and not modelled here     *)
(* (Mux_Writable is enabled whenever it has something to do).  Assumption  *)
(* of the environment: a further frame of the peer is handled only when    *)
(* the zero buffer holds no unsent output.                                 *)
(*                                                                         *)
(* Deviations - each is a slip that compiles and passes sozu's tests; TLC  *)
(* must refute every one (c14.py / c01.py run them):                       *)
(*   WuInsideFrame    the WINDOW_UPDATE stage runs unless expect_write is  *)
(*                    Zero (seeded defect C01-12: `is_none()` dropped)     *)
(*   RstInsideFrame   same slip in the RST_STREAM stage                    *)
(*   ZeroOverwrites   expect_zero_write always marks Zero (the code before *)
(*                    73dc62f; known finding control-frame-inside-data-    *)
(*                    frame)                                               *)
(*   ZeroNonEmptyDue  "the zero buffer is not empty" taken for "an answer  *)
(*                    was deferred" (the code between 73dc62f and 2372fdd; *)
(*                    known finding zero-buffer-echo)                      *)
(*   DeferredSticky   zero_write_deferred is never cleared                 *)
(* and one is what the code DOES (open finding reset-drops-frame-tail,     *)
(* conformance runs with it switched on):                                  *)
(*   ResetDropsFrameTail  the peer resets the stream whose frame is half-  *)
(*                    written: remove_dead_stream clears expect_write, the *)
(*                    stream's buffer is recycled and the rest of the      *)
(*                    frame never goes out                                 *)
(***************************************************************************)
EXTENDS Integers, Sequences, FiniteSets, TLC

CONSTANTS NFrames,    \* stream frames the connection has to write
          FParts,     \* parts of a stream frame (>= 2: a write can stop inside)
          CParts,     \* parts of a control frame
          Room,       \* capacity of the kernel send queue, in parts
          MaxEvents,  \* frames of the peer the read path handles at most
          Deviations

VARIABLES nextf,     \* next stream frame to prepare (NFrames + 1: none left)
          curf,      \* the stream frame in kawa.out (0: none) ...
          curleft,   \* ... and how many of its parts are not written yet
          expect,    \* expect_write: "none" | "zero" | "stream"
          zero,      \* the zero buffer: parts of serialised control frames, or received bytes ("in")
          deferred,  \* zero_write_deferred
          wu,        \* pending_window_updates is not empty
          rst,       \* pending_rst_streams is not empty
          rint,      \* READABLE is in the connection's interest
          kern,      \* parts in the kernel send queue
          tail,      \* the last part written
          garbled,   \* the peer's parser lost the framing
          nc,        \* control frames serialised so far (their identities)
          nev        \* peer frames handled so far

vars == <<nextf, curf, curleft, expect, zero, deferred, wu, rst, rint, kern, tail, garbled, nc, nev>>

Dev(d) == d \in Deviations
Min(a, b) == IF a < b THEN a ELSE b
NoPart == [t |-> "-", id |-> 0, part |-> 0, of |-> 0]
CtlFrame(id) == [p \in 1..CParts |-> [t |-> "c", id |-> id, part |-> p, of |-> CParts]]
StreamPart(f, p) == [t |-> "s", id |-> f, part |-> p, of |-> FParts]
InPart == [t |-> "in", id |-> 0, part |-> 1, of |-> 1]

\* the peer's frame parser: does part x continue the byte stream that ended with part l ?
Continues(l, x) ==
  /\ x.t # "in"
  /\ IF x.part = 1 THEN l.part = l.of
     ELSE l.t = x.t /\ l.id = x.id /\ l.part = x.part - 1

\* the connection as a record, so that the stages of one writable() call compose
State == [nextf |-> nextf, curf |-> curf, curleft |-> curleft, expect |-> expect, zero |-> zero, deferred |-> deferred,
          wu |-> wu, rst |-> rst, rint |-> rint, kern |-> kern, tail |-> tail, garbled |-> garbled, nc |-> nc, ret |-> FALSE]

RECURSIVE Put(_, _)
\* socket_write of a sequence of parts: as many as the kernel has room for; returns the state and what is left
Put(s, parts) ==
  IF parts = <<>> \/ s.kern >= Room THEN [s |-> s, left |-> parts]
  ELSE Put([s EXCEPT !.kern = @ + 1, !.tail = Head(parts), !.garbled = @ \/ ~Continues(s.tail, Head(parts))], Tail(parts))

\* flush_zero_to_socket
FlushZero(s) == LET r == Put(s, s.zero) IN [r.s EXCEPT !.zero = r.left]

\* Stage - resume the zero-buffer flush (also due when an answer was deferred behind a frame whose stream is gone)
Stage0(s) ==
  LET due == \/ s.expect = "zero"
             \/ s.expect = "none" /\ (IF Dev("ZeroNonEmptyDue") THEN s.zero # <<>> ELSE s.deferred)
  IN IF ~due THEN s
     ELSE LET t == FlushZero([s EXCEPT !.deferred = IF Dev("DeferredSticky") THEN @ ELSE FALSE]) IN
          IF t.zero # <<>> THEN [t EXCEPT !.expect = "zero", !.ret = TRUE]
          ELSE [t EXCEPT !.expect = "none", !.rint = TRUE]

\* Stage - pending WINDOW_UPDATEs: serialised into the zero buffer (storage.clear() first) and flushed inline,
\* only when nothing is half-written
StageWU(s) ==
  LET allowed == s.expect = "none" \/ (Dev("WuInsideFrame") /\ s.expect # "zero") IN
  IF s.ret \/ ~s.wu \/ ~allowed THEN s
  ELSE LET t == FlushZero([s EXCEPT !.zero = CtlFrame(s.nc + 1), !.nc = @ + 1, !.wu = FALSE]) IN
       IF t.zero # <<>> THEN [t EXCEPT !.expect = "zero", !.ret = TRUE] ELSE t

\* Stage - pending RST_STREAMs, likewise
StageRst(s) ==
  LET allowed == s.expect = "none" \/ (Dev("RstInsideFrame") /\ s.expect # "zero") IN
  IF s.ret \/ ~s.rst \/ ~allowed THEN s
  ELSE LET t == FlushZero([s EXCEPT !.zero = CtlFrame(s.nc + 1), !.nc = @ + 1, !.rst = FALSE]) IN
       IF t.zero # <<>> THEN [t EXCEPT !.expect = "zero", !.ret = TRUE] ELSE t

\* the parts of the frame in kawa.out that are not written yet
CurParts(s) == [i \in 1..s.curleft |-> StreamPart(s.curf, FParts - s.curleft + i)]

\* flush_stream_out
FlushStream(s) == LET r == Put(s, CurParts(s)) IN [r.s EXCEPT !.curleft = Len(r.left)]

\* write_streams, resume path: finish the half-written frame; then the answers deferred meanwhile, on the boundary
Resume(s) ==
  IF s.ret \/ s.expect # "stream" THEN s
  ELSE LET t == FlushStream(s) IN
       IF t.curleft > 0 THEN [t EXCEPT !.ret = TRUE]                       \* FlushOutcome::Stalled
       ELSE LET u == [t EXCEPT !.expect = "none", !.curf = 0] IN
            IF ~u.deferred THEN u
            ELSE LET v == FlushZero([u EXCEPT !.deferred = IF Dev("DeferredSticky") THEN @ ELSE FALSE]) IN
                 IF v.zero # <<>> THEN [v EXCEPT !.expect = "zero", !.ret = TRUE]
                 ELSE [v EXCEPT !.rint = TRUE]

RECURSIVE NewFrames(_)
\* write_streams, main loop: prepare the next frame (converter -> kawa.out) and flush it, until the socket stalls
NewFrames(s) ==
  IF s.ret \/ s.expect # "none" \/ s.nextf > NFrames THEN s
  ELSE LET t == FlushStream([s EXCEPT !.curf = s.nextf, !.curleft = FParts, !.nextf = @ + 1]) IN
       IF t.curleft > 0 THEN [t EXCEPT !.expect = "stream", !.ret = TRUE]
       ELSE NewFrames([t EXCEPT !.curf = 0])

Writable(s) == NewFrames(Resume(StageRst(StageWU(Stage0(s)))))

Install(s) ==
  /\ nextf' = s.nextf /\ curf' = s.curf /\ curleft' = s.curleft /\ expect' = s.expect /\ zero' = s.zero
  /\ deferred' = s.deferred /\ wu' = s.wu /\ rst' = s.rst /\ rint' = s.rint /\ kern' = s.kern /\ tail' = s.tail
  /\ garbled' = s.garbled /\ nc' = s.nc

Init ==
  /\ nextf = 1 /\ curf = 0 /\ curleft = 0 /\ expect = "none" /\ zero = <<>> /\ deferred = FALSE
  /\ wu = FALSE /\ rst = FALSE /\ rint = TRUE /\ kern = 0 /\ tail = NoPart /\ garbled = FALSE /\ nc = 0 /\ nev = 0

\* one call of ConnectionH2::writable
Mux_Writable ==
  LET w == [Writable(State) EXCEPT !.ret = FALSE] IN
  /\ w # State
  /\ Install(w)
  /\ UNCHANGED nev

\* ---- the peer ------------------------------------------------------------
\* it reads: the kernel queue drains by one part
Peer_Read == kern > 0 /\ kern' = kern - 1
             /\ UNCHANGED <<nextf, curf, curleft, expect, zero, deferred, wu, rst, rint, tail, garbled, nc, nev>>

\* the read path handles one more frame of the peer only while READABLE is wanted and the zero buffer holds no
\* unsent output; received bytes of this very frame may sit in it
CanHandle == rint /\ nev < MaxEvents /\ (zero = <<>> \/ zero = <<InPart>>)

\* part of a frame (a frame header split by the transport) is received into the zero buffer
Peer_Partial == /\ rint /\ nev < MaxEvents /\ zero = <<>>
                /\ zero' = <<InPart>>
                /\ UNCHANGED <<nextf, curf, curleft, expect, deferred, wu, rst, rint, kern, tail, garbled, nc, nev>>

\* DATA: handle_data_frame queues a WINDOW_UPDATE
Peer_Data == /\ CanHandle /\ wu' = TRUE /\ zero' = <<>> /\ nev' = nev + 1
             /\ UNCHANGED <<nextf, curf, curleft, expect, deferred, rst, rint, kern, tail, garbled, nc>>

\* a frame sozu answers with RST_STREAM (refused stream, WINDOW_UPDATE with a zero increment ...)
Peer_Bad == /\ CanHandle /\ rst' = TRUE /\ zero' = <<>> /\ nev' = nev + 1
            /\ UNCHANGED <<nextf, curf, curleft, expect, deferred, wu, rint, kern, tail, garbled, nc>>

\* PING / SETTINGS / shutdown (graceful GOAWAY): the answer is serialised into the zero buffer, the reads stop until
\* it is out, and expect_zero_write marks it - or defers it behind the half-written stream frame
Peer_Ctl == /\ CanHandle /\ nev' = nev + 1
            /\ zero' = CtlFrame(nc + 1) /\ nc' = nc + 1
            /\ rint' = FALSE
            /\ IF expect = "stream" /\ ~Dev("ZeroOverwrites")
               THEN deferred' = TRUE /\ UNCHANGED expect
               ELSE expect' = "zero" /\ UNCHANGED deferred
            /\ UNCHANGED <<nextf, curf, curleft, wu, rst, kern, tail, garbled>>

\* RST_STREAM from the peer for the stream whose frame sits in kawa.out.  The frames already prepared for the wire
\* were accounted against the peer's windows and must still go out whole (the peer ignores them): nothing changes
\* for the writer.  DEVIATION (open): handle_rst_stream_frame -> remove_dead_stream drops them, half-written or not.
Peer_Reset == /\ CanHandle /\ curf # 0 /\ nev' = nev + 1 /\ zero' = <<>>
              /\ IF Dev("ResetDropsFrameTail")
                 THEN curf' = 0 /\ curleft' = 0 /\ expect' = (IF expect = "stream" THEN "none" ELSE expect)
                 ELSE UNCHANGED <<curf, curleft, expect>>
              /\ UNCHANGED <<nextf, deferred, wu, rst, rint, kern, tail, garbled, nc>>

Next == Mux_Writable \/ Peer_Read \/ Peer_Partial \/ Peer_Data \/ Peer_Bad \/ Peer_Ctl \/ Peer_Reset
Spec == Init /\ [][Next]_vars
FairSpec == Spec /\ WF_vars(Mux_Writable) /\ WF_vars(Peer_Read)

-----------------------------------------------------------------------------
TypeOK ==
  /\ nextf \in 1..NFrames + 1 /\ curf \in 0..NFrames /\ curleft \in 0..FParts
  /\ expect \in {"none", "zero", "stream"} /\ kern \in 0..Room /\ nc \in Nat /\ nev \in 0..MaxEvents
  /\ {deferred, wu, rst, rint, garbled} \subseteq BOOLEAN

\* THE property: sozu's output on the connection is a sequence of whole frames - the parts of a frame are contiguous
\* and nothing that was received is ever written back
P_WholeFrames == ~garbled

\* the marker and the buffers agree (what a mux_ready_exit snapshot can see of it): control output is only marked
\* for writing when no stream frame is half-written; a deferred answer keeps the reads parked
P_Markers ==
  /\ expect = "stream" <=> curf # 0
  /\ expect = "zero" => zero # <<>> /\ curf = 0
  /\ deferred => expect = "stream" /\ ~rint /\ zero # <<>>
HalfWritten == curf # 0 /\ curleft < FParts

\* liveness (a reading peer, a scheduled writer): every frame goes out, queued control frames too, reads resume
P_AllWritten == <>[](nextf = NFrames + 1 /\ curf = 0 /\ zero \in {<<>>, <<InPart>>} /\ ~wu /\ ~rst /\ rint)

\* vacuity guard: the situation the module is about is reachable (TLC must find a counterexample to its negation)
NeverBlockedWithControl == ~(HalfWritten /\ (wu \/ rst \/ deferred))
=============================================================================
