//! C02 exchange kit: fault scenarios executed against a real sozu worker.
//!
//! * `Rig`       - a worker thread with one HTTP and one HTTPS listener whose four timeouts are 1-2 s
//! * scripted backends (HTTP/1.1 and h2c): refuse (bound, not listening), never accept, serve and cut the
//!   response at a byte offset then close / reset (SO_LINGER 0) / stall / write garbage / RST_STREAM
//! * scripted clients (HTTP/1.1 keep-alive or pipelined; TLS + HTTP/2 streams) recording, for EVERY request,
//!   status, framing, body bytes (checked against the per-request pattern), completion or abort, timings
//!
//! Events of every observer (client, each backend connection) are recorded with a per-observer sequence
//! number and the request id; nothing is merged by wall clock.

use std::io::{Read, Write};
use std::net::{SocketAddr, TcpListener, TcpStream};
use std::os::unix::io::AsRawFd;
use std::sync::atomic::{AtomicBool, AtomicUsize, Ordering};
use std::sync::{Arc, Mutex};
use std::thread::JoinHandle;
use std::time::{Duration, Instant};

use serde_json::{json, Value};
use sozu_command_lib::config::ListenerBuilder;
use sozu_command_lib::proto::command::{
    request::RequestType, ActivateListener, AddCertificate, CertificateAndKey, Cluster, ListenerType, RedirectPolicy,
};

use crate::h2::*;
use crate::worker::{free_addr, ok, Worker, LOCAL_CERT, LOCAL_KEY};

pub const UNIT: usize = 48;
pub const FRONT_TIMEOUT_S: u32 = 2;
pub const BACK_TIMEOUT_S: u32 = 1;
pub const CONNECT_TIMEOUT_S: u32 = 1;
pub const REQUEST_TIMEOUT_S: u32 = 1;

// ------------------------------------------------------------------------------------------------
// scenario

#[derive(Clone, Debug)]
pub struct ReqSpec {
    /// a | b | noroute | deny | redirect | nobackend | iplimit | wrongcert | partial
    pub route: String,
    /// cl | chunked | close   (h2c backends: cl = content-length present, anything else = absent)
    pub framing: String,
    pub body: usize,
    /// none | refuse | close | reset | garbage | stall | rststream
    pub fault: String,
    /// accept | prehdr | midhdr | posthdr | midbody | between
    pub at: String,
    /// concretisation index of the abstract offset
    pub k: usize,
    /// explicit byte offset (random driver); overrides at/k for the cut position when present
    pub off: Option<usize>,
    /// none | sep | same: a `103 Early Hints` before the final response, in its own segment (100 ms earlier) or in
    /// the same write as the head of the final response
    pub interim: String,
    /// fault goaway: last_stream_id below | equal | above the stream of this request
    pub lsid: String,
    /// the fault is separated from the bytes before it by a pause (sozu reads them in separate passes); otherwise
    /// bytes and fault leave in one go (close: one segment carrying data + FIN)
    pub split: bool,
    /// mode newconn: pause of the client before it sends this request on its new connection
    pub gap_ms: u64,
}

impl Default for ReqSpec {
    fn default() -> Self {
        ReqSpec { route: "a".into(), framing: "cl".into(), body: 1, fault: "none".into(), at: "none".into(), k: 0, off: None,
                  interim: "none".into(), lsid: "na".into(), split: false, gap_ms: 0 }
    }
}

#[derive(Clone, Debug)]
pub struct Scenario {
    pub id: u64,
    pub front: String, // h1 | h2
    pub back: String,  // h1 | h2
    pub mode: String,  // seq | seqgap | pipe | mux | newconn (every request on its own frontend connection)
    pub nbk: usize,    // backends of cluster a: 1 or 2 (second one healthy)
    /// bf = listeners with back_timeout 1 s < front_timeout 2 s; ff = front_timeout 1 s < back_timeout 2 s
    pub timing: String,
    /// mux mode: pause between the HEADERS of consecutive streams (0 = back to back)
    pub gap_ms: u64,
    pub reqs: Vec<ReqSpec>,
    /// (not serialised) the requests [lo, hi) this client connection carries (mode newconn)
    pub sel: Option<(usize, usize)>,
}

fn gs(v: &Value, k: &str, d: &str) -> String { v.get(k).and_then(|x| x.as_str()).unwrap_or(d).to_string() }
fn gu(v: &Value, k: &str, d: u64) -> u64 { v.get(k).and_then(|x| x.as_u64()).unwrap_or(d) }

impl Scenario {
    pub fn from_json(v: &Value) -> Scenario {
        // TLC prints sequences as JSON arrays; a record with integer-like keys is not used here
        let reqs = v.get("reqs").and_then(|x| x.as_array()).cloned().unwrap_or_default();
        Scenario {
            id: gu(v, "id", 0),
            front: gs(v, "front", "h1"),
            back: gs(v, "back", "h1"),
            mode: gs(v, "mode", "seq"),
            nbk: gu(v, "nbk", 1) as usize,
            timing: gs(v, "timing", "bf"),
            gap_ms: gu(v, "gap_ms", 0),
            reqs: reqs
                .iter()
                .map(|r| ReqSpec {
                    route: gs(r, "route", "a"),
                    framing: gs(r, "framing", "cl"),
                    body: gu(r, "body", 1) as usize,
                    fault: gs(r, "fault", "none"),
                    at: gs(r, "at", "none"),
                    k: gu(r, "k", 0) as usize,
                    off: r.get("off").and_then(|x| x.as_u64()).map(|x| x as usize),
                    interim: gs(r, "interim", "none"),
                    lsid: gs(r, "lsid", "na"),
                    split: r.get("split").and_then(|x| x.as_bool()).unwrap_or(false),
                    gap_ms: gu(r, "gap_ms", 0),
                })
                .collect(),
            sel: None,
        }
    }
    pub fn to_json(&self) -> Value {
        json!({"id": self.id, "front": self.front, "back": self.back, "mode": self.mode, "nbk": self.nbk, "timing": self.timing, "gap_ms": self.gap_ms,
               "reqs": self.reqs.iter().map(|r| json!({"route": r.route, "framing": r.framing, "body": r.body,
                    "fault": r.fault, "at": r.at, "k": r.k, "off": r.off, "interim": r.interim, "lsid": r.lsid,
                    "split": r.split, "gap_ms": r.gap_ms})).collect::<Vec<_>>()})
    }
}

pub fn unit_bytes(req: usize, unit: usize) -> Vec<u8> {
    let mut s = format!("<r{req}u{unit}:").into_bytes();
    let mut i = 0u8;
    while s.len() < UNIT - 1 {
        s.push(b'a' + ((i as usize + req * 7 + unit * 3) % 26) as u8);
        i = i.wrapping_add(1);
    }
    s.push(b'>');
    s
}

pub fn full_body(req: usize, units: usize) -> Vec<u8> {
    let mut b = Vec::new();
    for u in 0..units { b.extend_from_slice(&unit_bytes(req, u)); }
    b
}

// ------------------------------------------------------------------------------------------------
// event log (per observer sequence numbers)

#[derive(Clone, Default)]
pub struct Log {
    inner: Arc<Mutex<Vec<Value>>>,
}

impl Log {
    pub fn push(&self, obs: &str, mut ev: Value) {
        let mut g = self.inner.lock().unwrap();
        let seq = g.iter().filter(|e| e["obs"] == obs).count();
        ev["obs"] = json!(obs);
        ev["seq"] = json!(seq);
        g.push(ev);
    }
    pub fn take(&self) -> Vec<Value> { std::mem::take(&mut *self.inner.lock().unwrap()) }
    pub fn snapshot(&self) -> Vec<Value> { self.inner.lock().unwrap().clone() }
}

// ------------------------------------------------------------------------------------------------
// rig: worker + listeners

pub struct Rig {
    pub worker: Worker,
    pub http: SocketAddr,
    pub https: SocketAddr,
    /// the "front first" listeners: front_timeout 1 s, back_timeout 2 s
    pub http_ff: SocketAddr,
    pub https_ff: SocketAddr,
}

pub fn start_rig(name: &str) -> Result<Rig, String> {
    let t = Duration::from_secs(20);
    let cfg = crate::worker::server_config(|fc| {
        fc.max_buffers = Some(20_000);
        fc.min_buffers = Some(1);
        fc.max_connections = Some(8_000);
    });
    let mut w = Worker::start(name, cfg, &sozu_command_lib::scm_socket::Listeners::default(), sozu_command_lib::state::ConfigState::new());
    let mut addrs = Vec::new();
    for (ft, bt) in [(FRONT_TIMEOUT_S, BACK_TIMEOUT_S), (BACK_TIMEOUT_S, FRONT_TIMEOUT_S)] {
        let http = free_addr();
        let https = free_addr();
        let set = |b: &mut ListenerBuilder| {
            b.front_timeout = Some(ft);
            b.back_timeout = Some(bt);
            b.connect_timeout = Some(bt);
            b.request_timeout = Some(REQUEST_TIMEOUT_S);
        };
        let mut b = ListenerBuilder::new_http(http.into());
        set(&mut b);
        let l = b.to_http(None).map_err(|e| format!("http listener: {e}"))?;
        let r1 = w.request(RequestType::AddHttpListener(l), t);
        let r2 = w.request(RequestType::ActivateListener(ActivateListener { address: http.into(), proxy: ListenerType::Http.into(), from_scm: false }), t);
        let mut b = ListenerBuilder::new_https(https.into());
        set(&mut b);
        let l = b.to_tls(None).map_err(|e| format!("https listener: {e}"))?;
        let r3 = w.request(RequestType::AddHttpsListener(l), t);
        let r4 = w.request(RequestType::ActivateListener(ActivateListener { address: https.into(), proxy: ListenerType::Https.into(), from_scm: false }), t);
        let r5 = w.request(
            RequestType::AddCertificate(AddCertificate {
                address: https.into(),
                certificate: CertificateAndKey { certificate: LOCAL_CERT.to_string(), key: LOCAL_KEY.to_string(), certificate_chain: vec![], versions: vec![], names: vec![] },
                expired_at: None,
            }),
            t,
        );
        if !(ok(&r1) && ok(&r2) && ok(&r3) && ok(&r4) && ok(&r5)) {
            return Err(format!("rig setup failed {:?}", [ok(&r1), ok(&r2), ok(&r3), ok(&r4), ok(&r5)]));
        }
        addrs.push((http, https));
    }
    Ok(Rig { worker: w, http: addrs[0].0, https: addrs[0].1, http_ff: addrs[1].0, https_ff: addrs[1].1 })
}

pub struct ScnEnv {
    pub front: SocketAddr,
    pub backends: Vec<Backend>,
    pub log: Log,
    /// set by the scripted backend of cluster a once sozu has closed a connection the backend had closed first
    pub peer_closed: Arc<AtomicUsize>,
    /// a backend that refuses connections until the client tells it to recover: (recover!, listening)
    pub recover: Option<(Arc<AtomicBool>, Arc<AtomicBool>)>,
}

impl ScnEnv {
    /// The refusing backend of cluster a starts listening (no-op when the scenario has none); waits until it does.
    pub fn recover_backend(&self) {
        if let Some((go, up)) = &self.recover {
            if !go.swap(true, Ordering::SeqCst) { self.log.push("client", json!({"ev": "B_Recover"})); }
            let until = Instant::now() + Duration::from_secs(5);
            while !up.load(Ordering::SeqCst) && Instant::now() < until { std::thread::sleep(Duration::from_millis(2)); }
        }
    }
}

impl Rig {
    /// Configure clusters, frontends and backends of one scenario (path-prefix routing under /s<id>/...).
    pub fn setup(&mut self, scn: &Scenario) -> Result<ScnEnv, String> {
        let t = Duration::from_secs(20);
        let h2front = scn.front == "h2";
        let ff = scn.timing == "ff";
        let front = match (h2front, ff) { (true, false) => self.https, (false, false) => self.http, (true, true) => self.https_ff, (false, true) => self.http_ff };
        let h2back = scn.back == "h2";
        let log = Log::default();
        let peer_closed = Arc::new(AtomicUsize::new(0));
        let id = scn.id;
        let mut reqs: Vec<(String, RequestType)> = Vec::new();
        let cluster = |name: &str| Cluster { cluster_id: name.to_string(), http2: Some(h2back), ..Default::default() };
        let mut add_front = |reqs: &mut Vec<(String, RequestType)>, cl: Option<String>, seg: &str, redirect: Option<RedirectPolicy>| {
            let mut f = Worker::http_frontend("x", front, "localhost", &format!("/s{id}/{seg}/"));
            f.cluster_id = cl;
            if let Some(r) = redirect { f.redirect = Some(r as i32); }
            reqs.push((format!("front {seg}"), if h2front { RequestType::AddHttpsFrontend(f) } else { RequestType::AddHttpFrontend(f) }));
        };
        let routes: Vec<&str> = scn.reqs.iter().map(|r| r.route.as_str()).collect();
        let scripts = Arc::new(scn.reqs.clone());
        let mut backends = Vec::new();
        let mut recover = None;
        if routes.iter().any(|r| *r == "a" || *r == "partial") {
            let ca = format!("s{id}a");
            reqs.push(("cluster a".into(), RequestType::AddCluster(cluster(&ca))));
            add_front(&mut reqs, Some(ca.clone()), "a", None);
            let mode = scn
                .reqs
                .iter()
                .filter(|r| r.route == "a" && r.at == "accept")
                .map(|r| if r.fault == "refuse" { BkMode::Refuse } else { BkMode::NeverAccept })
                .next()
                .unwrap_or(BkMode::Serve);
            // mode newconn: the backend refuses while the requests scripted "refuse" are sent, then recovers
            let mode = if mode == BkMode::Refuse && scn.mode == "newconn" && scn.reqs.iter().any(|r| r.route == "a" && r.fault != "refuse") { BkMode::RefuseThenServe } else { mode };
            let b1 = Backend::start("bk1", h2back, mode, scripts.clone(), false, log.clone(), peer_closed.clone())?;
            if mode == BkMode::RefuseThenServe { recover = Some((b1.recover.clone(), b1.listening.clone())); }
            reqs.push(("backend 1".into(), RequestType::AddBackend(Worker::backend(&ca, "b1", b1.addr))));
            backends.push(b1);
            if scn.nbk >= 2 {
                let b3 = Backend::start("bk3", h2back, BkMode::Serve, scripts.clone(), true, log.clone(), peer_closed.clone())?;
                reqs.push(("backend 3".into(), RequestType::AddBackend(Worker::backend(&ca, "b3", b3.addr))));
                backends.push(b3);
            }
        }
        if routes.iter().any(|r| *r == "b") {
            let cb = format!("s{id}b");
            reqs.push(("cluster b".into(), RequestType::AddCluster(cluster(&cb))));
            add_front(&mut reqs, Some(cb.clone()), "b", None);
            let b2 = Backend::start("bk2", h2back, BkMode::Serve, scripts.clone(), true, log.clone(), peer_closed.clone())?;
            reqs.push(("backend 2".into(), RequestType::AddBackend(Worker::backend(&cb, "b2", b2.addr))));
            backends.push(b2);
        }
        if routes.contains(&"deny") {
            add_front(&mut reqs, None, "deny", None);
        }
        if routes.contains(&"redirect") {
            add_front(&mut reqs, None, "redirect", Some(RedirectPolicy::Permanent));
        }
        if routes.contains(&"nobackend") {
            let cn = format!("s{id}n");
            reqs.push(("cluster n".into(), RequestType::AddCluster(cluster(&cn))));
            add_front(&mut reqs, Some(cn), "nobackend", None);
        }
        if routes.contains(&"iplimit") {
            let cl = format!("s{id}l");
            let mut c = cluster(&cl);
            c.max_connections_per_ip = Some(1);
            reqs.push(("cluster l".into(), RequestType::AddCluster(c)));
            add_front(&mut reqs, Some(cl.clone()), "iplimit", None);
            // serves the connection that holds the per-IP slot: always framed, so that the connection stays alive
            let framed: Arc<Vec<ReqSpec>> = Arc::new(scn.reqs.iter().map(|r| ReqSpec { framing: "cl".into(), fault: "none".into(), at: "none".into(), off: None, ..r.clone() }).collect());
            let b4 = Backend::start("bk4", h2back, BkMode::Serve, framed, true, log.clone(), peer_closed.clone())?;
            reqs.push(("backend 4".into(), RequestType::AddBackend(Worker::backend(&cl, "b4", b4.addr))));
            backends.push(b4);
        }
        for (what, rt) in reqs {
            let r = self.worker.request(rt, t);
            if !ok(&r) {
                return Err(format!("scenario {id}: {what} not accepted: {:?}", r.map(|r| r.message)));
            }
        }
        Ok(ScnEnv { front, backends, log, peer_closed, recover })
    }
}

// ------------------------------------------------------------------------------------------------
// scripted backends

#[derive(Clone, Copy, Debug, PartialEq)]
pub enum BkMode { Refuse, NeverAccept, Serve, RefuseThenServe }

pub struct Backend {
    pub name: String,
    pub addr: SocketAddr,
    stop: Arc<AtomicBool>,
    thread: Option<JoinHandle<()>>,
    raw_fd: Option<i32>,
    _hold: Option<TcpListener>,
    pub recover: Arc<AtomicBool>,
    pub listening: Arc<AtomicBool>,
}

impl Drop for Backend {
    fn drop(&mut self) {
        self.stop.store(true, Ordering::SeqCst);
        if let Some(t) = self.thread.take() { let _ = t.join(); }
        if let Some(fd) = self.raw_fd.take() { unsafe { libc::close(fd); } }
    }
}

/// A TCP socket bound to a free localhost port but NOT listening: connections are refused (RST) and the
/// port stays reserved for the duration of the scenario.
fn bound_not_listening() -> Result<(i32, SocketAddr), String> {
    for _ in 0..50 {
        let addr = free_addr();
        unsafe {
            let fd = libc::socket(libc::AF_INET, libc::SOCK_STREAM | libc::SOCK_CLOEXEC, 0);
            if fd < 0 { return Err("socket()".into()); }
            let sa = libc::sockaddr_in {
                sin_family: libc::AF_INET as u16,
                sin_port: addr.port().to_be(),
                sin_addr: libc::in_addr { s_addr: u32::from_ne_bytes([127, 0, 0, 1]) },
                sin_zero: [0; 8],
            };
            if libc::bind(fd, &sa as *const _ as *const libc::sockaddr, std::mem::size_of::<libc::sockaddr_in>() as u32) == 0 {
                return Ok((fd, addr));
            }
            libc::close(fd);
        }
    }
    Err("no port for a refusing backend".into())
}

/// TCP_CORK: what is written stays in the socket until the cork is pulled or the socket is shut down, so that
/// the last bytes and the FIN leave in ONE segment (the peer gets data and end-of-stream in one read).
fn set_cork(s: &TcpStream, on: bool) {
    let v: libc::c_int = if on { 1 } else { 0 };
    unsafe {
        libc::setsockopt(s.as_raw_fd(), libc::IPPROTO_TCP, libc::TCP_CORK, &v as *const _ as *const libc::c_void, std::mem::size_of::<libc::c_int>() as u32);
    }
}

pub const INTERIM_H1: &[u8] = b"HTTP/1.1 103 Early Hints\r\nLink: </style.css>; rel=preload; as=style\r\n\r\n";
const SPLIT_PAUSE: Duration = Duration::from_millis(120);

fn set_linger0(s: &TcpStream) {
    let l = libc::linger { l_onoff: 1, l_linger: 0 };
    unsafe {
        libc::setsockopt(s.as_raw_fd(), libc::SOL_SOCKET, libc::SO_LINGER, &l as *const _ as *const libc::c_void, std::mem::size_of::<libc::linger>() as u32);
    }
}

impl Backend {
    pub fn start(name: &str, h2: bool, mode: BkMode, scripts: Arc<Vec<ReqSpec>>, healthy: bool, log: Log, peer_closed: Arc<AtomicUsize>) -> Result<Backend, String> {
        let stop = Arc::new(AtomicBool::new(false));
        let recover = Arc::new(AtomicBool::new(false));
        let listening = Arc::new(AtomicBool::new(false));
        if mode == BkMode::Refuse {
            let (fd, addr) = bound_not_listening()?;
            log.push(name, json!({"ev": "B_Refuse", "bk": name}));
            return Ok(Backend { name: name.into(), addr, stop, thread: None, raw_fd: Some(fd), _hold: None, recover, listening });
        }
        if mode == BkMode::RefuseThenServe {
            // bound, not listening (connections are refused) until the client says so; then an ordinary backend
            let (fd, addr) = bound_not_listening()?;
            log.push(name, json!({"ev": "B_Refuse", "bk": name}));
            let (stop2, rec2, up2, bname) = (stop.clone(), recover.clone(), listening.clone(), name.to_string());
            let thread = std::thread::spawn(move || {
                while !rec2.load(Ordering::SeqCst) {
                    if stop2.load(Ordering::SeqCst) { unsafe { libc::close(fd); } return; }
                    std::thread::sleep(Duration::from_millis(2));
                }
                let l = unsafe {
                    libc::listen(fd, 128);
                    <TcpListener as std::os::unix::io::FromRawFd>::from_raw_fd(fd)
                };
                let _ = l.set_nonblocking(true);
                up2.store(true, Ordering::SeqCst);
                accept_loop(l, h2, bname, scripts, healthy, log, stop2, peer_closed);
            });
            return Ok(Backend { name: name.into(), addr, stop, thread: Some(thread), raw_fd: None, _hold: None, recover, listening });
        }
        let mut listener = None;
        let mut addr = free_addr();
        for _ in 0..50 {
            match TcpListener::bind(addr) {
                Ok(l) => { listener = Some(l); break; }
                Err(_) => addr = free_addr(),
            }
        }
        let listener = listener.ok_or("no port for a backend")?;
        if mode == BkMode::NeverAccept {
            log.push(name, json!({"ev": "B_Stall", "bk": name, "at": "accept"}));
            return Ok(Backend { name: name.into(), addr, stop, thread: None, raw_fd: None, _hold: Some(listener), recover, listening });
        }
        listener.set_nonblocking(true).map_err(|e| e.to_string())?;
        let stop2 = stop.clone();
        let bname = name.to_string();
        listening.store(true, Ordering::SeqCst);
        let thread = std::thread::spawn(move || accept_loop(listener, h2, bname, scripts, healthy, log, stop2, peer_closed));
        Ok(Backend { name: name.into(), addr, stop, thread: Some(thread), raw_fd: None, _hold: None, recover, listening })
    }
}

#[allow(clippy::too_many_arguments)]
fn accept_loop(listener: TcpListener, h2: bool, bname: String, scripts: Arc<Vec<ReqSpec>>, healthy: bool, log: Log, stop2: Arc<AtomicBool>, peer_closed: Arc<AtomicUsize>) {
    let mut conns: Vec<JoinHandle<()>> = Vec::new();
    let mut n = 0usize;
    while !stop2.load(Ordering::SeqCst) {
        match listener.accept() {
            Ok((s, _)) => {
                n += 1;
                let obs = format!("{bname}c{n}");
                log.push(&obs, json!({"ev": "B_Accept", "bk": bname, "conn": n}));
                let (scripts, log, stop3, pc, bname2) = (scripts.clone(), log.clone(), stop2.clone(), peer_closed.clone(), bname.clone());
                conns.push(std::thread::spawn(move || {
                    let _ = s.set_nonblocking(false);
                    let _ = s.set_nodelay(true);
                    if h2 { serve_h2(s, &bname2, &obs, &scripts, healthy, &log, &stop3, &pc) } else { serve_h1(s, &bname2, &obs, &scripts, healthy, &log, &stop3, &pc) }
                }));
            }
            Err(_) => std::thread::sleep(Duration::from_millis(2)),
        }
    }
    for c in conns { let _ = c.join(); }
}

pub fn h1_response(idx: usize, spec: &ReqSpec) -> (Vec<u8>, usize) {
    let body = full_body(idx, spec.body);
    let mut r = Vec::new();
    match spec.framing.as_str() {
        "chunked" => {
            r.extend_from_slice(format!("HTTP/1.1 200 OK\r\nTransfer-Encoding: chunked\r\nX-Req: r{idx}\r\n\r\n").as_bytes());
            let head = r.len();
            for u in 0..spec.body {
                r.extend_from_slice(format!("{:x}\r\n", UNIT).as_bytes());
                r.extend_from_slice(&unit_bytes(idx, u));
                r.extend_from_slice(b"\r\n");
            }
            r.extend_from_slice(b"0\r\n\r\n");
            (r, head)
        }
        "close" => {
            r.extend_from_slice(format!("HTTP/1.1 200 OK\r\nConnection: close\r\nX-Req: r{idx}\r\n\r\n").as_bytes());
            let head = r.len();
            r.extend_from_slice(&body);
            (r, head)
        }
        "clclose" => {
            // framed by content-length AND announcing that the backend closes the connection behind it
            r.extend_from_slice(format!("HTTP/1.1 200 OK\r\nContent-Length: {}\r\nConnection: close\r\nX-Req: r{idx}\r\n\r\n", body.len()).as_bytes());
            let head = r.len();
            r.extend_from_slice(&body);
            (r, head)
        }
        _ => {
            r.extend_from_slice(format!("HTTP/1.1 200 OK\r\nContent-Length: {}\r\nX-Req: r{idx}\r\n\r\n", body.len()).as_bytes());
            let head = r.len();
            r.extend_from_slice(&body);
            (r, head)
        }
    }
}

/// Concretisation of the abstract fault offset: byte position at which the response is cut.
pub fn cut_offset(spec: &ReqSpec, total: usize, head: usize, h2_first_data_end: Option<usize>) -> usize {
    if let Some(o) = spec.off { return o.min(total); }
    let body = total - head;
    match spec.at.as_str() {
        "prehdr" | "accept" => 0,
        "midhdr" => [4usize, 26.min(head - 3), head - 2, head / 2][spec.k % 4].min(head - 1).max(1),
        "posthdr" => head,
        "midbody" => {
            if body == 0 { return head; }
            match spec.k % 4 {
                0 => head + 1,
                // (on an h2c backend half of a two-unit body is exactly a frame boundary: step into the next frame)
                1 => match h2_first_data_end { Some(e) if e < total => e + 4, _ => head + body / 2 },
                // everything but the terminator: last byte of a content-length body, or all the data of a
                // chunked body without its last-chunk
                2 => if spec.framing == "chunked" && h2_first_data_end.is_none() { total - 5 } else { total - 1 },
                _ => h2_first_data_end.filter(|e| *e < total).unwrap_or(head + body / 3 + 1),
            }
        }
        _ => total,
    }
}

fn wait_stop(stop: &AtomicBool, s: &mut TcpStream) {
    // hold the connection open (discarding input) until the scenario is over
    let _ = s.set_read_timeout(Some(Duration::from_millis(20)));
    let mut tmp = [0u8; 4096];
    while !stop.load(Ordering::SeqCst) {
        match s.read(&mut tmp) {
            Ok(0) => { std::thread::sleep(Duration::from_millis(10)); }
            _ => {}
        }
    }
}

fn close_and_wait_peer(mut s: TcpStream, stop: &AtomicBool, log: &Log, obs: &str, pc: &AtomicUsize) {
    let _ = s.shutdown(std::net::Shutdown::Write);
    let _ = s.set_read_timeout(Some(Duration::from_millis(20)));
    let mut tmp = [0u8; 4096];
    while !stop.load(Ordering::SeqCst) {
        match s.read(&mut tmp) {
            Ok(0) => {
                log.push(obs, json!({"ev": "B_PeerClosed"}));
                pc.fetch_add(1, Ordering::SeqCst);
                return;
            }
            Ok(_) => {}
            Err(e) if e.kind() == std::io::ErrorKind::WouldBlock || e.kind() == std::io::ErrorKind::TimedOut => {}
            Err(_) => {
                log.push(obs, json!({"ev": "B_PeerClosed"}));
                pc.fetch_add(1, Ordering::SeqCst);
                return;
            }
        }
    }
}

fn req_index(path: &str) -> Option<usize> {
    let seg = path.rsplit('/').next()?;
    seg.strip_prefix('r')?.parse().ok()
}

const GARBAGE: &[u8] = b"\x00\xff\xfeGARBAGE GARBAGE\x01\x02 not http at all\r\n\r\n\x7f\x7f\x7f";

#[allow(clippy::too_many_arguments)]
fn serve_h1(mut s: TcpStream, bk: &str, obs: &str, scripts: &[ReqSpec], healthy: bool, log: &Log, stop: &AtomicBool, pc: &AtomicUsize) {
    let _ = s.set_read_timeout(Some(Duration::from_millis(20)));
    let mut buf: Vec<u8> = Vec::new();
    let mut tmp = [0u8; 8192];
    loop {
        let head_end = loop {
            if let Some(p) = find(&buf, b"\r\n\r\n") { break p + 4; }
            if stop.load(Ordering::SeqCst) { return; }
            match s.read(&mut tmp) {
                Ok(0) => { log.push(obs, json!({"ev": "B_PeerEof", "bk": bk})); return; }
                Ok(n) => buf.extend_from_slice(&tmp[..n]),
                Err(e) if e.kind() == std::io::ErrorKind::WouldBlock || e.kind() == std::io::ErrorKind::TimedOut => {}
                Err(_) => { log.push(obs, json!({"ev": "B_PeerEof", "bk": bk, "err": true})); return; }
            }
        };
        let head = String::from_utf8_lossy(&buf[..head_end]).to_string();
        buf.drain(..head_end);
        let path = head.split_whitespace().nth(1).unwrap_or("").to_string();
        let Some(idx) = req_index(&path).filter(|i| *i < scripts.len()) else {
            log.push(obs, json!({"ev": "B_BadReq", "bk": bk, "head": head}));
            return;
        };
        log.push(obs, json!({"ev": "B_Req", "bk": bk, "r": idx}));
        let mut spec = scripts[idx].clone();
        if healthy && spec.fault != "slow" && spec.fault != "drip" { spec.fault = "none".into(); spec.at = "none".into(); spec.off = None; }
        if spec.fault == "slow" {
            // a healthy but slow backend: answers after 300 ms (well below every timeout)
            std::thread::sleep(Duration::from_millis(300));
            spec.fault = "none".into();
            spec.at = "none".into();
        }
        let (resp, hlen) = h1_response(idx, &spec);
        if spec.fault == "drip" {
            // healthy but slow: head at once, then one body unit every 400 ms (each pause is well below every
            // timeout, the whole answer takes longer than the backend timeout). A pause that the machine
            // stretched beyond 800 ms is reported (B_Slow): the run cannot tell slowness from a defect then.
            let per = if spec.framing == "chunked" { UNIT + 6 } else { UNIT };
            let mut pos = hlen;
            let mut okw = s.write_all(&resp[..hlen]).is_ok();
            log.push(obs, json!({"ev": "B_Send", "bk": bk, "r": idx, "bytes": hlen, "head": hlen, "total": resp.len(), "units": 0}));
            let mut u = 0;
            while okw && pos < resp.len() {
                let t0 = Instant::now();
                std::thread::sleep(Duration::from_millis(400));
                let end = if pos + per >= resp.len() || u + 1 == spec.body { resp.len() } else { pos + per };
                okw = s.write_all(&resp[pos..end]).is_ok();
                if t0.elapsed() > Duration::from_millis(800) { log.push(obs, json!({"ev": "B_Slow", "bk": bk, "r": idx, "gap_ms": t0.elapsed().as_millis() as u64})); }
                pos = end;
                u += 1;
                log.push(obs, json!({"ev": "B_Send", "bk": bk, "r": idx, "bytes": pos, "head": hlen, "total": resp.len(), "units": u}));
            }
            if !okw { log.push(obs, json!({"ev": "B_WriteErr", "bk": bk, "r": idx})); return; }
            if spec.framing == "close" || spec.framing == "clclose" { close_and_wait_peer(s, stop, log, obs, pc); return; }
            continue;
        }
        let faulty = spec.fault != "none" && spec.at != "between";
        let cut = if faulty { cut_offset(&spec, resp.len(), hlen, None) } else { resp.len() };
        // an interim response first: in its own segment, or in the same write as what follows
        let mut first: Vec<u8> = Vec::new();
        if spec.interim != "none" {
            first.extend_from_slice(INTERIM_H1);
            log.push(obs, json!({"ev": "B_Interim", "bk": bk, "r": idx, "how": spec.interim}));
            if spec.interim == "sep" || cut == 0 {
                if s.write_all(&first).is_err() { log.push(obs, json!({"ev": "B_WriteErr", "bk": bk, "r": idx})); return; }
                first.clear();
                std::thread::sleep(Duration::from_millis(100));
            }
        }
        first.extend_from_slice(&resp[..cut]);
        // bytes and close in one go: one segment carrying the data and the FIN
        let fused_close = !spec.split && ((faulty && spec.fault == "close") || (!faulty && (spec.framing == "clclose" || spec.framing == "close")));
        if fused_close { set_cork(&s, true); }
        if !first.is_empty() {
            if s.write_all(&first).and_then(|_| s.flush()).is_err() {
                log.push(obs, json!({"ev": "B_WriteErr", "bk": bk, "r": idx}));
                return;
            }
        }
        log.push(obs, json!({"ev": "B_Send", "bk": bk, "r": idx, "bytes": cut, "head": hlen, "total": resp.len(),
                              "units": if cut >= hlen { body_units_in(&spec, cut - hlen) } else { 0 }}));
        if spec.split && (faulty || spec.framing == "clclose" || spec.framing == "close") { std::thread::sleep(SPLIT_PAUSE); }
        if faulty {
            log.push(obs, json!({"ev": "B_Fault", "bk": bk, "r": idx, "kind": spec.fault, "at": spec.at}));
            match spec.fault.as_str() {
                "close" => { close_and_wait_peer(s, stop, log, obs, pc); return; }
                "reset" => { set_linger0(&s); drop(s); return; }
                "garbage" => {
                    // k odd: let sozu relay what was sent so far before the garbage arrives
                    if spec.k % 2 == 1 { std::thread::sleep(Duration::from_millis(120)); }
                    let _ = s.write_all(GARBAGE);
                    wait_stop(stop, &mut s);
                    return;
                }
                _ => { wait_stop(stop, &mut s); return; }
            }
        }
        if spec.framing == "close" || spec.framing == "clclose" {
            close_and_wait_peer(s, stop, log, obs, pc);
            return;
        }
        if spec.fault != "none" && spec.at == "between" {
            log.push(obs, json!({"ev": "B_Fault", "bk": bk, "r": idx, "kind": spec.fault, "at": spec.at}));
            if spec.fault == "reset" {
                // let the response leave first: an RST may discard unread data on the peer
                std::thread::sleep(Duration::from_millis(150));
                set_linger0(&s);
                drop(s);
                pc.fetch_add(1, Ordering::SeqCst);
            } else {
                close_and_wait_peer(s, stop, log, obs, pc);
            }
            return;
        }
    }
}

fn body_units_in(spec: &ReqSpec, body_bytes: usize) -> usize {
    match spec.framing.as_str() {
        "chunked" => body_bytes / (UNIT + 6), // "30\r\n" + unit + "\r\n"
        _ => body_bytes / UNIT,
    }
}

fn find(h: &[u8], n: &[u8]) -> Option<usize> { h.windows(n.len()).position(|w| w == n) }

pub fn h2_response_frames(hp: &mut Hpack, sid: u32, idx: usize, spec: &ReqSpec) -> (Vec<u8>, usize, usize) {
    let body_len = (spec.body * UNIT).to_string();
    let xr = format!("r{idx}");
    // literal-without-indexing encoding: a header block that is cut or never sent must not leave state in a
    // dynamic table the peer never saw
    let _ = hp;
    let mut h: Vec<(&str, &str)> = vec![(":status", "200")];
    if spec.framing == "cl" { h.push(("content-length", body_len.as_str())); }
    h.push(("x-req", xr.as_str()));
    let block = crate::h2kit::hpack_block(&h);
    let mut out = Frame::headers(sid, block, true, spec.body == 0).encode();
    let hlen = out.len();
    let mut first_data_end = hlen;
    for u in 0..spec.body {
        out.extend_from_slice(&Frame::data(sid, unit_bytes(idx, u), u + 1 == spec.body).encode());
        if u == 0 { first_data_end = out.len(); }
    }
    (out, hlen, first_data_end)
}

#[allow(clippy::too_many_arguments)]
fn serve_h2(s: TcpStream, bk: &str, obs: &str, scripts: &[ReqSpec], healthy: bool, log: &Log, stop: &AtomicBool, pc: &AtomicUsize) {
    let raw = s.try_clone().ok();
    let mut c = H2Conn::new(s);
    if !c.read_client_preface(Duration::from_secs(10)) {
        log.push(obs, json!({"ev": "B_BadPreface", "bk": bk}));
        return;
    }
    c.send(&Frame::settings(&[]));
    let mut goaway_last: u32 = u32::MAX;
    loop {
        if stop.load(Ordering::SeqCst) { return; }
        let Some(f) = c.read_frame(Duration::from_millis(20)) else {
            if c.eof { log.push(obs, json!({"ev": "B_PeerEof", "bk": bk})); return; }
            continue;
        };
        match f.ty {
            SETTINGS if f.flags & FLAG_ACK == 0 => { c.send(&Frame::settings_ack()); }
            PING if f.flags & FLAG_ACK == 0 => { let mut d = [0u8; 8]; d.copy_from_slice(&f.payload[..8]); c.send(&Frame::ping(d, true)); }
            RST_STREAM => log.push(obs, json!({"ev": "B_GotRst", "bk": bk, "sid": f.sid, "code": f.u32_at(0)})),
            GOAWAY => log.push(obs, json!({"ev": "B_GotGoaway", "bk": bk, "code": f.u32_at(4)})),
            HEADERS => {
                let hs = c.hp.decode(&f.payload).unwrap_or_default();
                let path = hs.iter().find(|(k, _)| k == b":path").map(|(_, v)| String::from_utf8_lossy(v).to_string()).unwrap_or_default();
                let Some(idx) = req_index(&path).filter(|i| *i < scripts.len()) else {
                    log.push(obs, json!({"ev": "B_BadReq", "bk": bk, "head": path}));
                    return;
                };
                log.push(obs, json!({"ev": "B_Req", "bk": bk, "r": idx, "sid": f.sid, "es": f.end_stream()}));
                let mut spec = scripts[idx].clone();
                if healthy && spec.fault != "slow" && spec.fault != "drip" { spec.fault = "none".into(); spec.at = "none".into(); spec.off = None; }
                if spec.fault == "slow" {
                    std::thread::sleep(Duration::from_millis(300));
                    spec.fault = "none".into();
                    spec.at = "none".into();
                }
                let (resp, hlen, fde) = h2_response_frames(&mut c.hp, f.sid, idx, &spec);
                if spec.fault == "drip" {
                    let per = UNIT + 9;
                    let mut pos = hlen;
                    let mut okw = c.send_raw(&resp[..hlen]);
                    log.push(obs, json!({"ev": "B_Send", "bk": bk, "r": idx, "bytes": hlen, "head": hlen, "total": resp.len(), "units": 0}));
                    let mut u = 0;
                    while okw && pos < resp.len() {
                        let t0 = Instant::now();
                        std::thread::sleep(Duration::from_millis(400));
                        let end = (pos + per).min(resp.len());
                        okw = c.send_raw(&resp[pos..end]);
                        if t0.elapsed() > Duration::from_millis(800) { log.push(obs, json!({"ev": "B_Slow", "bk": bk, "r": idx, "gap_ms": t0.elapsed().as_millis() as u64})); }
                        pos = end;
                        u += 1;
                        log.push(obs, json!({"ev": "B_Send", "bk": bk, "r": idx, "bytes": pos, "head": hlen, "total": resp.len(), "units": u}));
                    }
                    if !okw { log.push(obs, json!({"ev": "B_WriteErr", "bk": bk, "r": idx})); return; }
                    continue;
                }
                if f.sid > goaway_last {
                    // a stream above the announced last_stream_id: a server that is shutting down ignores it
                    // (one at or below it - GOAWAY(2^31-1) is only a warning - is served like any other)
                    log.push(obs, json!({"ev": "B_ReqAfterGoaway", "bk": bk, "r": idx, "sid": f.sid}));
                    continue;
                }
                let mut first: Vec<u8> = Vec::new();
                if spec.interim != "none" {
                    first = Frame::headers(f.sid, crate::h2kit::hpack_block(&[(":status", "103"), ("link", "</style.css>; rel=preload; as=style")]), true, false).encode();
                    log.push(obs, json!({"ev": "B_Interim", "bk": bk, "r": idx, "how": spec.interim}));
                    if spec.interim == "sep" {
                        if !c.send_raw(&first) { log.push(obs, json!({"ev": "B_WriteErr", "bk": bk, "r": idx})); return; }
                        first.clear();
                        std::thread::sleep(Duration::from_millis(100));
                    }
                }
                if spec.fault == "goaway" {
                    // graceful shutdown (GOAWAY NO_ERROR) at a point of the stream's life; last_stream_id below the
                    // stream (it will NOT be processed: nothing more is sent for it), equal or above (it will)
                    let last = match spec.lsid.as_str() { "below" => f.sid.saturating_sub(2), "above" => 0x7fff_ffff, _ => f.sid };
                    let ga = Frame::goaway(last, 0).encode();
                    let cutg = match spec.at.as_str() { "prehdr" => 0, "posthdr" => hlen, _ => resp.len() };
                    let mut parts: Vec<Vec<u8>> = Vec::new();
                    let mut head = first.clone();
                    head.extend_from_slice(&resp[..cutg]);
                    log.push(obs, json!({"ev": "B_Fault", "bk": bk, "r": idx, "kind": "goaway", "at": spec.at, "last": last, "sid": f.sid}));
                    if spec.lsid == "below" {
                        head.extend_from_slice(&ga);
                        parts.push(head);
                    } else if spec.split {
                        if !head.is_empty() { parts.push(head); }
                        parts.push(ga);
                        if cutg < resp.len() { parts.push(resp[cutg..].to_vec()); }
                    } else {
                        head.extend_from_slice(&ga);
                        head.extend_from_slice(&resp[cutg..]);
                        parts.push(head);
                    }
                    for (pi, part) in parts.iter().enumerate() {
                        if pi > 0 { std::thread::sleep(SPLIT_PAUSE); }
                        if !c.send_raw(part) { log.push(obs, json!({"ev": "B_WriteErr", "bk": bk, "r": idx})); return; }
                    }
                    log.push(obs, json!({"ev": "B_Send", "bk": bk, "r": idx, "bytes": if spec.lsid == "below" { cutg } else { resp.len() }, "head": hlen, "total": resp.len(), "units": spec.body}));
                    goaway_last = last;
                    continue;
                }
                let faulty = spec.fault != "none" && spec.at != "between";
                let cut = if faulty { cut_offset(&spec, resp.len(), hlen, Some(fde)) } else { resp.len() };
                first.extend_from_slice(&resp[..cut]);
                let fused_close = faulty && spec.fault == "close" && !spec.split;
                if fused_close { set_cork(&c.s, true); }
                if !first.is_empty() && !c.send_raw(&first) {
                    log.push(obs, json!({"ev": "B_WriteErr", "bk": bk, "r": idx}));
                    return;
                }
                log.push(obs, json!({"ev": "B_Send", "bk": bk, "r": idx, "bytes": cut, "head": hlen, "total": resp.len(),
                                      "units": if cut >= hlen { (cut - hlen) / (UNIT + 9) } else { 0 }}));
                if faulty && spec.split { std::thread::sleep(SPLIT_PAUSE); }
                if faulty {
                    log.push(obs, json!({"ev": "B_Fault", "bk": bk, "r": idx, "kind": spec.fault, "at": spec.at}));
                    match spec.fault.as_str() {
                        "close" => { close_and_wait_peer(c.s, stop, log, obs, pc); return; }
                        "reset" => { if let Some(r) = &raw { set_linger0(r); } drop(c); drop(raw); return; }
                        "garbage" => {
                            if spec.k % 2 == 1 { std::thread::sleep(Duration::from_millis(120)); }
                            // on HTTP/2 "not HTTP at all" must be invalid under every frame alignment: a short blob
                            // can look like the start of a frame of unknown type (ignored per RFC 9113) whose payload
                            // never comes, i.e. a stall. 0xff.. is a frame far beyond any SETTINGS_MAX_FRAME_SIZE.
                            c.send_raw(&[0xffu8; 1024]);
                        }
                        "rststream" => { c.send(&Frame::rst(f.sid, 0x2)); }
                        _ => {
                            // stall: this stream gets nothing more. If the cut fell inside a frame, nothing
                            // can follow on this connection either (it would be read as the frame's rest).
                            let on_boundary = cut == 0 || cut == hlen || cut == resp.len() || (cut == fde && spec.body > 0);
                            if !on_boundary { wait_stop(stop, &mut c.s); return; }
                        }
                    }
                } else if spec.fault != "none" && spec.at == "between" {
                    log.push(obs, json!({"ev": "B_Fault", "bk": bk, "r": idx, "kind": spec.fault, "at": spec.at}));
                    if spec.fault == "reset" {
                        std::thread::sleep(Duration::from_millis(150));
                        if let Some(r) = &raw { set_linger0(r); }
                        drop(c);
                        drop(raw);
                        pc.fetch_add(1, Ordering::SeqCst);
                    } else {
                        close_and_wait_peer(c.s, stop, log, obs, pc);
                    }
                    return;
                }
            }
            _ => {}
        }
    }
}

// ------------------------------------------------------------------------------------------------
// observations

#[derive(Clone, Debug, Default)]
pub struct ReqObs {
    pub idx: usize,
    pub sent: bool,
    pub status: Option<u16>,
    /// further status lines / HEADERS carrying :status seen for the same request
    pub extra_answers: u32,
    pub declared: Option<usize>,
    pub framing: String,
    pub body: Vec<u8>,
    pub xreq: Option<String>,
    pub complete: bool,
    /// eof | reset | rst_stream:<code> | goaway:<code> | notsent
    pub abort: Option<String>,
    pub conn_close_hdr: bool,
    pub t_status_ms: Option<u64>,
    pub t_end_ms: Option<u64>,
    pub t_sent: Option<Instant>,
    /// interim (1xx) responses seen before the final one
    pub interims: u32,
    /// the first bytes of what arrived behind the answer (second answer)
    pub extra_head: String,
}

impl ReqObs {
    pub fn to_json(&self) -> Value {
        json!({"r": self.idx, "sent": self.sent, "status": self.status, "extra_answers": self.extra_answers,
               "declared": self.declared, "framing": self.framing, "body_len": self.body.len(), "xreq": self.xreq,
               "complete": self.complete, "abort": self.abort, "conn_close_hdr": self.conn_close_hdr, "interims": self.interims, "extra_head": self.extra_head,
               "t_status_ms": self.t_status_ms, "t_end_ms": self.t_end_ms})
    }
    /// ("<status>|none", "complete|abort|closed|hang|notsent")
    pub fn outcome(&self) -> (String, String) {
        let st = self.status.map(|s| s.to_string()).unwrap_or_else(|| "none".into());
        let how = if !self.sent { "notsent" } else if self.complete { "complete" } else if self.abort.is_some() { "abort" } else { "hang" };
        (st, how.to_string())
    }
    fn finish(&mut self, abort: Option<&str>) {
        if self.t_end_ms.is_none() {
            self.t_end_ms = self.t_sent.map(|t| t.elapsed().as_millis() as u64);
            if let Some(a) = abort { self.abort = Some(a.to_string()); }
        }
    }
    pub fn ended(&self) -> bool { self.complete || self.abort.is_some() }
}

pub fn request_path(scn: &Scenario, idx: usize) -> String {
    let r = &scn.reqs[idx];
    match r.route.as_str() {
        "noroute" => format!("/s{}/zz/r{idx}", scn.id),
        "wrongcert" => format!("/s{}/a/r{idx}", scn.id),
        "partial" => format!("/s{}/a/r{idx}", scn.id),
        seg => format!("/s{}/{seg}/r{idx}", scn.id),
    }
}

// ---- HTTP/1.1 client ------------------------------------------------------------------------------

struct H1Reader {
    s: TcpStream,
    buf: Vec<u8>,
    eof: Option<&'static str>,
}

impl H1Reader {
    fn fill(&mut self, until: Instant) -> bool {
        if self.eof.is_some() { return false; }
        let now = Instant::now();
        if now >= until { return false; }
        let _ = self.s.set_read_timeout(Some((until - now).min(Duration::from_millis(50)).max(Duration::from_millis(1))));
        let mut tmp = [0u8; 16384];
        match self.s.read(&mut tmp) {
            Ok(0) => { self.eof = Some("eof"); false }
            Ok(n) => { self.buf.extend_from_slice(&tmp[..n]); true }
            Err(e) if e.kind() == std::io::ErrorKind::WouldBlock || e.kind() == std::io::ErrorKind::TimedOut => false,
            Err(_) => { self.eof = Some("reset"); false }
        }
    }

    /// Read one response for `o`. Returns when the response is complete, the connection ended, or `until` passed.
    fn read_response(&mut self, o: &mut ReqObs, until: Instant, log: &Log) {
      loop {
        // head
        let head_end = loop {
            if let Some(p) = find(&self.buf, b"\r\n\r\n") { break p + 4; }
            if !self.fill(until) {
                if let Some(e) = self.eof { o.finish(Some(e)); return; }
                if Instant::now() >= until { return; }
            }
        };
        let head = String::from_utf8_lossy(&self.buf[..head_end]).to_string();
        self.buf.drain(..head_end);
        let mut lines = head.split("\r\n");
        let sl = lines.next().unwrap_or("");
        o.status = sl.split_whitespace().nth(1).and_then(|x| x.parse().ok());
        o.t_status_ms = o.t_sent.map(|t| t.elapsed().as_millis() as u64);
        let mut chunked = false;
        for l in lines {
            let Some((k, v)) = l.split_once(':') else { continue };
            let (k, v) = (k.trim().to_ascii_lowercase(), v.trim().to_string());
            match k.as_str() {
                "content-length" => o.declared = v.parse().ok(),
                "transfer-encoding" => chunked = v.to_ascii_lowercase().contains("chunked"),
                "connection" => o.conn_close_hdr = v.to_ascii_lowercase().contains("close"),
                "x-req" => o.xreq = Some(v),
                _ => {}
            }
        }
        if !sl.starts_with("HTTP/1.1") && !sl.starts_with("HTTP/1.0") {
            o.status = None;
            o.finish(Some("garbled"));
            return;
        }
        let st = o.status.unwrap_or(0);
        if (100..200).contains(&st) && st != 101 {
            // an interim response: not the answer, the final response follows
            o.interims += 1;
            o.status = None;
            o.t_status_ms = None;
            o.conn_close_hdr = false;
            log.push("client", json!({"ev": "C_Interim", "r": o.idx, "status": st}));
            continue;
        }
        log.push("client", json!({"ev": "C_Status", "r": o.idx, "status": o.status}));
        if st == 204 || st == 304 || (100..200).contains(&st) {
            o.framing = "none".into();
            o.complete = true;
            o.finish(None);
            return;
        }
        if chunked {
            o.framing = "chunked".into();
            loop {
                // chunk-size line
                let Some(p) = find(&self.buf, b"\r\n") else {
                    if !self.fill(until) {
                        if let Some(e) = self.eof { o.finish(Some(e)); return; }
                        if Instant::now() >= until { return; }
                    }
                    continue;
                };
                let line = String::from_utf8_lossy(&self.buf[..p]).to_string();
                let Ok(sz) = usize::from_str_radix(line.split(';').next().unwrap_or("").trim(), 16) else {
                    o.finish(Some("garbled"));
                    return;
                };
                if sz == 0 {
                    // trailers until empty line
                    loop {
                        if let Some(q) = find(&self.buf[p..], b"\r\n\r\n") {
                            self.buf.drain(..p + q + 4);
                            o.complete = true;
                            o.finish(None);
                            return;
                        }
                        if !self.fill(until) {
                            if let Some(e) = self.eof { o.finish(Some(e)); return; }
                            if Instant::now() >= until { return; }
                        }
                    }
                }
                while self.buf.len() < p + 2 + sz + 2 {
                    if !self.fill(until) {
                        if let Some(e) = self.eof {
                            let have = self.buf.len().saturating_sub(p + 2).min(sz);
                            o.body.extend_from_slice(&self.buf[p + 2..p + 2 + have]);
                            o.finish(Some(e));
                            return;
                        }
                        if Instant::now() >= until {
                            let have = self.buf.len().saturating_sub(p + 2).min(sz);
                            o.body.extend_from_slice(&self.buf[p + 2..p + 2 + have]);
                            return;
                        }
                    }
                }
                o.body.extend_from_slice(&self.buf[p + 2..p + 2 + sz]);
                if &self.buf[p + 2 + sz..p + 2 + sz + 2] != b"\r\n" {
                    o.finish(Some("garbled"));
                    return;
                }
                self.buf.drain(..p + 2 + sz + 2);
            }
        } else if let Some(n) = o.declared {
            o.framing = "cl".into();
            loop {
                let take = (n - o.body.len()).min(self.buf.len());
                o.body.extend(self.buf.drain(..take));
                if o.body.len() == n { o.complete = true; o.finish(None); return; }
                if !self.fill(until) {
                    if let Some(e) = self.eof { o.finish(Some(e)); return; }
                    if Instant::now() >= until { return; }
                }
            }
        } else {
            o.framing = "close".into();
            loop {
                o.body.append(&mut self.buf);
                if !self.fill(until) {
                    match self.eof {
                        Some("eof") => { o.complete = true; o.finish(None); return; }
                        Some(e) => { o.finish(Some(e)); return; }
                        None => if Instant::now() >= until { return; },
                    }
                }
            }
        }
      }
    }
}

pub struct RunCfg {
    /// per request: how long to wait for the end of the answer before calling it late
    pub deadline: Duration,
    /// how much longer to keep waiting to tell a hang from slowness
    pub grace: Duration,
}

pub fn run_h1_client(env: &ScnEnv, scn: &Scenario, cfg: &RunCfg) -> Result<Vec<ReqObs>, String> {
    let log = &env.log;
    let s = TcpStream::connect_timeout(&env.front, Duration::from_secs(10)).map_err(|e| format!("client connect: {e}"))?;
    let _ = s.set_nodelay(true);
    let mut rd = H1Reader { s, buf: Vec::new(), eof: None };
    let (lo, n) = scn.sel.unwrap_or((0, scn.reqs.len()));
    let mut obs: Vec<ReqObs> = (0..n).map(|i| ReqObs { idx: i, ..Default::default() }).collect();
    let req_bytes = |i: usize| -> Vec<u8> {
        let p = request_path(scn, i);
        if scn.reqs[i].route == "partial" {
            format!("GET {p} HTTP/1.1\r\nHost: local").into_bytes()
        } else {
            format!("GET {p} HTTP/1.1\r\nHost: localhost\r\nX-Req: r{i}\r\n\r\n").into_bytes()
        }
    };
    let wait_total = cfg.deadline + cfg.grace;
    // the connection holding the per-(cluster, IP) slot is opened right before the request that must meet the
    // limit: an idle keep-alive connection would be closed by sozu's own timeouts within a second or two
    let mut holders: Vec<Holder> = Vec::new();
    if scn.mode == "pipe" {
        for (i, r) in scn.reqs.iter().enumerate() { if r.route == "iplimit" && holders.is_empty() { holders.push(hold_ip_slot(env, scn, i)?); } }
        let mut all = Vec::new();
        for i in lo..n { all.extend_from_slice(&req_bytes(i)); }
        let t0 = Instant::now();
        let okw = rd.s.write_all(&all).is_ok();
        for (i, o) in obs.iter_mut().enumerate().skip(lo) {
            o.sent = okw;
            o.t_sent = Some(t0);
            log.push("client", json!({"ev": "C_Send", "r": i}));
        }
        for i in lo..n {
            if !obs[i].sent { obs[i].abort = Some("notsent".into()); continue; }
            // the deadline of a pipelined request starts when the previous answer ended
            let start = Instant::now();
            obs[i].t_sent = Some(start);
            rd.read_response(&mut obs[i], start + wait_total, log);
            log.push("client", json!({"ev": "C_End", "r": i, "complete": obs[i].complete, "abort": obs[i].abort}));
        }
    } else {
        for i in lo..n {
            if rd.eof.is_some() || (i > lo && obs[i - 1].conn_close_hdr) || (i > lo && !obs[i - 1].complete) {
                // an unsolicited close between requests is an explicit connection-level event
                obs[i].abort = Some("notsent".into());
                log.push("client", json!({"ev": "C_NotSent", "r": i}));
                continue;
            }
            if i > lo && scn.mode == "seqgap" && scn.reqs[..i].iter().any(|r| r.at == "between" && r.fault != "goaway") {
                // wait until sozu has reacted to the backend's close of the idle connection
                let until = Instant::now() + Duration::from_secs(4);
                while env.peer_closed.load(Ordering::SeqCst) == 0 && Instant::now() < until {
                    std::thread::sleep(Duration::from_millis(5));
                }
                std::thread::sleep(Duration::from_millis(30));
            }
            // anything that arrives between two requests is an unsolicited second answer
            if i > lo {
                let before = rd.buf.len();
                rd.fill(Instant::now() + Duration::from_millis(if scn.mode == "seqgap" { 5 } else { 30 }));
                if rd.buf.len() > before || before > 0 {
                    obs[i - 1].extra_answers += 1;
                    obs[i - 1].extra_head = String::from_utf8_lossy(&rd.buf[..rd.buf.len().min(60)]).to_string();
                    rd.buf.clear();
                }
                if rd.eof.is_some() {
                    obs[i].abort = Some("notsent".into());
                    log.push("client", json!({"ev": "C_NotSent", "r": i}));
                    continue;
                }
            }
            if scn.reqs[i].route == "iplimit" && holders.is_empty() { holders.push(hold_ip_slot(env, scn, i)?); }
            let t0 = Instant::now();
            obs[i].t_sent = Some(t0);
            if rd.s.write_all(&req_bytes(i)).is_err() {
                obs[i].abort = Some("notsent".into());
                log.push("client", json!({"ev": "C_NotSent", "r": i}));
                continue;
            }
            obs[i].sent = true;
            log.push("client", json!({"ev": "C_Send", "r": i}));
            rd.read_response(&mut obs[i], t0 + wait_total, log);
            log.push("client", json!({"ev": "C_End", "r": i, "complete": obs[i].complete, "abort": obs[i].abort}));
        }
    }
    // trailing bytes after the last answer: unsolicited second answer
    if let Some(last) = obs.last_mut().filter(|o| o.complete && o.framing != "close") {
        if rd.eof.is_none() {
            let before = rd.buf.len();
            rd.fill(Instant::now() + Duration::from_millis(30));
            if rd.buf.len() > before || before > 0 { last.extra_answers += 1; }
        } else if !rd.buf.is_empty() {
            last.extra_answers += 1;
        }
    }
    set_linger0(&rd.s);
    drop(holders);
    Ok(obs.split_off(lo))
}

// ---- TLS + HTTP/2 client --------------------------------------------------------------------------

pub fn run_h2_client(env: &ScnEnv, scn: &Scenario, cfg: &RunCfg) -> Result<Vec<ReqObs>, String> {
    let log = &env.log;
    let mut c = h2_tls_client(env.front, "localhost", Duration::from_secs(10))?;
    if !c.client_preface(&[]) { return Err("h2 client preface".into()); }
    let (lo, n) = scn.sel.unwrap_or((0, scn.reqs.len()));
    let mut obs: Vec<ReqObs> = (0..n).map(|i| ReqObs { idx: i, sent: i < lo, complete: i < lo, ..Default::default() }).collect();
    let sid_of = |i: usize| (2 * (i - lo.min(i)) + 1) as u32;
    let wait_total = cfg.deadline + cfg.grace;
    let mut next = lo;
    let mut holders: Vec<Holder> = Vec::new();
    let mut conn_dead: Option<String> = None;
    loop {
        // send what may be sent
        while next < n && conn_dead.is_none() && (scn.mode == "mux" || next == lo || obs[next - 1].ended()) {
            if next > lo && scn.mode == "seqgap" && scn.reqs[..next].iter().any(|r| r.at == "between" && r.fault != "goaway") {
                let until = Instant::now() + Duration::from_secs(4);
                while env.peer_closed.load(Ordering::SeqCst) == 0 && Instant::now() < until {
                    std::thread::sleep(Duration::from_millis(5));
                }
                std::thread::sleep(Duration::from_millis(30));
            }
            let i = next;
            next += 1;
            if scn.reqs[i].route == "iplimit" && holders.is_empty() { holders.push(hold_ip_slot(env, scn, i)?); }
            if i > 0 && scn.mode == "mux" && scn.gap_ms > 0 { std::thread::sleep(Duration::from_millis(scn.gap_ms)); }
            let authority = if scn.reqs[i].route == "wrongcert" { "wrong.test" } else { "localhost" };
            let xr = format!("r{i}");
            let block = request_block(&mut c.hp, "GET", "https", authority, &request_path(scn, i), &[("x-req", &xr)]);
            obs[i].t_sent = Some(Instant::now());
            let partial = scn.reqs[i].route == "partial";
            let f = Frame::headers(sid_of(i), block, !partial, !partial);
            if c.send(&f) {
                obs[i].sent = true;
                log.push("client", json!({"ev": "C_Send", "r": i}));
            } else {
                obs[i].abort = Some("notsent".into());
                log.push("client", json!({"ev": "C_NotSent", "r": i}));
            }
        }
        if let Some(d) = &conn_dead {
            for o in obs.iter_mut() {
                if !o.sent && o.abort.is_none() { o.abort = Some("notsent".into()); log.push("client", json!({"ev": "C_NotSent", "r": o.idx})); }
                else if o.sent && !o.ended() { o.finish(Some(d)); log.push("client", json!({"ev": "C_End", "r": o.idx, "complete": false, "abort": d})); }
            }
            break;
        }
        if obs.iter().all(|o| o.ended()) { break; }
        // overall deadline: the latest (sent + wait_total) among unfinished sent requests
        let pending: Vec<Instant> = obs.iter().filter(|o| o.sent && !o.ended()).filter_map(|o| o.t_sent).collect();
        if pending.is_empty() { break; }
        let until = *pending.iter().max().unwrap() + wait_total;
        if Instant::now() >= until { break; }
        let Some(f) = c.read_frame(Duration::from_millis(50)) else {
            if c.eof { conn_dead = Some(if c.io_error.is_some() { "reset".into() } else { "eof".into() }); }
            continue;
        };
        let i = if f.sid >= 1 && f.sid % 2 == 1 { Some(((f.sid - 1) / 2) as usize + lo).filter(|i| *i < n) } else { None };
        if std::env::var("VH_XKIT_FRAMES").is_ok() {
            log.push("clientdbg", json!({"ev": "C_Frame", "ty": f.ty, "sid": f.sid, "flags": f.flags, "len": f.payload.len()}));
        }
        match f.ty {
            SETTINGS if f.flags & FLAG_ACK == 0 => { c.send(&Frame::settings_ack()); }
            PING if f.flags & FLAG_ACK == 0 && f.payload.len() == 8 => { let mut d = [0u8; 8]; d.copy_from_slice(&f.payload); c.send(&Frame::ping(d, true)); }
            HEADERS => {
                let hs = c.hp.decode(&f.payload).unwrap_or_default();
                if let Some(i) = i {
                    let o = &mut obs[i];
                    let st: Option<u16> = hs.iter().find(|(k, _)| k == b":status").and_then(|(_, v)| String::from_utf8_lossy(v).parse().ok());
                    if o.ended() {
                        o.extra_answers += 1;
                    } else if let Some(st) = st {
                        if o.status.is_some() {
                            o.extra_answers += 1;
                        } else if (100..200).contains(&st) {
                            o.interims += 1;
                            log.push("client", json!({"ev": "C_Interim", "r": i, "status": st}));
                        } else {
                            o.status = Some(st);
                            o.framing = "h2".into();
                            o.t_status_ms = o.t_sent.map(|t| t.elapsed().as_millis() as u64);
                            o.declared = hs.iter().find(|(k, _)| k == b"content-length").and_then(|(_, v)| String::from_utf8_lossy(v).parse().ok());
                            o.xreq = hs.iter().find(|(k, _)| k == b"x-req").map(|(_, v)| String::from_utf8_lossy(v).to_string());
                            log.push("client", json!({"ev": "C_Status", "r": i, "status": st}));
                        }
                    }
                    if f.end_stream() && !o.ended() {
                        o.complete = true;
                        o.finish(None);
                        log.push("client", json!({"ev": "C_End", "r": i, "complete": true, "abort": Value::Null}));
                    }
                }
            }
            DATA => {
                if let Some(i) = i {
                    let o = &mut obs[i];
                    if o.ended() {
                        o.extra_answers += 1;
                    } else {
                        if let Some(d) = f.data_bytes() { o.body.extend_from_slice(d); }
                        if f.end_stream() {
                            o.complete = true;
                            o.finish(None);
                            log.push("client", json!({"ev": "C_End", "r": i, "complete": true, "abort": Value::Null}));
                        }
                    }
                    // no WINDOW_UPDATE: bodies stay far below the initial windows, and a client that writes
                    // while sozu closes would turn the close into a TCP RST (harness-made race)
                }
            }
            RST_STREAM => {
                if let Some(i) = i {
                    let code = f.u32_at(0).unwrap_or(0);
                    let o = &mut obs[i];
                    if !o.ended() {
                        let a = format!("rst_stream:{code}");
                        o.finish(Some(&a));
                        log.push("client", json!({"ev": "C_End", "r": i, "complete": false, "abort": a}));
                    }
                }
            }
            GOAWAY => {
                let last = f.u32_at(0).unwrap_or(0) & 0x7fff_ffff;
                let code = f.u32_at(4).unwrap_or(0);
                for o in obs.iter_mut() {
                    if o.sent && !o.ended() && sid_of(o.idx) > last {
                        let a = format!("goaway:{code}");
                        o.finish(Some(&a));
                        log.push("client", json!({"ev": "C_End", "r": o.idx, "complete": false, "abort": a}));
                    }
                }
            }
            _ => {}
        }
    }
    for o in obs.iter_mut() {
        if !o.sent && o.abort.is_none() { o.abort = Some("notsent".into()); }
    }
    // late frames for finished streams (second answers)
    let until = Instant::now() + Duration::from_millis(30);
    while Instant::now() < until && !c.eof {
        if let Some(f) = c.read_frame(Duration::from_millis(10)) {
            if (f.ty == HEADERS || f.ty == DATA) && f.sid % 2 == 1 {
                let i = ((f.sid - 1) / 2) as usize + lo;
                if i < n && obs[i].ended() { obs[i].extra_answers += 1; }
                if f.ty == HEADERS { let _ = c.hp.decode(&f.payload); }
            }
        }
    }
    set_linger0(&c.s.sock);
    drop(holders);
    Ok(obs.split_off(lo))
}

/// A connection that holds the per-(cluster, source IP) slot of the `iplimit` cluster for as long as it lives.
/// sozu closes idle connections within a second or two here, so the holder keeps its connection busy: one
/// request every 300 ms (HTTP/1.1 keep-alive requests, or new HTTP/2 streams) until it is dropped.
pub struct Holder {
    stop: Arc<AtomicBool>,
    thread: Option<JoinHandle<()>>,
}

impl Drop for Holder {
    fn drop(&mut self) {
        self.stop.store(true, Ordering::SeqCst);
        if let Some(t) = self.thread.take() { let _ = t.join(); }
    }
}

pub fn hold_ip_slot(env: &ScnEnv, scn: &Scenario, idx: usize) -> Result<Holder, String> {
    let path = format!("/s{}/iplimit/r{idx}", scn.id);
    let stop = Arc::new(AtomicBool::new(false));
    let stop2 = stop.clone();
    if scn.front == "h2" {
        let mut c = h2_tls_client(env.front, "localhost", Duration::from_secs(10))?;
        c.client_preface(&[]);
        let mut one = move |c: &mut H2Conn<TlsStream>, sid: u32| -> Option<String> {
            let block = request_block(&mut c.hp, "GET", "https", "localhost", &path, &[]);
            c.send(&Frame::headers(sid, block, true, true));
            let until = Instant::now() + Duration::from_secs(10);
            let mut st = None;
            while Instant::now() < until {
                let Some(f) = c.read_frame(Duration::from_millis(50)) else { if c.eof { break; } continue; };
                if f.ty == SETTINGS && f.flags & FLAG_ACK == 0 { c.send(&Frame::settings_ack()); }
                if f.ty == HEADERS {
                    let h = c.hp.decode(&f.payload).ok();
                    if f.sid == sid { st = h.and_then(|h| h.iter().find(|(k, _)| k == b":status").map(|(_, v)| String::from_utf8_lossy(v).to_string())); }
                }
                if f.sid == sid && f.end_stream() { break; }
            }
            st
        };
        let st = one(&mut c, 1);
        if st.as_deref() != Some("200") { return Err(format!("ip-slot holder got {st:?}")); }
        let thread = std::thread::spawn(move || {
            let mut sid = 3;
            while !stop2.load(Ordering::SeqCst) {
                std::thread::sleep(Duration::from_millis(300));
                if stop2.load(Ordering::SeqCst) { break; }
                if one(&mut c, sid).is_none() { break; }
                sid += 2;
            }
            set_linger0(&c.s.sock);
        });
        Ok(Holder { stop, thread: Some(thread) })
    } else {
        let s = TcpStream::connect_timeout(&env.front, Duration::from_secs(10)).map_err(|e| e.to_string())?;
        let mut rd = H1Reader { s, buf: Vec::new(), eof: None };
        let mut one = move |rd: &mut H1Reader| -> Option<u16> {
            rd.s.write_all(format!("GET {path} HTTP/1.1\r\nHost: localhost\r\n\r\n").as_bytes()).ok()?;
            let mut o = ReqObs { idx, t_sent: Some(Instant::now()), ..Default::default() };
            rd.read_response(&mut o, Instant::now() + Duration::from_secs(10), &Log::default());
            if o.complete { o.status } else { None }
        };
        let st = one(&mut rd);
        if st != Some(200) { return Err(format!("ip-slot holder got {st:?}")); }
        let thread = std::thread::spawn(move || {
            while !stop2.load(Ordering::SeqCst) {
                std::thread::sleep(Duration::from_millis(300));
                if stop2.load(Ordering::SeqCst) { break; }
                if one(&mut rd) != Some(200) { break; }
            }
            set_linger0(&rd.s);
        });
        Ok(Holder { stop, thread: Some(thread) })
    }
}

/// Run one scenario: returns (observations, events of all observers).
pub fn run_scenario(env: &ScnEnv, scn: &Scenario, cfg: &RunCfg) -> Result<(Vec<ReqObs>, Vec<Value>), String> {
    if scn.mode == "newconn" {
        // every request on a frontend connection of its own, one after the other; the refusing backend recovers
        // once the requests scripted "refuse" are over; a request may wait (gap_ms) before it is sent
        let mut obs = Vec::new();
        for i in 0..scn.reqs.len() {
            if scn.reqs[i].fault != "refuse" && scn.reqs[..i].iter().any(|r| r.fault == "refuse") { env.recover_backend(); }
            if scn.reqs[i].gap_ms > 0 { std::thread::sleep(Duration::from_millis(scn.reqs[i].gap_ms)); }
            let mut one = scn.clone();
            one.mode = "seq".into();
            one.sel = Some((i, i + 1));
            let mut o = if scn.front == "h2" { run_h2_client(env, &one, cfg)? } else { run_h1_client(env, &one, cfg)? };
            obs.append(&mut o);
        }
        return Ok((obs, env.log.snapshot()));
    }
    let obs = if scn.front == "h2" { run_h2_client(env, scn, cfg)? } else { run_h1_client(env, scn, cfg)? };
    Ok((obs, env.log.snapshot()))
}

/// Checks that hold whatever the scenario: one answer, intact body, no cross-talk, nothing truncated presented as complete.
pub fn universal_checks(o: &ReqObs, spec: &ReqSpec) -> Vec<(String, Value)> {
    let mut v = Vec::new();
    if o.extra_answers > 0 {
        v.push(("two-answers".to_string(), json!({"r": o.idx, "extra": o.extra_answers})));
    }
    if o.status == Some(200) {
        let full = full_body(o.idx, spec.body);
        // bytes a backend sends inside a content-length body are its body, whatever they are
        // (inside a chunk the bytes up to the announced chunk size are data too)
        let garbage_body = spec.fault == "garbage";
        if !full.starts_with(&o.body) && !garbage_body {
            v.push(("corrupt-body".to_string(), json!({"r": o.idx, "got": String::from_utf8_lossy(&o.body[..o.body.len().min(160)])})));
        } else if o.complete && o.body.len() != full.len() && spec.framing != "close" && !garbage_body {
            // (a close-delimited body ends where the backend closed: that is its framing)
            v.push(("truncated-as-complete".to_string(), json!({"r": o.idx, "got": o.body.len(), "want": full.len(), "framing": o.framing})));
        }
        if let Some(x) = &o.xreq {
            if *x != format!("r{}", o.idx) { v.push(("cross-talk".to_string(), json!({"r": o.idx, "xreq": x}))); }
        }
    }
    if o.complete {
        if let Some(d) = o.declared {
            if d != o.body.len() { v.push(("truncated-as-complete".to_string(), json!({"r": o.idx, "declared": d, "got": o.body.len()}))); }
        }
    }
    v
}
